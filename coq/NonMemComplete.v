(* Completeness of non-membership proofs (C05, used by C02/C03): on a canonical tree whose leaves
   carry 256-bit labels, the proof the prover's walk produces for an absent 256-bit label verifies
   against the root hash - for every configuration whose empty label is not canonical. *)
From Coq Require Import List Bool Arith NArith Lia.
From Akd Require Import Bits NodeLabel NodeLabelFacts BitsLabel ElemSetFacts Hashing Tree TreeFacts TreeComplete Spec SpecFacts InsertRefine.
Import ListNotations.
Open Scope N_scope.

Section NonMem.
  Variable cfg : config.
  Hypothesis Ce : canonical (c_empty_label cfg) = false.

  (* an interior position of a canonical tree: a node (the root or a canonical subtree's node) whose
     present children are canonical subtrees hanging in their direction *)
  Definition okc (cur : tree) : Prop :=
    match cur with
    | Leaf _ _ _ => False
    | Node l _ _ a b =>
      WF l /\ canonical l = true /\
      (forall c, a = Some c -> pord (bits_of l) (bits_of (tlabel c)) = Some false /\ canon c) /\
      (forall c, b = Some c -> pord (bits_of l) (bits_of (tlabel c)) = Some true /\ canon c)
    end.

  Lemma okc_child cur d c : okc cur -> child cur d = Some c -> pord (bits_of (tlabel cur)) (bits_of (tlabel c)) = Some d /\ canon c.
  Proof.
    destruct cur as [|l le mde a b]; [intros []|]. intros (_ & _ & Ha & Hb) Hc. cbn [child tlabel] in *.
    destruct d; [apply Hb | apply Ha]; exact Hc.
  Qed.

  Lemma canon_okc c : canon c -> is_leaf c = false -> okc c.
  Proof.
    destruct c as [|l le mde a b]; [discriminate|]. intros [Hw Ha] _.
    destruct (wf_sub_node _ _ _ _ _ Hw) as (a' & b' & -> & -> & W & C & Pa & Pb & Wa & Wb).
    cbn [ann_ok] in Ha. destruct Ha as (_ & _ & Aa & Ab).
    cbn [okc]. split; [exact W|]. split; [exact C|]. split; intros c [= <-]; split; try assumption; split; assumption.
  Qed.

  Lemma canon_root_okc t : canon_root t -> okc t.
  Proof.
    destruct t as [|l le mde a b]; [intros []|]. intros (-> & Ca & Cb & _ & _). cbn [okc].
    split; [apply nl_root_wf|]. split; [apply nl_root_wf|]. rewrite bits_of_root.
    split; intros c ->; [exact Ca | exact Cb].
  Qed.

  (* a canonical subtree with a 256-bit label is a leaf *)
  Lemma canon_256_leaf c : canon c -> length (bits_of (tlabel c)) = 256%nat -> is_leaf c = true.
  Proof.
    destruct c as [|l le mde a b]; [reflexivity|]. intros [Hw _] Hl.
    destruct (wf_sub_node _ _ _ _ _ Hw) as (a' & b' & -> & -> & W & C & Pa & Pb & Wa & Wb). exfalso.
    cbn [tlabel] in Hl. unfold pord in Pa. rewrite Hl in Pa.
    destruct (wfg_label a' (wf_sub_wfg a' Wa)) as [Wla _].
    pose proof (length_bits_of _ Wla) as La. destruct (WF_parts _ Wla) as (_ & H256 & _).
    assert (E : (length (bits_of (tlabel a')) <=? 256)%nat = true) by (apply Nat.leb_le; lia). rewrite E in Pa. discriminate.
  Qed.

  Variable x : nlabel.
  Hypothesis Wx : WF x.
  Hypothesis Cx : canonical x = true.
  Hypothesis Lx : length (bits_of x) = 256%nat.

  Definition stops_at (n : tree) : Prop :=
    okc n /\ exists d, pord (bits_of (tlabel n)) (bits_of x) = Some d /\
      match child n d with
      | None => True
      | Some c => tlabel c <> x /\ prefixb (bits_of (tlabel c)) (bits_of x) = false
      end.

  Lemma walk_stops : forall fuel cur d,
    okc cur -> pord (bits_of (tlabel cur)) (bits_of x) = Some d ->
    (forall y, In y (leaves cur) -> lf_label y <> x) ->
    (forall y, In y (leaves cur) -> length (bits_of (lf_label y)) = 256%nat) ->
    (257 <= fuel + length (bits_of (tlabel cur)))%nat ->
    stops_at (fst (lcp_walk cfg fuel cur x)) /\ (fst (lcp_walk cfg fuel cur x) = cur \/ canon (fst (lcp_walk cfg fuel cur x))).
  Proof.
    induction fuel as [|f IH]; intros cur d Hok Hp Habs H256 Hf.
    - exfalso. unfold pord in Hp. rewrite Lx in Hp.
      destruct (256 <=? length (bits_of (tlabel cur)))%nat eqn:E; [discriminate|]. apply Nat.leb_gt in E. lia.
    - cbn [lcp_walk].
      assert (Wc : WF (tlabel cur)) by (destruct cur; [destruct Hok | apply Hok]).
      assert (Hne : nl_eqb x (tlabel cur) = false).
      { destruct (nl_eqb x (tlabel cur)) eqn:E; [|reflexivity]. apply nl_eqb_eq in E. rewrite <- E in Hp.
        unfold pord in Hp. rewrite Nat.leb_refl in Hp. discriminate. }
      rewrite Hne. rewrite (get_prefix_ordering_spec _ _ Wc Wx), Hp.
      destruct (child cur d) as [c|] eqn:Ec.
      + destruct (okc_child cur d c Hok Ec) as [Pc Cc].
        destruct (wfg_label c (wf_sub_wfg c (proj1 Cc))) as [Wlc Clc].
        rewrite (get_prefix_ordering_spec _ _ Wlc Wx).
        assert (Hcx : nl_eqb x (tlabel c) = false).
        { destruct (nl_eqb x (tlabel c)) eqn:E; [|reflexivity]. apply nl_eqb_eq in E. exfalso.
          assert (Hleaf : is_leaf c = true) by (apply canon_256_leaf; [exact Cc | rewrite <- E; exact Lx]).
          destruct c as [lc vc ec|]; [|discriminate]. cbn [tlabel] in E.
          apply (Habs (LF lc vc ec)); [|cbn [lf_label]; congruence].
          destruct cur as [|l le mde a b]; [destruct Hok|]. cbn [child leaves] in *. apply in_or_app.
          destruct d; [right | left]; rewrite Ec; left; reflexivity. }
        rewrite Hcx. cbn [orb].
        destruct (pord (bits_of (tlabel c)) (bits_of x)) as [d'|] eqn:Pcx.
        * (* descend *)
          destruct (child_elem cfg (child cur (negb d))) as [sl sv].
          assert (Hsubl : forall y, In y (leaves c) -> In y (leaves cur)).
          { intros y Hy. destruct cur as [|l le mde a b]; [destruct Hok|]. cbn [child leaves] in *. apply in_or_app.
            destruct d; [right | left]; rewrite Ec; exact Hy. }
          assert (Hnl : is_leaf c = false).
          { destruct c as [lc vc ec|]; [|reflexivity]. exfalso.
            pose proof (H256 (LF lc vc ec) (Hsubl _ (or_introl eq_refl))) as L. cbn [lf_label] in L.
            unfold pord in Pcx. cbn [tlabel] in Pcx. rewrite Lx, L in Pcx. cbn in Pcx. discriminate. }
          specialize (IH c d' (canon_okc c Cc Hnl) Pcx).
          destruct (lcp_walk cfg f c x) as [n sibs] eqn:Ew. cbn [fst] in *.
          assert (G : stops_at n /\ (n = c \/ canon n)); [|destruct G as [G1 [G2|G2]]; split; auto; right; subst; exact Cc].
          apply IH.
          -- intros y Hy. apply Habs. apply Hsubl. exact Hy.
          -- intros y Hy. apply H256. apply Hsubl. exact Hy.
          -- unfold pord in Pc. destruct (length (bits_of (tlabel c)) <=? length (bits_of (tlabel cur)))%nat eqn:E; [discriminate|].
             apply Nat.leb_gt in E. lia.
        * (* stop here *)
          cbn [fst]. split; [|left; reflexivity]. split; [exact Hok|]. exists d. split; [exact Hp|]. rewrite Ec. split.
          -- intros E. rewrite E in Hcx. rewrite (proj2 (nl_eqb_eq x x) eq_refl) in Hcx. discriminate.
          -- destruct (prefixb (bits_of (tlabel c)) (bits_of x)) eqn:Epx; [|reflexivity]. exfalso.
             unfold pord in Pcx. rewrite Epx in Pcx.
             destruct (length (bits_of x) <=? length (bits_of (tlabel c)))%nat eqn:E; [|discriminate].
             apply Nat.leb_le in E. pose proof (prefixb_length _ _ Epx) as E2.
             assert (Eb : bits_of (tlabel c) = bits_of x).
             { apply prefixb_antisym; [exact Epx|]. apply prefixb_Prefix in Epx. destruct Epx as [r Hr].
               rewrite Hr, app_length in E. destruct r; [|cbn [length] in E; lia]. rewrite Hr, app_nil_r. apply prefixb_refl. }
             assert (Hcx' : tlabel c = x) by (apply bits_of_inj; assumption). rewrite Hcx' in Hcx.
             rewrite (proj2 (nl_eqb_eq _ _) eq_refl) in Hcx. discriminate.
      + cbn [fst]. split; [|left; reflexivity]. split; [exact Hok|]. exists d. split; [exact Hp|]. rewrite Ec. exact I.
  Qed.

  (* ---- the verification of the produced proof *)
  Lemma lcp_branch : forall p u v, prefixb (p ++ [false]) u = true -> prefixb (p ++ [true]) v = true -> lcp u v = p.
  Proof.
    induction p as [|h p IH]; intros [|hu u] [|hv v] Hu Hv; cbn [app prefixb] in *; try discriminate.
    - apply andb_true_iff in Hu, Hv. destruct Hu as [Hu _]. destruct Hv as [Hv _]. apply eqb_prop in Hu, Hv. subst. reflexivity.
    - apply andb_true_iff in Hu, Hv. destruct Hu as [Hu Hu']. destruct Hv as [Hv Hv']. apply eqb_prop in Hu, Hv. subst hu hv.
      cbn [lcp]. rewrite eqb_reflx. f_equal. apply IH; assumption.
  Qed.

  Lemma x_not_empty : nl_eqb x (c_empty_label cfg) = false.
  Proof. apply canonical_not_empty; assumption. Qed.

  Lemma label_not_empty c : canon c -> nl_eqb (tlabel c) (c_empty_label cfg) = false.
  Proof. intros Hc. destruct (wfg_label c (wf_sub_wfg c (proj1 Hc))) as [_ C]. apply canonical_not_empty; assumption. Qed.

  Theorem nonmembership_complete t :
    canon_root t ->
    (forall y, In y (leaves t) -> length (bits_of (lf_label y)) = 256%nat) ->
    (forall y, In y (leaves t) -> lf_label y <> x) ->
    verify_nonmembership cfg (root_hash cfg true t) (get_non_membership_proof cfg t x) = true.
  Proof.
    intros Hc H256 Habs.
    assert (Hroot : tlabel t = nl_root) by (destruct t; [destruct Hc | destruct Hc as (-> & _); reflexivity]).
    assert (Hp0 : exists d, pord (bits_of (tlabel t)) (bits_of x) = Some d).
    { rewrite Hroot, bits_of_root. unfold pord. rewrite Lx. cbn. eauto. }
    destruct Hp0 as [d0 Hp0].
    destruct (walk_stops walk_fuel t d0 (canon_root_okc t Hc) Hp0 Habs H256 ltac:(unfold walk_fuel; lia)) as [Hst Horig].
    pose proof (walk_fold cfg walk_fuel t x) as HF.
    unfold get_non_membership_proof. destruct (lcp_walk cfg walk_fuel t x) as [n sibs]. cbn [fst] in Hst, Horig.
    destruct HF as (F1 & F2 & F3). destruct Hst as [Hok (d & Hp & Hch)].
    destruct n as [|ln le mde a b]; [destruct Hok|]. destruct Hok as (Wl & Cl & Ha & Hb). cbn [tlabel child] in *.
    (* a missing child only at the root *)
    assert (Hmiss : (a = None \/ b = None) -> ln = nl_root).
    { intros Hm. destruct Horig as [E|Hcan]; [rewrite <- E in Hroot; exact Hroot|]. destruct (wf_sub_node _ _ _ _ _ (proj1 Hcan)) as (a' & b' & -> & -> & _). destruct Hm; discriminate. }
    assert (Hpre : prefixb (bits_of ln) (bits_of x) = true).
    { unfold pord in Hp. destruct (_ <=? _)%nat; [discriminate|]. destruct (prefixb _ _); [reflexivity | discriminate]. }
    assert (Hpd : prefixb (bits_of ln ++ [d]) (bits_of x) = true) by (apply pord_prefix; exact Hp).
    (* facts about each child *)
    assert (Hchild : forall (dir : bool) c, (if dir then b else a) = Some c ->
              canon c /\ pord (bits_of ln) (bits_of (tlabel c)) = Some dir /\ tlabel c <> x /\ prefixb (bits_of (tlabel c)) (bits_of x) = false).
    { intros dir c Hc0. assert (Hpc : pord (bits_of ln) (bits_of (tlabel c)) = Some dir /\ canon c) by (destruct dir; [apply Hb | apply Ha]; exact Hc0).
      destruct Hpc as [Pc Cc]. split; [exact Cc|]. split; [exact Pc|].
      destruct (Bool.bool_dec dir d) as [->|Hne].
      - rewrite Hc0 in Hch. exact Hch.
      - assert (Hnp : prefixb (bits_of (tlabel c)) (bits_of x) = false).
        { destruct (prefixb (bits_of (tlabel c)) (bits_of x)) eqn:E; [|reflexivity]. exfalso.
          pose proof (prefixb_trans _ _ _ (pord_prefix _ _ _ Pc) E) as P2.
          assert (E2 : bits_of ln ++ [dir] = bits_of ln ++ [d]) by (apply prefixb_antisym; eapply prefixb_total; eauto; rewrite !app_length; cbn; lia).
          apply app_inv_head in E2. congruence. }
        split; [|exact Hnp]. intros E. rewrite E, prefixb_refl in Hnp. discriminate. }
    unfold verify_nonmembership, verify_nonmembership_gen. cbn [np_label np_child0 np_child1 np_longest_prefix np_mp mp_label mp_hash_val].
    rewrite !child_elem_slot.
    (* step 1 and 3: the label is neither a child's label nor below a child *)
    assert (S1 : forall (dir : bool), nl_eqb x (slot_label cfg (if dir then b else a)) = false /\
                 (negb (nl_eqb (slot_label cfg (if dir then b else a)) (c_empty_label cfg)) && is_prefix_of (slot_label cfg (if dir then b else a)) x) = false).
    { intros dir. destruct (if dir then b else a) as [c|] eqn:Ec; cbn [slot_label].
      - destruct (Hchild dir c Ec) as (Cc & Pc & Nx & Np). split.
        + destruct (nl_eqb x (tlabel c)) eqn:E; [|reflexivity]. apply nl_eqb_eq in E. congruence.
        + destruct (wfg_label c (wf_sub_wfg c (proj1 Cc))) as [Wc _]. rewrite (is_prefix_of_spec _ _ Wc Wx), Np. apply andb_false_r.
      - split; [apply x_not_empty|]. rewrite (proj2 (nl_eqb_eq _ _) eq_refl). reflexivity. }
    destruct (S1 false) as [S1a S3a]. destruct (S1 true) as [S1b S3b]. cbn [negb] in *.
    rewrite S1a, S1b. cbn [orb].
    rewrite (is_prefix_of_spec _ _ Wl Wx), Hpre. cbn [negb].
    rewrite S3a, S3b. cbn [andb orb].
    (* step 4: the common prefix of the children *)
    assert (S4 : (if nl_eqb (get_longest_common_prefix (c_empty_label cfg) (slot_label cfg a) (slot_label cfg b)) (c_empty_label cfg)
                  then nl_root else get_longest_common_prefix (c_empty_label cfg) (slot_label cfg a) (slot_label cfg b)) = ln).
    { destruct a as [ca|] eqn:Ea; destruct b as [cb|] eqn:Eb; cbn [slot_label].
      - destruct (Hchild false ca eq_refl) as (Cca & Pca & _). destruct (Hchild true cb eq_refl) as (Ccb & Pcb & _).
        destruct (wfg_label ca (wf_sub_wfg ca (proj1 Cca))) as [Wa Ca]. destruct (wfg_label cb (wf_sub_wfg cb (proj1 Ccb))) as [Wb Cb].
        destruct (glcp_good (c_empty_label cfg) (tlabel ca) (tlabel cb) Wa Wb Ca Cb Ce) as (Gb & Gw & Gc). cbv zeta in Gb, Gw, Gc.
        rewrite (canonical_not_empty _ _ Ce Gc).
        apply bits_of_inj; try assumption. rewrite Gb. apply lcp_branch; apply pord_prefix; assumption.
      - unfold get_longest_common_prefix. rewrite (proj2 (nl_eqb_eq (c_empty_label cfg) _) eq_refl), orb_true_r.
        rewrite (proj2 (nl_eqb_eq (c_empty_label cfg) _) eq_refl). symmetry. apply Hmiss. right. reflexivity.
      - unfold get_longest_common_prefix. rewrite (proj2 (nl_eqb_eq (c_empty_label cfg) _) eq_refl). cbn [orb].
        rewrite (proj2 (nl_eqb_eq (c_empty_label cfg) _) eq_refl). symmetry. apply Hmiss. left. reflexivity.
      - unfold get_longest_common_prefix. rewrite (proj2 (nl_eqb_eq (c_empty_label cfg) _) eq_refl). cbn [orb].
        rewrite (proj2 (nl_eqb_eq (c_empty_label cfg) _) eq_refl). symmetry. apply Hmiss. left. reflexivity. }
    rewrite S4. rewrite (proj2 (nl_eqb_eq ln ln) eq_refl). cbn [negb orb].
    (* step 5: the hash of the reached node *)
    assert (S5 : (if (nl_eqb (slot_label cfg a) (c_empty_label cfg) && bytes_eqb (slot_value cfg a) (c_empty_node_hash cfg)) &&
                     (nl_eqb (slot_label cfg b) (c_empty_label cfg) && bytes_eqb (slot_value cfg b) (c_empty_node_hash cfg))
                  then c_empty_root_value cfg
                  else c_parent_hash cfg (slot_value cfg a) (lvalue cfg (slot_label cfg a)) (slot_value cfg b) (lvalue cfg (slot_label cfg b)))
                 = node_value cfg true (Node ln le mde a b)).
    { change (node_value cfg true (Node ln le mde a b)) with (hashval cfg true (Node ln le mde a b)).
      destruct a as [ca|] eqn:Ea; destruct b as [cb|] eqn:Eb.
      - cbn [slot_label]. rewrite (label_not_empty ca (proj1 (Hchild false ca eq_refl))). cbn [andb].
        rewrite hashval_node by (left; discriminate). reflexivity.
      - cbn [slot_label]. rewrite (label_not_empty ca (proj1 (Hchild false ca eq_refl))). cbn [andb].
        rewrite hashval_node by (left; discriminate). reflexivity.
      - cbn [slot_label]. rewrite (label_not_empty cb (proj1 (Hchild true cb eq_refl))). rewrite andb_false_r.
        rewrite hashval_node by (right; discriminate). reflexivity.
      - cbn [slot_label slot_value]. rewrite (proj2 (nl_eqb_eq _ _) eq_refl), (proj2 (bytes_eqb_eq _ _) eq_refl). reflexivity. }
    cbn [fst snd]. rewrite S5. rewrite (proj2 (bytes_eqb_eq _ _) eq_refl). cbn [negb orb].
    (* step 6: the membership proof of the reached node *)
    unfold verify_membership, mfold. cbn [mp_sibs mp_label mp_hash_val]. rewrite F1. cbn [snd].
    apply andb_true_iff. split.
    - destruct sibs; [|reflexivity]. specialize (F3 eq_refl). rewrite <- F3 in Hroot. cbn [tlabel] in Hroot. rewrite Hroot. apply nl_eqb_eq. reflexivity.
    - unfold root_hash. destruct t; [destruct Hc|]. apply bytes_eqb_eq. reflexivity.
  Qed.
End NonMem.
