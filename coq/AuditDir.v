(* C04 at the directory level: in every reachable state, for every range s < e <= current epoch, the
   proof returned by [audit] is accepted by [audit_verify] against the epoch hashes that the publishes
   returned for the epochs s..e. *)
From Coq Require Import List Bool Arith NArith Lia Permutation.
From Akd Require Import Directory Verify VerifyFacts.
From Akd Require Import Bits NodeLabel NodeLabelFacts BitsLabel ElemSet Hashing Tree TreeFacts
     Spec SpecFacts Insert InsertFacts InsertRefine DirFacts DirRefine AuditRebuild AuditComplete.
Import ListNotations.
Open Scope N_scope.

Lemma canon_root_last t : canon_root t -> t_last_epoch t = max_epoch (sleaves t).
Proof. intros H. rewrite <- (canon_root_spec t H) at 1. reflexivity. Qed.

Lemma max_epoch_new E elems : elems <> [] -> max_epoch (map sleaf_of (map (lf_of E) elems)) = E.
Proof.
  intros Hne. induction elems as [|x r IH]; [congruence|]. cbn [map]. rewrite max_epoch_cons. cbn [sleaf_of lf_of lf_epoch sl_epoch].
  destruct r as [|y r']; [cbn; lia|]. rewrite IH by discriminate. lia.
Qed.

Lemma Nrange'_S a n : Nrange' a (S n) = a :: Nrange' (a + 1) n.
Proof.
  unfold Nrange'. cbn [seq map]. f_equal; [lia|]. rewrite <- seq_shift, map_map. apply map_ext. intros k. lia.
Qed.

Section AuditDir.
  Variable cfg : config.
  Variable ck : bytes.
  Variable vrf_label : bytes -> bool -> N -> option nlabel.
  Hypothesis Ce : canonical (c_empty_label cfg) = false.
  Hypothesis vrf_good : forall l f v nl, vrf_label l f v = Some nl -> WF nl /\ canonical nl = true /\ llen nl = 256.
  Hypothesis vrf_inj : forall l f v l' f' v' nl, vrf_label l f v = Some nl -> vrf_label l' f' v' = Some nl -> l = l' /\ f = f' /\ v = v'.

  Notation publish := (Directory.publish cfg ck vrf_label).
  Notation run := (run_publishes cfg ck vrf_label).

  (* the invariant of C01 plus: the newest leaf carries the current epoch *)
  Definition Inv (st : dstate) : Prop := DirInv vrf_label st /\ t_last_epoch (d_tree st) = d_epoch st.

  (* the hash of the tree as of epoch k, read off the CURRENT tree *)
  Definition hash_as_of (st : dstate) (k : N) : bytes := spec_root_hash cfg (as_of k (d_tree st)).

  Lemma publish_cases st upds st' res : publish st upds = (st', res) ->
    st' = st \/ exists elems news t' e' n', elems <> [] /\ derive_all cfg ck vrf_label st upds = Some (elems, news) /\
      st' = DS t' e' n' (d_states st ++ news) /\ res = DOk (epoch_hash cfg st').
  Proof.
    unfold Directory.publish. destruct (has_dup (map fst upds)); [intros E; injection E as <- _; left; reflexivity|].
    destruct (derive_all cfg ck vrf_label st upds) as [[elems news]|]; [|intros E; injection E as <- _; left; reflexivity].
    destruct elems as [|x0 xs]; [intros E; injection E as <- _; left; reflexivity|].
    destruct (batch_insert _ _ _) as [[[t' e'] n']|]; [|intros E; injection E as <- _; left; reflexivity].
    intros E. injection E as <- <-. right. exists (x0 :: xs), news, t', e', n'. split; [discriminate|]. split; [reflexivity|]. split; reflexivity.
  Qed.

  (* one publish: the invariant is kept and the hashes of all earlier epochs, read off the new tree,
     are what they were *)
  Lemma publish_history st upds : Inv st ->
    let st' := fst (publish st upds) in
    Inv st' /\ d_epoch st <= d_epoch st' /\ forall k, k <= d_epoch st -> hash_as_of st' k = hash_as_of st k.
  Proof.
    intros [I L]. cbv zeta. destruct (publish st upds) as [st' res] eqn:E. cbn [fst].
    destruct (publish_cases st upds st' res E) as [->|(elems & news & t' & e' & n' & Hne & Ed & Es & Er)].
    - split; [split; assumption|]. split; [lia|]. reflexivity.
    - rewrite Er in E.
      destruct (publish_step cfg ck vrf_label Ce vrf_good vrf_inj st upds st' _ _ I E) as (I' & _ & _ & [Eq|(elems2 & news2 & Ed2 & Ee & _ & P)]).
      + split; [split; [exact I' | rewrite Eq; exact L]|]. split; [rewrite Eq; lia|]. rewrite Eq. reflexivity.
      + rewrite Ed in Ed2. injection Ed2 as <- <-.
        destruct I as [[Cr Lo] _ _ _ _ _]. destruct I' as [[Cr' Lo'] X1 X2 X3 X4 X5].
        split; [split; [constructor; try assumption; split; assumption|]|].
        * rewrite (canon_root_last _ Cr'). unfold sleaves. rewrite (max_epoch_perm _ _ (Permutation_map sleaf_of P)).
          rewrite map_app, max_epoch_app, (max_epoch_new _ _ Hne). fold (sleaves (d_tree st)). rewrite <- (canon_root_last _ Cr), L. lia.
        * split; [lia|]. intros k Hk. unfold hash_as_of, spec_root_hash. f_equal. apply spec_root_perm.
          unfold as_of, sleaves. eapply Permutation_trans; [apply filter_perm; apply Permutation_map; exact P|].
          rewrite map_app, filter_app.
          rewrite (filter_none _ (map sleaf_of (map (lf_of (d_epoch st + 1)) elems))).
          -- rewrite app_nil_r. apply Permutation_refl.
          -- intros x Hx. apply in_map_iff in Hx. destruct Hx as (y & <- & Hy). apply in_map_iff in Hy. destruct Hy as (z & <- & _).
             cbn [sleaf_of lf_of lf_epoch sl_epoch]. apply N.leb_gt. lia.
  Qed.

  Lemma dir_new_Inv : Inv dir_new.
  Proof. split; [apply dir_new_inv | reflexivity]. Qed.

  Lemma run_Inv : forall reqs st, Inv st -> Inv (run st reqs).
  Proof. induction reqs as [|r rest IH]; intros st I; [exact I|]. cbn [run_publishes]. apply IH. apply (publish_history st r I). Qed.

  (* the hash a publish returned for its epoch is the hash of that epoch read off any later tree *)
  Lemma hash_now st : Inv st -> snd (epoch_hash cfg st) = hash_as_of st (d_epoch st).
  Proof.
    intros [[[Cr Lo] _ _ _ _ _] _]. cbn [epoch_hash snd]. rewrite (canon_root_hash cfg _ Cr). unfold hash_as_of, as_of. f_equal.
    symmetry. apply filter_all. intros x Hx. unfold sleaves in Hx. apply in_map_iff in Hx. destruct Hx as (y & <- & Hy).
    cbn [sleaf_of sl_epoch]. apply N.leb_le. apply Lo. exact Hy.
  Qed.

  Lemma hash_kept : forall rest k st1, Inv st1 -> k <= d_epoch st1 ->
    d_epoch st1 <= d_epoch (run st1 rest) /\ hash_as_of (run st1 rest) k = hash_as_of st1 k.
  Proof.
    induction rest as [|r2 rest IH]; intros k st1 I1 Hk; [split; [cbn [run_publishes]; lia | reflexivity]|].
    cbn [run_publishes]. destruct (publish_history st1 r2 I1) as (I2 & Hle & Hkeep).
    destruct (IH k _ I2 ltac:(lia)) as [Hle2 Eq]. split; [lia|]. rewrite Eq. apply Hkeep. exact Hk.
  Qed.

  Theorem history_of_hashes later st : Inv st ->
    d_epoch st <= d_epoch (run st later) /\
    snd (epoch_hash cfg st) = hash_as_of (run st later) (d_epoch st).
  Proof.
    intros I. destruct (hash_kept later (d_epoch st) st I ltac:(lia)) as [Hle Eq].
    split; [exact Hle|]. rewrite Eq. apply hash_now. exact I.
  Qed.

  (* ------------------------------------------------------------------ audit *)
  Lemma chain_complete T : canon_root T -> forall n s,
    s + N.of_nat n <= t_last_epoch T ->
    verify_chain cfg true (map (fun k => spec_root_hash cfg (as_of k T)) (Nrange' s (S n)))
      (map (fun ep => let '(unch, ins) := ao_walk cfg 300 true T ep (ep + 1) in (ins, unch)) (Nrange' s n)) (Nrange' s n) = true.
  Proof.
    intros HT. induction n as [|n IH]; intros s Hs.
    - reflexivity.
    - rewrite (Nrange'_S s (S n)), (Nrange'_S s n). cbn [map]. rewrite (Nrange'_S (s + 1) n). cbn [map verify_chain].
      apply andb_true_iff. split.
      + pose proof (audit_step_complete cfg Ce T s HT ltac:(lia)) as H. cbv zeta in H.
        destruct (ao_walk cfg 300 true T s (s + 1)) as [unch ins]. exact H.
      + specialize (IH (s + 1) ltac:(lia)). rewrite (Nrange'_S (s + 1) n) in IH. cbn [map] in IH. exact IH.
  Qed.

  Lemma Nrange'_length a n : length (Nrange' a n) = n.
  Proof. unfold Nrange'. rewrite map_length, seq_length. reflexivity. Qed.

  Theorem audit_complete st s e p : Inv st -> audit cfg st s e = DOk p ->
    audit_verify_gen cfg true (map (hash_as_of st) (Nrange' s (S (N.to_nat (e - s))))) p = true.
  Proof.
    intros [[[Cr _] _ _ _ _ _] L] H.
    unfold audit in H. destruct (N.leb_spec e s) as [|Hse]; [discriminate|]. destruct (N.ltb_spec (d_epoch st) e) as [|Hed]; [discriminate|].
    set (n := N.to_nat (e - s)) in *.
    assert (Hp : p = AP (map (fun ep => let '(unch, ins) := ao_walk cfg 300 true (d_tree st) ep (ep + 1) in (ins, unch)) (Nrange' s n)) (Nrange' s n)) by congruence.
    clear H. subst p. unfold audit_verify_gen. cbn [ap_epochs ap_proofs].
    rewrite !map_length, !Nrange'_length.
    assert (E1 : Nat.eqb (n + 1) (S n) = true) by (apply Nat.eqb_eq; lia).
    rewrite E1, Nat.eqb_refl. cbn [andb]. unfold hash_as_of.
    apply (chain_complete (d_tree st) Cr n s). rewrite L. unfold n. lia.
  Qed.

  Lemma run_app : forall a b st, run st (a ++ b) = run (run st a) b.
  Proof. induction a as [|r a IH]; intros b st; [reflexivity|]. cbn [app run_publishes]. apply IH. Qed.

  (* every range of a reachable directory can be audited, against the hashes the publishes returned *)
  Theorem audit_reachable reqs s e p :
    let st := run dir_new reqs in
    audit cfg st s e = DOk p ->
    audit_verify_gen cfg true (map (hash_as_of st) (Nrange' s (S (N.to_nat (e - s))))) p = true.
  Proof. cbv zeta. apply audit_complete. apply run_Inv. apply dir_new_Inv. Qed.

  Theorem published_hashes earlier later :
    let st1 := run dir_new earlier in
    let st := run dir_new (earlier ++ later) in
    d_epoch st1 <= d_epoch st /\ epoch_hash cfg st1 = (d_epoch st1, hash_as_of st (d_epoch st1)).
  Proof.
    cbv zeta. rewrite run_app.
    destruct (history_of_hashes later (run dir_new earlier) (run_Inv earlier dir_new dir_new_Inv)) as [H1 H2].
    split; [exact H1|]. rewrite <- H2. reflexivity.
  Qed.
End AuditDir.

(* for every valid range the server produces a proof *)
Theorem audit_available cfg st s e : s < e -> e <= d_epoch st -> exists p, audit cfg st s e = DOk p.
Proof.
  intros H1 H2. unfold audit. destruct (N.leb_spec e s) as [H|H]; [exfalso; apply (N.lt_irrefl s); eapply N.lt_le_trans; eassumption|].
  destruct (N.ltb_spec (d_epoch st) e) as [H'|H']; [exfalso; apply (N.lt_irrefl e); eapply N.le_lt_trans; eassumption|]. eexists. reflexivity.
Qed.
