(* C17, `AzksElementSet::contains_prefix` (append_only_zks.rs): the unsorted form is exactly the
   bit-string statement "some element's label extends the prefix"; the binary-search form never
   answers "yes" without such an element (or a zero-length prefix over a non-empty set).  The search
   index of the pinned toolchain's loop always lies inside the slice, whatever the comparator. *)
From Coq Require Import List Bool Arith NArith Lia.
From Akd Require Import Bits NodeLabel NodeLabelFacts ElemSet ElemSetFacts.
Import ListNotations.

Section Search.
  Context {A : Type}.
  Variable f : A -> comparison.
  Variable d : A.
  Variable l : list A.

  Lemma div2_bounds n : (2 <= n -> 1 <= Nat.div2 n /\ Nat.div2 n < n)%nat.
  Proof.
    intros Hn. pose proof (Nat.div2_odd n) as Ho.
    destruct (Nat.odd n); cbn [Nat.b2n] in Ho; lia.
  Qed.

  Lemma bs_loop_range : forall fuel base size, (1 <= size)%nat ->
    (base <= bs_loop f d l fuel base size < base + size)%nat.
  Proof.
    induction fuel as [|fu IH]; intros base size Hs; cbn [bs_loop]; [lia|].
    destruct (Nat.leb_spec size 1) as [Hle|Hgt]; [lia|].
    destruct (div2_bounds size ltac:(lia)) as [H1 H2].
    set (half := Nat.div2 size) in *.
    destruct (f (nth (base + half) l d));
      match goal with
      | |- (_ <= bs_loop f d l fu ?b ?s < _)%nat => pose proof (IH b s ltac:(lia)); lia
      end.
  Qed.

  Lemma binary_search_index_inside :
    l <> [] -> (bs_loop f d l (length l) 0 (length l) < length l)%nat.
  Proof.
    intros Hne. destruct l as [|x r] eqn:El; [congruence|].
    rewrite <- El. assert (1 <= length l)%nat by (rewrite El; cbn; lia).
    pose proof (bs_loop_range (length l) 0 (length l) ltac:(lia)). lia.
  Qed.

  (* a hit is an element of the slice on which the comparator answers Equal *)
  Lemma binary_search_found_sound :
    fst (binary_search_by f d l) = true -> exists x, In x l /\ f x = Eq.
  Proof.
    unfold binary_search_by. destruct l as [|x r] eqn:El; [cbn; discriminate|].
    rewrite <- El.
    assert (Hne : l <> []) by (rewrite El; discriminate).
    pose proof (binary_search_index_inside Hne) as Hin.
    set (i := bs_loop f d l (length l) 0 (length l)) in *.
    destruct (f (nth i l d)) eqn:Ef; cbn [fst]; try discriminate.
    intros _. exists (nth i l d). split; [apply nth_In; exact Hin | exact Ef].
  Qed.

  (* the reported index is inside the slice on a hit, and at most its length otherwise *)
  Lemma binary_search_index_le : (snd (binary_search_by f d l) <= length l)%nat.
  Proof.
    unfold binary_search_by. destruct l as [|x r] eqn:El; [cbn; lia|].
    rewrite <- El.
    assert (Hne : l <> []) by (rewrite El; discriminate).
    pose proof (binary_search_index_inside Hne) as Hin.
    destruct (f (nth _ l d)); cbn [snd]; lia.
  Qed.
End Search.

Definition extends (p : nlabel) (x : elem) : bool := prefixb (bits_of p) (bits_of (e_label x)).

Lemma existsb_ext_in {A} (g h : A -> bool) l :
  (forall x, In x l -> g x = h x) -> existsb g l = existsb h l.
Proof.
  induction l as [|a r IH]; intros H; cbn [existsb]; [reflexivity|].
  rewrite (H a (or_introl eq_refl)), IH; [reflexivity|].
  intros x Hx. apply H. right. exact Hx.
Qed.

Theorem contains_prefix_unsorted p l :
  WF p -> (forall x, In x l -> WF (e_label x)) ->
  eset_contains_prefix (Unsorted l) p = existsb (extends p) l.
Proof.
  intros Hp Hl. cbn [eset_contains_prefix]. apply existsb_ext_in.
  intros x Hx. unfold extends. apply is_prefix_of_spec; [exact Hp | apply Hl; exact Hx].
Qed.

Lemma bytes_cmp_eq : forall a b, bytes_cmp a b = Eq -> a = b.
Proof.
  induction a as [|x a IH]; intros [|y b] H; cbn [bytes_cmp] in H; try discriminate; [reflexivity|].
  destruct (N.compare_spec x y) as [E|E|E]; try discriminate.
  subst y. f_equal. apply IH. exact H.
Qed.

Lemma same_bytes_extends p x :
  lval (e_label x) = lval p -> (llen p <= llen (e_label x))%N -> extends p x = true.
Proof.
  intros Hv Hl. unfold extends, bits_of. rewrite Hv.
  apply prefixb_total with (c := val_bits (lval p)); try apply prefixb_firstn.
  rewrite !firstn_length. lia.
Qed.

(* every way in which the search form can answer "yes" *)
Theorem contains_prefix_sorted_sound p l :
  WF p -> (forall x, In x l -> WF (e_label x)) ->
  eset_contains_prefix (BinarySearchable l) p = true ->
  (llen p = 0%N /\ l <> []) \/ existsb (extends p) l = true \/
  (exists x, In x l /\ lval (e_label x) = lval p /\ (llen (e_label x) < llen p)%N).
Proof.
  intros Hp Hl. cbn [eset_contains_prefix]. intros Hf.
  apply binary_search_found_sound in Hf. destruct Hf as [x [Hx Hc]].
  destruct (N.eqb_spec (llen p) 0) as [Hz|Hz]; cbn [orb] in Hc.
  - left. split; [exact Hz | intros E; rewrite E in Hx; exact Hx].
  - right. destruct (is_prefix_of p (e_label x)) eqn:Ep.
    + left. apply existsb_exists. exists x. split; [exact Hx|].
      unfold extends. rewrite <- is_prefix_of_spec; [exact Ep | exact Hp | apply Hl; exact Hx].
    + apply bytes_cmp_eq in Hc.
      destruct (N.ltb_spec (llen (e_label x)) (llen p)) as [Hlt|Hge].
      * right. exists x. split; [exact Hx | split; [exact Hc | exact Hlt]].
      * exfalso. pose proof (same_bytes_extends p x Hc Hge) as He. unfold extends in He.
        rewrite <- is_prefix_of_spec in He; [congruence | exact Hp | apply Hl; exact Hx].
Qed.

(* where the code calls it (preloading: the elements are leaves, at least as long as any node
   label asked about) a "yes" means what the unsorted form means *)
Corollary contains_prefix_sorted_sound_leaves p l :
  WF p -> (forall x, In x l -> WF (e_label x)) ->
  (forall x, In x l -> (llen p <= llen (e_label x))%N) -> llen p <> 0%N ->
  eset_contains_prefix (BinarySearchable l) p = true ->
  eset_contains_prefix (Unsorted l) p = true.
Proof.
  intros Hp Hl Hlen Hnz Hs. rewrite contains_prefix_unsorted by assumption.
  destruct (contains_prefix_sorted_sound p l Hp Hl Hs) as [[Hz _]|[He|[x [Hx [_ Hlt]]]]].
  - contradiction.
  - exact He.
  - specialize (Hlen x Hx). lia.
Qed.

(* the third case is real: a prefix LONGER than an element with the same value bytes is reported
   as contained by the search form and not by the unsorted form (never asked by the code) *)
Example contains_prefix_forms_differ_on_longer_prefix :
  let x := El (NL (zeros 32) 8) [] in let p := NL (zeros 32) 9 in
  eset_contains_prefix (BinarySearchable [x]) p = true /\
  eset_contains_prefix (Unsorted [x]) p = false.
Proof. vm_compute. split; reflexivity. Qed.

(* ------------------------------------------------------------------ completeness of a search
   The toolchain's loop only asks whether the comparator answers Greater, so it behaves as the
   partition-point search for "not Greater"; on a slice that the comparator splits into
   (not Greater)* Greater* with at least one Equal at the end of the first part, the search hits. *)
Section SearchComplete.
  Context {A : Type}.
  Variable f : A -> comparison.
  Variable d : A.
  Variable l : list A.
  Let p := fun x => match f x with Gt => false | _ => true end.
  Let g := fun x => if p x then Lt else Gt.

  Lemma bs_loop_only_asks_greater : forall fuel base size,
    bs_loop f d l fuel base size = bs_loop g d l fuel base size.
  Proof.
    induction fuel as [|fu IH]; intros base size; cbn [bs_loop]; [reflexivity|].
    destruct (size <=? 1)%nat; [reflexivity|].
    rewrite IH. unfold g, p. destruct (f (nth (base + Nat.div2 size) l d)); reflexivity.
  Qed.

  Lemma bs_loop_start_or_not_greater : forall fuel base size,
    bs_loop f d l fuel base size = base \/ f (nth (bs_loop f d l fuel base size) l d) <> Gt.
  Proof.
    induction fuel as [|fu IH]; intros base size; cbn [bs_loop]; [left; reflexivity|].
    destruct (size <=? 1)%nat; [left; reflexivity|].
    destruct (f (nth (base + Nat.div2 size) l d)) eqn:Ef;
      match goal with
      | |- bs_loop f d l fu ?b ?s = _ \/ _ => destruct (IH b s) as [E|E]
      end;
      try (right; exact E); try (left; exact E);
      right; rewrite E, Ef; discriminate.
  Qed.

  Theorem binary_search_complete j :
    (1 <= j <= length l)%nat ->
    (forall n, (n < j)%nat -> f (nth n l d) <> Gt) ->
    (forall n, (j <= n)%nat -> (n < length l)%nat -> f (nth n l d) = Gt) ->
    f (nth (j - 1) l d) = Eq ->
    binary_search_by f d l = (true, (j - 1)%nat).
  Proof.
    intros [Hj1 Hj2] Hlo Hhi Heq.
    assert (HB : boundary p d l j).
    { split; [exact Hj2|]. split.
      - intros n Hn. unfold p. specialize (Hlo n Hn). destruct (f (nth n l d)); congruence.
      - intros n Hn1 Hn2. unfold p. rewrite (Hhi n Hn1 Hn2). reflexivity. }
    unfold binary_search_by. destruct l as [|x r] eqn:El; [cbn in Hj2; lia|].
    rewrite <- El in *.
    assert (Hlen : (1 <= length l)%nat) by (rewrite El; cbn; lia).
    pose proof (bs_loop_spec p d l j HB (length l) 0 (length l)
                  ltac:(lia) Hlen ltac:(lia) ltac:(lia) ltac:(lia)) as (B1 & B2 & B3).
    fold g in B1, B2, B3. rewrite <- bs_loop_only_asks_greater in B1, B2, B3.
    destruct (bs_loop_start_or_not_greater (length l) 0 (length l)) as [E0|Eng].
    - (* the loop never moved: base 0 *)
      rewrite E0 in *. assert (j = 1)%nat by lia. subst j. cbn [Nat.sub] in Heq.
      rewrite Heq. reflexivity.
    - set (b := bs_loop f d l (length l) 0 (length l)) in *.
      assert (Hb : b = (j - 1)%nat).
      { destruct (Nat.eq_dec b j) as [Ej|Nj]; [|lia].
        exfalso. apply Eng. apply Hhi; lia. }
      rewrite Hb, Heq. reflexivity.
  Qed.
End SearchComplete.

(* contains_prefix: whenever the slice is split by the comparator of the code as above - the
   elements whose value bytes are greater than the prefix's and which do not extend it all come
   last, and the element just before them extends the prefix - the search form answers yes *)
Theorem contains_prefix_sorted_complete p l j :
  let f := fun c => if (llen p =? 0)%N || is_prefix_of p (e_label c) then Eq
                    else bytes_cmp (lval (e_label c)) (lval p) in
  (1 <= j <= length l)%nat ->
  (forall n, (n < j)%nat -> f (nth n l dummy_elem) <> Gt) ->
  (forall n, (j <= n)%nat -> (n < length l)%nat -> f (nth n l dummy_elem) = Gt) ->
  f (nth (j - 1) l dummy_elem) = Eq ->
  eset_contains_prefix (BinarySearchable l) p = true.
Proof.
  intros f Hj Hlo Hhi Heq. cbn [eset_contains_prefix]. fold f.
  rewrite (binary_search_complete f dummy_elem l j Hj Hlo Hhi Heq). reflexivity.
Qed.
