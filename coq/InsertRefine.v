(* Refinement: the insertion algorithm (Insert.v, the model of batch_insert_nodes tied to the code by
   the X-tree correspondence) keeps the tree canonical and adds exactly the batch; with
   SpecFacts.canon_root_spec the tree after any publish history is the specification trie over the
   prescribed leaves. *)
From Coq Require Import List Bool Arith NArith Lia Permutation.
From Akd Require Import Bits NodeLabel NodeLabelFacts BitsLabel ElemSet ElemSetFacts Hashing Tree TreeFacts Insert Spec SpecFacts.
Import ListNotations.
Open Scope N_scope.

(* ------------------------------------------------------------------ element sets *)

Definition sleaf_of_elem (e : N) (x : elem) : sleaf := SL (bits_of (e_label x)) (e_value x) e.
Definition ebits (l : list elem) : list sleaf := map (sleaf_of_elem 0) l.

Definition elabs_ok (l : list elem) : Prop := forall x, In x l -> WF (e_label x) /\ canonical (e_label x) = true.
Definition same_len (l : list elem) : Prop := exists len, forall x, In x l -> llen (e_label x) = len.
Definition good_set (s : eset) : Prop :=
  match s with Unsorted _ => True | BinarySearchable l => sorted_bits l /\ same_len l end.

Definition side (p : bits) (d : bool) (x : elem) : bool :=
  match pord p (bits_of (e_label x)) with Some d' => Bool.eqb d' d | None => false end.

Lemma in_ebits l x : In x l -> In (sleaf_of_elem 0 x) (ebits l).
Proof. intros H. unfold ebits. apply in_map. exact H. Qed.

(* ---- longest common prefix of a set *)
Lemma unsorted_lcp_fold empty : forall rest acc,
  canonical empty = false -> elabs_ok rest -> WF acc -> canonical acc = true ->
  let r := fold_left (fun acc n => get_longest_common_prefix empty (e_label n) acc) rest acc in
  bits_of r = fold_left (fun a y => lcp a (sl_bits y)) (ebits rest) (bits_of acc) /\ WF r /\ canonical r = true.
Proof.
  induction rest as [|n rest IH]; intros acc Ce Hok Wa Ca; cbn [fold_left ebits map]; [auto|].
  destruct (Hok n (or_introl eq_refl)) as [Wn Cn].
  destruct (glcp_good empty (e_label n) acc Wn Wa Cn Ca Ce) as (B & W & C).
  specialize (IH (get_longest_common_prefix empty (e_label n) acc) Ce (fun x Hx => Hok x (or_intror Hx)) W C).
  cbv zeta in IH. destruct IH as (IB & IW & IC). split; [|split; assumption].
  rewrite IB, B. cbn [sleaf_of_elem sl_bits]. rewrite lcp_comm. reflexivity.
Qed.

Lemma last_in {A} (l : list A) d : l <> [] -> In (last l d) l.
Proof.
  intros H. rewrite (app_removelast_last d H) at 2. apply in_or_app. right. left. reflexivity.
Qed.

Lemma sorted_head_le x l y : sorted_bits (x :: l) -> In y (x :: l) -> lex_cmp (bits_of (e_label x)) (bits_of (e_label y)) <> Gt.
Proof.
  intros H [<-|Hy]; [rewrite lex_cmp_refl; discriminate|]. inversion H as [|? ? Hx _]; subst. rewrite (Hx y Hy). discriminate.
Qed.
Lemma sorted_last_ge : forall l d y, sorted_bits l -> In y l -> lex_cmp (bits_of (e_label y)) (bits_of (e_label (last l d))) <> Gt.
Proof.
  induction l as [|x l IH]; intros d y Hs Hy; [destruct Hy|].
  destruct l as [|z l'].
  - destruct Hy as [<-|[]]. cbn [last]. rewrite lex_cmp_refl. discriminate.
  - change (last (x :: z :: l') d) with (last (z :: l') d). destruct Hy as [<-|Hy].
    + inversion Hs as [|? ? Hx _]; subst. rewrite (Hx (last (z :: l') d)); [discriminate|].
      apply last_in. discriminate.
    + apply IH; [eapply sorted_bits_tail; exact Hs | exact Hy].
Qed.

Lemma eset_lcp_spec empty s :
  good_set s -> elabs_ok (eset_list s) -> eset_list s <> [] -> canonical empty = false ->
  let r := eset_lcp empty s in
  bits_of r = lcp_all (ebits (eset_list s)) /\ WF r /\ canonical r = true.
Proof.
  intros Hg Hok Hne Ce. destruct s as [nodes|nodes]; cbn [eset_list eset_lcp] in *.
  - destruct nodes as [|first rest]; [congruence|]. destruct Hg as [Hs [len Hlen]].
    set (lst := last (first :: rest) first).
    assert (Hlast : In lst (first :: rest)) by (subst lst; apply last_in; discriminate).
    destruct (Hok first (or_introl eq_refl)) as [Wf Cf]. destruct (Hok lst Hlast) as [Wl Cl].
    destruct (glcp_good empty (e_label first) (e_label lst) Wf Wl Cf Cl Ce) as (B & W & C).
    fold lst. split; [|split; assumption]. rewrite B.
    apply prefixb_antisym.
    + apply lcp_all_greatest; [discriminate|]. intros z Hz. unfold ebits in Hz. apply in_map_iff in Hz.
      destruct Hz as (y & <- & Hy). cbn [sleaf_of_elem sl_bits].
      destruct (Hok y Hy) as [Wy _].
      apply lex_between.
      * rewrite !length_bits_of by assumption. rewrite (Hlen first (or_introl eq_refl)), (Hlen y Hy). reflexivity.
      * rewrite !length_bits_of by assumption. rewrite (Hlen lst Hlast), (Hlen y Hy). reflexivity.
      * apply (sorted_head_le first rest y Hs Hy).
      * apply (sorted_last_ge (first :: rest) first y Hs Hy).
    + apply lcp_greatest.
      * apply (lcp_all_prefix (ebits (first :: rest)) (sleaf_of_elem 0 first)). apply in_ebits. left. reflexivity.
      * apply (lcp_all_prefix (ebits (first :: rest)) (sleaf_of_elem 0 lst)). apply in_ebits. exact Hlast.
  - destruct nodes as [|n0 rest]; [congruence|].
    destruct (Hok n0 (or_introl eq_refl)) as [W0 C0].
    exact (unsorted_lcp_fold empty rest (e_label n0) Ce (fun x Hx => Hok x (or_intror Hx)) W0 C0).
Qed.

(* ---- partition of a set around a node label *)
Lemma sorted_filter (p : elem -> bool) l : sorted_bits l -> sorted_bits (filter p l).
Proof.
  induction 1 as [|x l Hx Hs IH]; cbn [filter]; [constructor|]. destruct (p x); [|exact IH].
  constructor; [|exact IH]. intros y Hy. apply filter_In in Hy. apply Hx. apply Hy.
Qed.
Lemma same_len_filter (p : elem -> bool) l : same_len l -> same_len (filter p l).
Proof. intros [len H]. exists len. intros x Hx. apply filter_In in Hx. apply H. apply Hx. Qed.

Lemma drop_invalid_none pl rl : (forall x, In x rl -> get_prefix_ordering pl (e_label x) <> None) -> drop_invalid_tail pl rl = rl.
Proof.
  destruct rl as [|x r]; [reflexivity|]. intros H. cbn [drop_invalid_tail].
  destruct (get_prefix_ordering pl (e_label x)) eqn:E; [reflexivity|]. exfalso. apply (H x (or_introl eq_refl)). exact E.
Qed.

Lemma eset_partition_spec s pl :
  good_set s -> elabs_ok (eset_list s) -> WF pl ->
  (forall x, In x (eset_list s) -> pord (bits_of pl) (bits_of (e_label x)) <> None) ->
  eset_list (fst (eset_partition s pl)) = filter (side (bits_of pl) false) (eset_list s) /\
  eset_list (snd (eset_partition s pl)) = filter (side (bits_of pl) true) (eset_list s) /\
  good_set (fst (eset_partition s pl)) /\ good_set (snd (eset_partition s pl)).
Proof.
  intros Hg Hok Wp Hnn.
  assert (Hgpo : forall x, In x (eset_list s) -> get_prefix_ordering pl (e_label x) = pord (bits_of pl) (bits_of (e_label x))).
  { intros x Hx. apply get_prefix_ordering_spec; [exact Wp | apply Hok; exact Hx]. }
  destruct s as [nodes|nodes]; cbn [eset_list eset_partition fst snd] in *.
  - destruct Hg as [Hs Hl].
    set (P := fun c => match get_prefix_ordering pl (e_label c) with Some true => false | _ => true end).
    assert (HPg : forall x, In x nodes -> P x = goes_left (bits_of pl) x).
    { intros x Hx. unfold P, goes_left. rewrite (Hgpo x Hx). reflexivity. }
    assert (Hpc : prefix_closed (goes_left (bits_of pl)) nodes).
    { apply sorted_prefix_closed; [exact Hs|]. intros x Hx. specialize (Hnn x Hx).
      unfold pord in Hnn. destruct (_ <=? _)%nat; [congruence|]. destruct (prefixb _ _); [reflexivity | congruence]. }
    destruct (prefix_closed_boundary (goes_left (bits_of pl)) dummy_elem nodes Hpc) as ((Bk & Bt & Bf) & E1 & E2).
    set (k := length (filter (goes_left (bits_of pl)) nodes)) in *.
    assert (Hpp : partition_point P dummy_elem nodes = k).
    { apply partition_point_spec. split; [exact Bk|]. split.
      - intros i Hi. rewrite HPg by (apply nth_In; lia). apply Bt. exact Hi.
      - intros i Hi1 Hi2. rewrite HPg by (apply nth_In; exact Hi2). apply Bf; assumption. }
    fold P. rewrite Hpp.
    assert (EL : filter (goes_left (bits_of pl)) nodes = filter (side (bits_of pl) false) nodes).
    { apply filter_ext_in. intros x Hx. unfold goes_left, side. specialize (Hnn x Hx).
      destruct (pord (bits_of pl) (bits_of (e_label x))) as [[|]|]; try reflexivity; try congruence. }
    assert (ER : filter (fun x => negb (goes_left (bits_of pl) x)) nodes = filter (side (bits_of pl) true) nodes).
    { apply filter_ext_in. intros x Hx. unfold goes_left, side. specialize (Hnn x Hx).
      destruct (pord (bits_of pl) (bits_of (e_label x))) as [[|]|]; try reflexivity; try congruence. }
    rewrite <- E1, <- E2, EL, ER.
    rewrite drop_invalid_none.
    2:{ intros x Hx. apply in_rev in Hx. apply filter_In in Hx. destruct Hx as [Hx _]. rewrite (Hgpo x Hx). apply Hnn. exact Hx. }
    rewrite rev_involutive.
    repeat split; try reflexivity; try (apply sorted_filter; exact Hs); apply same_len_filter; exact Hl.
  - repeat split; try exact I; apply filter_ext_in; intros x Hx; unfold side; rewrite (Hgpo x Hx);
      destruct (pord (bits_of pl) (bits_of (e_label x))) as [[|]|]; reflexivity.
Qed.

(* the set holding only the leaf's own element: nothing goes below a leaf *)
Lemma eset_partition_self s x :
  eset_list s = [x] -> WF (e_label x) ->
  eset_list (fst (eset_partition s (e_label x))) = [] /\ eset_list (snd (eset_partition s (e_label x))) = [].
Proof.
  intros El Wx.
  assert (Hn : get_prefix_ordering (e_label x) (e_label x) = None).
  { rewrite get_prefix_ordering_spec by assumption. unfold pord. rewrite Nat.leb_refl. reflexivity. }
  destruct s as [nodes|nodes]; cbn [eset_list] in El; subst nodes; cbn [eset_partition fst snd eset_list].
  - unfold partition_point, binary_search_by. cbn [length bs_loop Nat.leb nth]. rewrite Hn. cbn [snd skipn firstn rev app drop_invalid_tail].
    rewrite Hn. split; reflexivity.
  - cbn [filter]. rewrite Hn. split; reflexivity.
Qed.

(* ------------------------------------------------------------------ the body of [ins], named *)
Section Body.
  Variable empty : nlabel.

  Definition cur_node (t : option tree) (s : eset) (epoch : N) : option (tree * bool * N) :=
    match t with
    | Some ex =>
      let set_lcp := eset_lcp empty s in
      let l := get_longest_common_prefix empty (tlabel ex) set_lcp in
      if llen l <? llen (tlabel ex) then
        match set_child (Node l epoch epoch None None) ex with
        | Some n => Some (n, true, 1)
        | None => None
        end
      else Some (ex, false, 0)
    | None =>
      match eset_list s with
      | [x] => Some (Leaf (e_label x) (e_value x) epoch, true, 1)
      | _ => Some (Node (eset_lcp empty s) epoch epoch None None, true, 1)
      end
    end.

  Definition finish (rec : option tree -> eset -> N -> option (tree * bool * N))
             (cn : tree) (is_new : bool) (k : N) (s : eset) (epoch : N) : option (tree * bool * N) :=
    let '(L, R) := eset_partition s (tlabel cn) in
    let after_left : option (tree * N) :=
      if eset_is_empty L then Some (cn, k)
      else match rec (child cn false) L epoch with
           | None => None
           | Some (c, _, k') =>
             match set_child cn c with Some cn' => Some (cn', k + k') | None => None end
           end in
    match after_left with
    | None => None
    | Some (cn1, k1) =>
      if eset_is_empty R then Some (cn1, is_new, k1)
      else match rec (child cn1 true) R epoch with
           | None => None
           | Some (c, _, k') =>
             match set_child cn1 c with Some cn2 => Some (cn2, is_new, k1 + k') | None => None end
           end
    end.

  Lemma ins_unfold f t s epoch :
    ins empty (S f) t s epoch =
    match cur_node t s epoch with
    | None => None
    | Some (cn, is_new, k) => finish (ins empty f) cn is_new k s epoch
    end.
  Proof. reflexivity. Qed.
End Body.

(* ------------------------------------------------------------------ pre / post conditions *)

Definition lf_of (e : N) (x : elem) : leaf := LF (e_label x) (e_value x) e.
Definition oleaves (t : option tree) : list leaf := match t with Some c => leaves c | None => [] end.

Definition set_ok (q : bits) (S : list elem) : Prop :=
  elabs_ok S /\ (forall x, In x S -> llen (e_label x) = 256) /\ NoDup (map e_label S) /\
  (forall x, In x S -> prefixb q (bits_of (e_label x)) = true).

Definition leaves_ok (e : N) (ls : list leaf) : Prop :=
  forall y, In y ls -> llen (lf_label y) = 256 /\ 1 <= lf_epoch y /\ lf_epoch y <= e.

Definition tree_pre (q : bits) (e : N) (t : option tree) (S : list elem) : Prop :=
  match t with
  | None => True
  | Some ex =>
    canon ex /\ prefixb q (bits_of (tlabel ex)) = true /\ leaves_ok e (leaves ex) /\
    (forall x y, In x S -> In y (leaves ex) -> e_label x <> lf_label y)
  end.

Definition post (q : bits) (t : option tree) (S : list elem) (e : N) (r : tree) : Prop :=
  canon r /\ prefixb q (bits_of (tlabel r)) = true /\
  Permutation (leaves r) (oleaves t ++ map (lf_of e) S) /\
  t_last_epoch r = e /\ t_min_desc r = match t with Some ex => t_min_desc ex | None => e end.

Definition rec_ok (rec : option tree -> eset -> N -> option (tree * bool * N)) (e : N) (B : bits) : Prop :=
  forall dir t' s', good_set s' -> eset_list s' <> [] -> set_ok (B ++ [dir]) (eset_list s') ->
    tree_pre (B ++ [dir]) e t' (eset_list s') ->
    exists r isn k, rec t' s' e = Some (r, isn, k) /\ post (B ++ [dir]) t' (eset_list s') e r.

Definition child_pre (B : bits) (e : N) (S : list elem) (dir : bool) (c : option tree) : Prop :=
  match c with
  | None => True
  | Some c' => tree_pre (B ++ [dir]) e (Some c') (filter (side B dir) S)
  end.

Definition slot (B : bits) (e : N) (S : list elem) (dir : bool) (c c' : option tree) : Prop :=
  let Sd := filter (side B dir) S in
  (Sd = [] /\ c' = c) \/ (Sd <> [] /\ exists r, c' = Some r /\ post (B ++ [dir]) c Sd e r).

Definition omde (e : N) (c : option tree) : N := match c with Some c' => t_min_desc c' | None => e end.
Definition le_upd (x e : N) (Sd : list elem) : N := match Sd with [] => x | _ => N.max x e end.
Definition mde_upd (m : N) (Sd : list elem) (mc : N) : N :=
  match Sd with [] => m | _ => if m =? 0 then mc else N.min m mc end.

Lemma eset_is_empty_iff s : eset_is_empty s = true <-> eset_list s = [].
Proof. unfold eset_is_empty. destruct (eset_list s); split; congruence. Qed.

Lemma prefix_pord B d y : prefixb (B ++ [d]) y = true -> pord B y = Some d.
Proof.
  intros H. unfold pord. pose proof (prefixb_length _ _ H) as Hl. rewrite app_length in Hl. cbn [length] in Hl.
  assert (E : (length y <=? length B)%nat = false) by (apply Nat.leb_gt; lia). rewrite E.
  rewrite (prefixb_trans _ _ _ (prefixb_app B [d]) H).
  apply prefixb_nth in H. destruct H as [_ H]. specialize (H (length B)). rewrite app_length in H. cbn [length] in H.
  specialize (H ltac:(lia)). rewrite app_nth2, Nat.sub_diag in H by lia. cbn [nth] in H. rewrite <- H. reflexivity.
Qed.

Lemma side_prefix B d x : side B d x = true -> prefixb (B ++ [d]) (bits_of (e_label x)) = true.
Proof.
  unfold side. destruct (pord B (bits_of (e_label x))) as [d'|] eqn:E; [|discriminate]. intros H. apply eqb_prop in H. subst d'.
  apply pord_prefix. exact E.
Qed.

Lemma NoDup_map_filter {A B} (f : A -> B) (p : A -> bool) l : NoDup (map f l) -> NoDup (map f (filter p l)).
Proof.
  induction l as [|x l IH]; cbn [map filter]; intros H; [constructor|]. inversion H as [|? ? Hn Hd]; subst.
  destruct (p x); [|apply IH; exact Hd]. cbn [map]. constructor; [|apply IH; exact Hd].
  intros Hin. apply Hn. apply in_map_iff in Hin. destruct Hin as (y & Ey & Hy). apply filter_In in Hy.
  apply in_map_iff. exists y. split; [exact Ey | apply Hy].
Qed.

Lemma set_ok_side B S d : set_ok B S -> set_ok (B ++ [d]) (filter (side B d) S).
Proof.
  intros (Hok & Hlen & Hnd & Hp). repeat split.
  - apply Hok. apply filter_In in H. apply H.
  - apply Hok. apply filter_In in H. apply H.
  - intros x Hx. apply Hlen. apply filter_In in Hx. apply Hx.
  - apply NoDup_map_filter. exact Hnd.
  - intros x Hx. apply filter_In in Hx. apply side_prefix. apply Hx.
Qed.

Lemma canon_label r : canon r -> WF (tlabel r) /\ canonical (tlabel r) = true.
Proof. intros [Hw _]. apply wfg_label. apply wf_sub_wfg. exact Hw. Qed.

Lemma set_child_node l le mde a b c d :
  WF l -> WF (tlabel c) -> pord (bits_of l) (bits_of (tlabel c)) = Some d ->
  set_child (Node l le mde a b) c =
  Some (Node l (N.max le (t_last_epoch c)) (if mde =? 0 then t_min_desc c else N.min mde (t_min_desc c))
             (if d then a else Some c) (if d then Some c else b)).
Proof.
  intros Wl Wc P. unfold set_child. rewrite get_prefix_ordering_spec by assumption. rewrite P. destruct d; reflexivity.
Qed.

(* ------------------------------------------------------------------ the second half of [ins] *)

Lemma tree_pre_sub B e S d c :
  child_pre B e S d (Some c) -> tree_pre (B ++ [d]) e (Some c) (filter (side B d) S).
Proof. intros H. exact H. Qed.

Section Finish.
  Variable empty : nlabel.
  Variable rec : option tree -> eset -> N -> option (tree * bool * N).

  Lemma finish_spec l le mde a b isn k s e :
    let B := bits_of l in let S := eset_list s in
    WF l -> canonical l = true -> good_set s -> set_ok B S ->
    (forall x, In x S -> pord B (bits_of (e_label x)) <> None) ->
    child_pre B e S false a -> child_pre B e S true b -> rec_ok rec e B ->
    exists a' b' k',
      finish rec (Node l le mde a b) isn k s e =
      Some (Node l (le_upd (le_upd le e (filter (side B false) S)) e (filter (side B true) S))
                   (mde_upd (mde_upd mde (filter (side B false) S) (omde e a)) (filter (side B true) S) (omde e b))
                   a' b', isn, k') /\
      slot B e S false a a' /\ slot B e S true b b'.
  Proof.
    intros B S Wl Cl Hg Hso Hnn Ha Hb Hrec.
    destruct (eset_partition_spec s l Hg (proj1 Hso) Wl Hnn) as (EL & ER & GL & GR).
    unfold finish. cbn [tlabel]. destruct (eset_partition s l) as [L R] eqn:EP. cbn [fst snd] in EL, ER, GL, GR.
    fold S in EL, ER. fold B in EL, ER.
    set (SL := filter (side B false) S) in *. set (SR := filter (side B true) S) in *.
    (* left *)
    assert (Hleft : exists a' k1,
      (if eset_is_empty L then Some (Node l le mde a b, k)
       else match rec (child (Node l le mde a b) false) L e with
            | None => None
            | Some (c, _, k') => match set_child (Node l le mde a b) c with Some cn' => Some (cn', k + k') | None => None end
            end) = Some (Node l (le_upd le e SL) (mde_upd mde SL (omde e a)) a' b, k1) /\ slot B e S false a a').
    { destruct (eset_is_empty L) eqn:EE.
      - apply eset_is_empty_iff in EE. rewrite EL in EE. exists a, k. split; [|left; split; [exact EE | reflexivity]].
        fold SL in EE. rewrite EE. reflexivity.
      - assert (Hne : SL <> []).
        { intros E0. rewrite <- EL in E0. apply eset_is_empty_iff in E0. congruence. }
        cbn [child].
        destruct (Hrec false a L GL ltac:(rewrite EL; exact Hne) ltac:(rewrite EL; apply set_ok_side; exact Hso)
                       ltac:(rewrite EL; destruct a; [exact Ha | exact I])) as (r & isn' & k' & Er & Hp).
        rewrite Er. rewrite EL in Hp. fold SL in Hp. destruct Hp as (Cr & Pr & Perm & Ler & Mr).
        destruct (canon_label r Cr) as [Wr _].
        rewrite (set_child_node l le mde a b r false Wl Wr (prefix_pord B false _ Pr)).
        exists (Some r), (k + k'). split.
        + rewrite Ler. destruct SL as [|x0 SL'] eqn:ESL; [congruence|]. cbn [le_upd mde_upd].
          rewrite Mr. destruct a; reflexivity.
        + right. split; [exact Hne|]. exists r. split; [reflexivity|]. exact (conj Cr (conj Pr (conj Perm (conj Ler Mr)))). }
    destruct Hleft as (a' & k1 & Eleft & Sa). rewrite Eleft.
    (* right *)
    destruct (eset_is_empty R) eqn:EE.
    - apply eset_is_empty_iff in EE. rewrite ER in EE. fold SR in EE. exists a', b, k1. split; [|split; [exact Sa | left; split; [exact EE | reflexivity]]].
      rewrite EE. reflexivity.
    - assert (Hne : SR <> []).
      { intros E0. rewrite <- ER in E0. apply eset_is_empty_iff in E0. congruence. }
      cbn [child].
      destruct (Hrec true b R GR ltac:(rewrite ER; exact Hne) ltac:(rewrite ER; apply set_ok_side; exact Hso)
                     ltac:(rewrite ER; destruct b; [exact Hb | exact I])) as (r & isn' & k' & Er & Hp).
      rewrite Er. rewrite ER in Hp. fold SR in Hp. destruct Hp as (Cr & Pr & Perm & Ler & Mr).
      destruct (canon_label r Cr) as [Wr _].
      rewrite (set_child_node l _ _ a' b r true Wl Wr (prefix_pord B true _ Pr)).
      exists a', (Some r), (k1 + k'). split; [|split; [exact Sa|]].
      + rewrite Ler. destruct SR as [|x0 SR'] eqn:ESR; [congruence|]. cbn [le_upd mde_upd].
        rewrite Mr. destruct b; reflexivity.
      + right. split; [exact Hne|]. exists r. split; [reflexivity|]. exact (conj Cr (conj Pr (conj Perm (conj Ler Mr)))).
  Qed.
End Finish.

(* ------------------------------------------------------------------ facts used to assemble the result *)

Lemma sides_perm {A} (f : elem -> A) B S :
  (forall x, In x S -> pord B (bits_of (e_label x)) <> None) ->
  Permutation (map f (filter (side B false) S) ++ map f (filter (side B true) S)) (map f S).
Proof.
  induction S as [|x S IH]; intros H; [constructor|].
  specialize (IH (fun y Hy => H y (or_intror Hy))). pose proof (H x (or_introl eq_refl)) as Hx.
  assert (E : (side B false x = true /\ side B true x = false) \/ (side B false x = false /\ side B true x = true)).
  { unfold side. destruct (pord B (bits_of (e_label x))) as [[|]|]; try congruence; cbn [Bool.eqb]; auto. }
  cbn [filter]. destruct E as [[E1 E2]|[E1 E2]]; rewrite E1, E2; cbn [map app].
  - constructor. exact IH.
  - eapply Permutation_trans; [apply Permutation_sym; apply Permutation_middle|]. constructor. exact IH.
Qed.

Lemma side_cover B S : S <> [] -> (forall x, In x S -> pord B (bits_of (e_label x)) <> None) ->
  filter (side B false) S <> [] \/ filter (side B true) S <> [].
Proof.
  destruct S as [|x S]; [congruence|]. intros _ H. pose proof (H x (or_introl eq_refl)) as Hx.
  cbn [filter]. unfold side. destruct (pord B (bits_of (e_label x))) as [[|]|]; try congruence; cbn [Bool.eqb]; [right | left]; discriminate.
Qed.

(* if no element continues with [negb d] after B, every element continues with d *)
Lemma side_all B S d : (forall x, In x S -> pord B (bits_of (e_label x)) <> None) -> filter (side B (negb d)) S = [] ->
  forall x, In x S -> prefixb (B ++ [d]) (bits_of (e_label x)) = true.
Proof.
  intros Hnn He x Hx. pose proof (Hnn x Hx) as Hp.
  destruct (pord B (bits_of (e_label x))) as [d'|] eqn:E; [|congruence].
  destruct (Bool.eqb d' d) eqn:Ed.
  - apply eqb_prop in Ed. subst d'. apply pord_prefix. exact E.
  - exfalso. assert (Hin : In x (filter (side B (negb d)) S)).
    { apply filter_In. split; [exact Hx|]. unfold side. rewrite E. destruct d', d; try discriminate; reflexivity. }
    rewrite He in Hin. destruct Hin.
Qed.

Lemma max_epoch_le S hi : (forall x, In x S -> sl_epoch x <= hi) -> max_epoch S <= hi.
Proof.
  unfold max_epoch. assert (G : forall S a, a <= hi -> (forall x, In x S -> sl_epoch x <= hi) -> fold_left (fun a x => N.max a (sl_epoch x)) S a <= hi).
  { induction S0 as [|x S0 IH]; intros a Ha H; cbn [fold_left]; [exact Ha|]. apply IH; [|intros y Hy; apply H; right; exact Hy].
    pose proof (H x (or_introl eq_refl)). lia. }
  intros H. apply G; [lia | exact H].
Qed.
Lemma min_epoch_bounds S lo hi : S <> [] -> (forall x, In x S -> lo <= sl_epoch x /\ sl_epoch x <= hi) -> lo <= min_epoch S /\ min_epoch S <= hi.
Proof.
  induction S as [|x S IH]; [congruence|]. intros _ H. rewrite min_epoch_cons.
  pose proof (H x (or_introl eq_refl)) as Hx. destruct S as [|y S']; [exact Hx|].
  specialize (IH ltac:(discriminate) (fun z Hz => H z (or_intror Hz))). lia.
Qed.

Lemma canon_epochs ex e : canon ex -> leaves_ok e (leaves ex) ->
  t_last_epoch ex <= e /\ 1 <= t_min_desc ex /\ t_min_desc ex <= e.
Proof.
  intros Hc Hl. destruct (canon_spec_sub ex Hc) as (Mx & Mn & _). rewrite <- Mx, <- Mn.
  assert (Hb : forall x, In x (sleaves ex) -> 1 <= sl_epoch x /\ sl_epoch x <= e).
  { intros x Hx. unfold sleaves in Hx. apply in_map_iff in Hx. destruct Hx as (y & <- & Hy). cbn [sleaf_of sl_epoch]. apply Hl. exact Hy. }
  split; [apply max_epoch_le; intros x Hx; apply Hb; exact Hx|].
  apply min_epoch_bounds; [apply sleaves_nonempty; apply Hc | exact Hb].
Qed.

Lemma leaves_ok_app e a b : leaves_ok e a -> leaves_ok e b -> leaves_ok e (a ++ b).
Proof. intros Ha Hb y Hy. apply in_app_or in Hy. destruct Hy; auto. Qed.
Lemma leaves_ok_new e S : 1 <= e -> (forall x, In x S -> llen (e_label x) = 256) -> leaves_ok e (map (lf_of e) S).
Proof.
  intros He Hl y Hy. apply in_map_iff in Hy. destruct Hy as (x & <- & Hx). cbn [lf_of lf_label lf_epoch].
  split; [apply Hl; exact Hx | lia].
Qed.
Lemma leaves_ok_perm e a b : Permutation a b -> leaves_ok e b -> leaves_ok e a.
Proof. intros P H y Hy. apply H. eapply Permutation_in; eassumption. Qed.

(* what a slot tells about the final child *)
Lemma slot_facts B e S dir c c' :
  slot B e S dir c c' -> 1 <= e ->
  (match c with Some c0 => canon c0 /\ pord B (bits_of (tlabel c0)) = Some dir /\ leaves_ok e (leaves c0) | None => True end) ->
  Permutation (oleaves c') (oleaves c ++ map (lf_of e) (filter (side B dir) S)) /\
  match c' with
  | Some r => canon r /\ pord B (bits_of (tlabel r)) = Some dir /\ t_last_epoch r <= e /\
              (filter (side B dir) S <> [] -> t_last_epoch r = e) /\ t_min_desc r = omde e c
  | None => c = None /\ filter (side B dir) S = []
  end.
Proof.
  intros [[E ->]|[Hne (r & -> & (Cr & Pr & Perm & Ler & Mr))]] He Hc.
  - rewrite E. cbn [map]. rewrite app_nil_r. split; [apply Permutation_refl|].
    destruct c as [c0|]; [|split; reflexivity]. destruct Hc as (Cc & Pc & Lc).
    destruct (canon_epochs c0 e Cc Lc) as (L1 & _ & _).
    repeat split; try assumption; try apply Cc. intros Hx. congruence.
  - split; [exact Perm|]. repeat split; try apply Cr; try (apply prefix_pord; exact Pr); try lia; try (intros _; exact Ler).
    rewrite Mr. destruct c; reflexivity.
Qed.

(* ------------------------------------------------------------------ the insertion theorem (subtrees) *)

Lemma len_bits x : WF x -> length (bits_of x) = N.to_nat (llen x).
Proof. apply length_bits_of. Qed.

Lemma canon_node l LE MDE ra rb :
  WF l -> canonical l = true ->
  canon ra -> canon rb ->
  pord (bits_of l) (bits_of (tlabel ra)) = Some false -> pord (bits_of l) (bits_of (tlabel rb)) = Some true ->
  LE = N.max (t_last_epoch ra) (t_last_epoch rb) -> MDE = N.min (t_min_desc ra) (t_min_desc rb) ->
  canon (Node l LE MDE (Some ra) (Some rb)).
Proof.
  intros Wl Cl [Wa Aa] [Wb Ab] Pa Pb EL EM. split.
  - cbn [wf_sub tlabel]. unfold WF in Wl. rewrite Wl, Cl, Pa, Pb, Wa, Wb. reflexivity.
  - cbn [ann_ok]. auto.
Qed.

  Lemma elems_distinct_bits S x y :
    elabs_ok S -> NoDup (map e_label S) -> In x S -> In y S -> bits_of (e_label x) = bits_of (e_label y) -> x = y \/ e_label x = e_label y.
  Proof.
    intros Hok _ Hx Hy E. right. destruct (Hok x Hx) as [Wx Cx]. destruct (Hok y Hy) as [Wy Cy].
    apply bits_of_inj; assumption.
  Qed.

  Lemma NoDup_map_two {A B} (f : A -> B) l x y : NoDup (map f l) -> In x l -> In y l -> f x = f y -> x = y.
  Proof.
    induction l as [|z l IH]; intros Hn Hx Hy E; [destruct Hx|]. cbn [map] in Hn. inversion Hn as [|? ? Hnot Hn']; subst.
    destruct Hx as [<-|Hx]; destruct Hy as [<-|Hy]; auto.
    - exfalso. apply Hnot. rewrite E. apply in_map. exact Hy.
    - exfalso. apply Hnot. rewrite <- E. apply in_map. exact Hx.
  Qed.

  (* the common prefix of at least two distinct 256-bit labels is shorter than 256 bits, and both
     directions occur below it *)
  Lemma lcp_two_sides q S x y r :
    set_ok q S -> S = x :: y :: r ->
    let P := lcp_all (ebits S) in
    (length P < 256)%nat /\ (forall z, In z S -> pord P (bits_of (e_label z)) <> None) /\
    filter (side P false) S <> [] /\ filter (side P true) S <> [].
  Proof.
    intros (Hok & Hlen & Hnd & Hq) ES P.
    assert (Hpre : forall z, In z S -> prefixb P (bits_of (e_label z)) = true).
    { intros z Hz. apply (lcp_all_prefix (ebits S) (sleaf_of_elem 0 z)). apply in_ebits. exact Hz. }
    assert (Hl256 : forall z, In z S -> length (bits_of (e_label z)) = 256%nat).
    { intros z Hz. rewrite len_bits by (apply Hok; exact Hz). rewrite (Hlen z Hz). reflexivity. }
    assert (Hx : In x S) by (rewrite ES; left; reflexivity).
    assert (Hy : In y S) by (rewrite ES; right; left; reflexivity).
    assert (Hxy : x <> y).
    { intros ->. rewrite ES in Hnd. cbn [map] in Hnd. inversion Hnd as [|? ? Hn _]; subst. apply Hn. left. reflexivity. }
    assert (HP : (length P < 256)%nat).
    { destruct (Nat.lt_ge_cases (length P) 256) as [|Hge]; [assumption|]. exfalso.
      assert (Ex : bits_of (e_label x) = P).
      { apply prefixb_antisym; [|apply Hpre; exact Hx]. apply prefixb_Prefix. pose proof (Hpre x Hx) as Hp. apply prefixb_Prefix in Hp.
        destruct Hp as [c Hc]. pose proof (Hl256 x Hx) as L. rewrite Hc, app_length in L. destruct c; [|cbn [length] in L; lia].
        exists []. rewrite Hc, !app_nil_r. reflexivity. }
      assert (Ey : bits_of (e_label y) = P).
      { apply prefixb_antisym; [|apply Hpre; exact Hy]. apply prefixb_Prefix. pose proof (Hpre y Hy) as Hp. apply prefixb_Prefix in Hp.
        destruct Hp as [c Hc]. pose proof (Hl256 y Hy) as L. rewrite Hc, app_length in L. destruct c; [|cbn [length] in L; lia].
        exists []. rewrite Hc, !app_nil_r. reflexivity. }
      apply Hxy. apply (NoDup_map_two e_label S x y Hnd Hx Hy).
      destruct (Hok x Hx) as [Wx Cx]. destruct (Hok y Hy) as [Wy Cy]. apply bits_of_inj; try assumption. congruence. }
    assert (Hnn : forall z, In z S -> pord P (bits_of (e_label z)) <> None).
    { intros z Hz. unfold pord. rewrite (Hl256 z Hz), (Hpre z Hz).
      assert (E : (256 <=? length P)%nat = false) by (apply Nat.leb_gt; exact HP). rewrite E. discriminate. }
    split; [exact HP|]. split; [exact Hnn|].
    assert (Hne : ebits S <> []) by (rewrite ES; discriminate).
    split.
    - intros E0. pose proof (side_all P S true Hnn E0) as Hall.
      assert (G : prefixb (P ++ [true]) (lcp_all (ebits S)) = true).
      { apply lcp_all_greatest; [exact Hne|]. intros z Hz. unfold ebits in Hz. apply in_map_iff in Hz. destruct Hz as (w & <- & Hw). apply Hall. exact Hw. }
      fold P in G. apply prefixb_length in G. rewrite app_length in G. cbn [length] in G. lia.
    - intros E0. pose proof (side_all P S false Hnn E0) as Hall.
      assert (G : prefixb (P ++ [false]) (lcp_all (ebits S)) = true).
      { apply lcp_all_greatest; [exact Hne|]. intros z Hz. unfold ebits in Hz. apply in_map_iff in Hz. destruct Hz as (w & <- & Hw). apply Hall. exact Hw. }
      fold P in G. apply prefixb_length in G. rewrite app_length in G. cbn [length] in G. lia.
  Qed.

Section InsTheorem.
  Variable empty : nlabel.
  Hypothesis Ce : canonical empty = false.

  Lemma q_le_256 q S : S <> [] -> set_ok q S -> (length q <= 256)%nat.
  Proof.
    intros Hne (Hok & Hlen & _ & Hq). destruct S as [|x S]; [congruence|].
    pose proof (Hq x (or_introl eq_refl)) as H. apply prefixb_length in H.
    rewrite len_bits in H by (apply Hok; left; reflexivity). rewrite (Hlen x (or_introl eq_refl)) in H. exact H.
  Qed.

  (* case: no existing subtree, one element *)
  Lemma ins_none_single rec q s e x :
    eset_list s = [x] -> set_ok q [x] ->
    exists k, finish rec (Leaf (e_label x) (e_value x) e) true 1 s e = Some (Leaf (e_label x) (e_value x) e, true, k) /\
              post q None [x] e (Leaf (e_label x) (e_value x) e).
  Proof.
    intros ES (Hok & Hlen & Hnd & Hq). destruct (Hok x (or_introl eq_refl)) as [Wx Cx].
    destruct (eset_partition_self s x ES Wx) as [E1 E2].
    unfold finish. cbn [tlabel]. destruct (eset_partition s (e_label x)) as [L R]. cbn [fst snd] in E1, E2.
    apply eset_is_empty_iff in E1, E2. rewrite E1, E2. exists 1. split; [reflexivity|].
    split; [|split; [|split; [|split]]].
    - split; [|exact I]. cbn [wf_sub tlabel]. unfold WF in Wx. rewrite Wx, Cx. reflexivity.
    - cbn [tlabel]. apply Hq. left. reflexivity.
    - cbn [leaves oleaves app map lf_of]. apply Permutation_refl.
    - reflexivity.
    - reflexivity.
  Qed.

  (* case: no existing subtree, at least two elements *)
  Lemma ins_none_many rec q s e x y r0 :
    1 <= e -> good_set s -> eset_list s = x :: y :: r0 -> set_ok q (eset_list s) ->
    (forall B, (length q <= length B)%nat -> rec_ok rec e B) ->
    exists r k, finish rec (Node (eset_lcp empty s) e e None None) true 1 s e = Some (r, true, k) /\
                post q None (eset_list s) e r.
  Proof.
    intros He Hg ES Hso Hrec. set (S := eset_list s) in *.
    assert (Hne : S <> []) by (rewrite ES; discriminate).
    destruct (eset_lcp_spec empty s Hg (proj1 Hso) Hne Ce) as (Pb & Pw & Pc). cbv zeta in Pb, Pw, Pc.
    set (l := eset_lcp empty s) in *. fold S in Pb.
    destruct (lcp_two_sides q S x y r0 Hso ES) as (HP & Hnn & HL & HR). cbv zeta in HP, Hnn, HL, HR. rewrite <- Pb in HP, Hnn, HL, HR.
    assert (Hq : prefixb q (bits_of l) = true).
    { rewrite Pb. apply lcp_all_greatest; [rewrite ES; discriminate|]. intros z Hz. unfold ebits in Hz. apply in_map_iff in Hz.
      destruct Hz as (w & <- & Hw). apply (proj2 (proj2 (proj2 Hso))). exact Hw. }
    assert (Hso' : set_ok (bits_of l) S).
    { destruct Hso as (H1 & H2 & H3 & H4). repeat split; try assumption; try (apply H1; assumption).
      intros z Hz. rewrite Pb. apply (lcp_all_prefix (ebits S) (sleaf_of_elem 0 z)). apply in_ebits. exact Hz. }
    destruct (finish_spec rec l e e None None true 1 s e Pw Pc Hg Hso' Hnn I I (Hrec _ (prefixb_length _ _ Hq)))
      as (a' & b' & k' & EF & Sa & Sb).
    fold S in EF, Sa, Sb.
    destruct (slot_facts _ _ _ _ _ _ Sa He I) as (PA & FA). destruct (slot_facts _ _ _ _ _ _ Sb He I) as (PB & FB).
    destruct a' as [ra|]; [|destruct FA as [_ FA]; congruence]. destruct b' as [rb|]; [|destruct FB as [_ FB]; congruence].
    destruct FA as (Ca & Pa & La & Lae & Ma). destruct FB as (Cb & Pb' & Lb & Lbe & Mb).
    specialize (Lae HL). specialize (Lbe HR). cbn [omde] in Ma, Mb.
    eexists. exists k'. split; [exact EF|].
    destruct (filter (side (bits_of l) false) S) as [|xl SL] eqn:ESL; [congruence|].
    destruct (filter (side (bits_of l) true) S) as [|xr SR] eqn:ESR; [congruence|].
    cbn [le_upd mde_upd omde]. assert (E0 : (e =? 0) = false) by (apply N.eqb_neq; lia). rewrite E0.
    assert (E1 : (N.min e e =? 0) = false) by (apply N.eqb_neq; lia). rewrite E1.
    split; [|split; [|split; [|split]]].
    - apply canon_node; try assumption; [rewrite Lae, Lbe; lia | rewrite Ma, Mb; lia].
    - exact Hq.
    - cbn [leaves oleaves app]. cbn [oleaves app] in PA, PB.
      eapply Permutation_trans; [apply Permutation_app; [exact PA | exact PB]|].
      rewrite <- ESL, <- ESR. apply sides_perm. exact Hnn.
    - cbn [t_last_epoch]. lia.
    - cbn [t_min_desc]. lia.
  Qed.
End InsTheorem.

Lemma perm_shuffle {A} (a l b r : list A) : Permutation ((a ++ l) ++ (b ++ r)) ((a ++ b) ++ (l ++ r)).
Proof.
  rewrite <- !app_assoc. apply Permutation_app_head. rewrite !app_assoc. apply Permutation_app_tail. apply Permutation_app_comm.
Qed.

Section InsSome.
  Variable empty : nlabel.
  Hypothesis Ce : canonical empty = false.

  (* facts shared by both sub-cases of an existing subtree *)
  Lemma some_setup q s e ex :
    good_set s -> eset_list s <> [] -> set_ok q (eset_list s) -> tree_pre q e (Some ex) (eset_list s) ->
    let S := eset_list s in
    let l := get_longest_common_prefix empty (tlabel ex) (eset_lcp empty s) in
    bits_of l = lcp (bits_of (tlabel ex)) (lcp_all (ebits S)) /\ WF l /\ canonical l = true /\
    prefixb q (bits_of l) = true /\
    (forall x, In x S -> prefixb (bits_of l) (bits_of (e_label x)) = true) /\
    (forall x, In x S -> length (bits_of (e_label x)) = 256%nat) /\
    (length (bits_of (tlabel ex)) <= 256)%nat.
  Proof.
    intros Hg Hne Hso (Cex & Pex & Lex & Dex) S l.
    destruct (canon_label ex Cex) as [Wx Cx].
    destruct (eset_lcp_spec empty s Hg (proj1 Hso) Hne Ce) as (Pb & Pw & Pc). cbv zeta in Pb, Pw, Pc. fold S in Pb.
    destruct (glcp_good empty (tlabel ex) (eset_lcp empty s) Wx Pw Cx Pc Ce) as (Lb & Lw & Lc). cbv zeta in Lb, Lw, Lc.
    fold l in Lb, Lw, Lc. rewrite Pb in Lb.
    destruct Hso as (Hok & Hlen & Hnd & Hq). fold S in Hok, Hlen, Hnd, Hq.
    assert (Hpre : forall x, In x S -> prefixb (lcp_all (ebits S)) (bits_of (e_label x)) = true).
    { intros x Hx. apply (lcp_all_prefix (ebits S) (sleaf_of_elem 0 x)). apply in_ebits. exact Hx. }
    split; [exact Lb|]. split; [exact Lw|]. split; [exact Lc|]. split; [|split; [|split]].
    - rewrite Lb. apply lcp_greatest; [exact Pex|]. apply lcp_all_greatest.
      + intros E0. apply map_eq_nil in E0. exact (Hne E0).
      + intros z Hz. unfold ebits in Hz. apply in_map_iff in Hz. destruct Hz as (w & <- & Hw). apply Hq. exact Hw.
    - intros x Hx. rewrite Lb. eapply prefixb_trans; [apply lcp_prefix_r | apply Hpre; exact Hx].
    - intros x Hx. rewrite len_bits by (apply Hok; exact Hx). rewrite (Hlen x Hx). reflexivity.
    - rewrite len_bits by exact Wx. destruct (WF_parts _ Wx) as (_ & H & _). lia.
  Qed.
End InsSome.

Section InsSplit.
  Variable empty : nlabel.
  Hypothesis Ce : canonical empty = false.
  Variable rec : option tree -> eset -> N -> option (tree * bool * N).

  (* case 1a: the new elements leave the edge above the existing node: a new node is put in between *)
  Lemma ins_some_split q s e ex :
    1 <= e -> good_set s -> eset_list s <> [] -> set_ok q (eset_list s) -> tree_pre q e (Some ex) (eset_list s) ->
    (forall B, (length q <= length B)%nat -> rec_ok rec e B) ->
    let l := get_longest_common_prefix empty (tlabel ex) (eset_lcp empty s) in
    (length (bits_of l) < length (bits_of (tlabel ex)))%nat ->
    exists n r k, set_child (Node l e e None None) ex = Some n /\ finish rec n true 1 s e = Some (r, true, k) /\
                  post q (Some ex) (eset_list s) e r.
  Proof.
    intros He Hg Hne Hso Hpre Hrec l Hlt.
    destruct (some_setup empty Ce q s e ex Hg Hne Hso Hpre) as (Lb & Lw & Lc & Hq & Hpl & H256 & Hx256).
    cbv zeta in Lb, Lw, Lc, Hq, Hpl, H256. fold l in Lb, Lw, Lc, Hq, Hpl.
    set (S := eset_list s) in *. set (Bl := bits_of l) in *. set (Bx := bits_of (tlabel ex)) in *.
    destruct Hpre as (Cex & Pex & Lex & Dex). destruct (canon_label ex Cex) as [Wx Cx].
    destruct (canon_epochs ex e Cex Lex) as (Lle & Lm1 & Lme).
    (* direction of the existing node below the new one *)
    set (d := nth (length Bl) Bx false).
    assert (Pd : pord Bl Bx = Some d).
    { unfold pord. assert (E : (length Bx <=? length Bl)%nat = false) by (apply Nat.leb_gt; exact Hlt). rewrite E.
      assert (E2 : prefixb Bl Bx = true) by (rewrite Lb; apply lcp_prefix_l). rewrite E2. reflexivity. }
    rewrite (set_child_node l e e None None ex d Lw Wx Pd).
    assert (E0 : (e =? 0) = false) by (apply N.eqb_neq; lia). rewrite E0.
    replace (N.max e (t_last_epoch ex)) with e by lia. replace (N.min e (t_min_desc ex)) with (t_min_desc ex) by lia.
    assert (Hnn : forall x, In x S -> pord Bl (bits_of (e_label x)) <> None).
    { intros x Hx. unfold pord. rewrite (H256 x Hx), (Hpl x Hx).
      assert (E : (256 <=? length Bl)%nat = false) by (apply Nat.leb_gt; lia). rewrite E. discriminate. }
    assert (Hso' : set_ok Bl S).
    { destruct Hso as (H1 & H2 & H3 & H4). repeat split; try assumption; try (apply H1; assumption). }
    assert (Hother : filter (side Bl (negb d)) S <> []).
    { intros E. pose proof (side_all Bl S d Hnn E) as Hall.
      assert (G : prefixb (Bl ++ [d]) (lcp Bx (lcp_all (ebits S))) = true).
      { apply lcp_greatest; [apply pord_prefix; exact Pd|]. apply lcp_all_greatest.
        - intros E1. apply map_eq_nil in E1. exact (Hne E1).
        - intros z Hz. unfold ebits in Hz. apply in_map_iff in Hz. destruct Hz as (w & <- & Hw). apply Hall. exact Hw. }
      rewrite <- Lb in G. apply prefixb_length in G. rewrite app_length in G. cbn [length] in G. lia. }
    assert (Hcp : child_pre Bl e S d (Some ex)).
    { cbn [child_pre tree_pre]. split; [exact Cex|]. split; [apply pord_prefix; exact Pd|]. split; [exact Lex|].
      intros x y Hx Hy. apply filter_In in Hx. apply Dex; [apply Hx | exact Hy]. }
    assert (Hc0 : canon ex /\ pord Bl (bits_of (tlabel ex)) = Some d /\ leaves_ok e (leaves ex)) by (split; [exact Cex | split; [exact Pd | exact Lex]]).
    specialize (Hrec Bl (prefixb_length _ _ Hq)).
    destruct d.
    - (* existing node goes right; the left child is new *)
      eexists.
      destruct (finish_spec rec l e (t_min_desc ex) None (Some ex) true 1 s e Lw Lc Hg Hso' Hnn I Hcp Hrec) as (a' & b' & k' & EF & Sa & Sb).
      fold S in EF, Sa, Sb. fold Bl in EF, Sa, Sb.
      destruct (slot_facts _ _ _ _ _ _ Sa He I) as (PA & FA). destruct (slot_facts _ _ _ _ _ _ Sb He Hc0) as (PB & FB).
      cbn [negb] in Hother.
      destruct a' as [ra|]; [|destruct FA as [_ FA]; congruence]. destruct b' as [rb|]; [|destruct FB as [FB _]; congruence].
      destruct FA as (Ca & Pa & La & Lae & Ma). destruct FB as (Cb & Pb & Lbb & Lbe & Mb). specialize (Lae Hother). cbn [omde] in Ma, Mb.
      exists (Node l (le_upd (le_upd e e (filter (side Bl false) S)) e (filter (side Bl true) S))
                    (mde_upd (mde_upd (t_min_desc ex) (filter (side Bl false) S) (omde e None)) (filter (side Bl true) S) (omde e (Some ex)))
                    (Some ra) (Some rb)), k'.
      split; [reflexivity|]. split; [exact EF|].
      destruct (filter (side Bl false) S) as [|xl SL] eqn:ESL; [congruence|].
      assert (EM0 : (t_min_desc ex =? 0) = false) by (apply N.eqb_neq; lia).
      assert (EM1 : (N.min (t_min_desc ex) e =? 0) = false) by (apply N.eqb_neq; lia).
      assert (HLE : le_upd (le_upd e e (xl :: SL)) e (filter (side Bl true) S) = e).
      { cbn [le_upd]. destruct (filter (side Bl true) S); cbn [le_upd]; lia. }
      assert (HMDE : mde_upd (mde_upd (t_min_desc ex) (xl :: SL) (omde e None)) (filter (side Bl true) S) (omde e (Some ex)) = t_min_desc ex).
      { cbn [mde_upd omde]. rewrite EM0. destruct (filter (side Bl true) S); cbn [mde_upd]; [lia|]. rewrite EM1. lia. }
      rewrite HLE, HMDE.
      split; [|split; [|split; [|split]]].
      + apply canon_node; try assumption; [rewrite Lae; lia | rewrite Ma, Mb; lia].
      + exact Hq.
      + cbn [leaves oleaves app]. cbn [oleaves app] in PA, PB.
        eapply Permutation_trans; [apply Permutation_app; [exact PA | exact PB]|].
        eapply Permutation_trans; [apply Permutation_app_swap_app|]. apply Permutation_app_head.
        rewrite <- ESL. apply sides_perm. exact Hnn.
      + reflexivity.
      + reflexivity.
    - (* existing node goes left; the right child is new *)
      eexists.
      destruct (finish_spec rec l e (t_min_desc ex) (Some ex) None true 1 s e Lw Lc Hg Hso' Hnn Hcp I Hrec) as (a' & b' & k' & EF & Sa & Sb).
      fold S in EF, Sa, Sb. fold Bl in EF, Sa, Sb.
      destruct (slot_facts _ _ _ _ _ _ Sa He Hc0) as (PA & FA). destruct (slot_facts _ _ _ _ _ _ Sb He I) as (PB & FB).
      cbn [negb] in Hother.
      destruct a' as [ra|]; [|destruct FA as [FA _]; congruence]. destruct b' as [rb|]; [|destruct FB as [_ FB]; congruence].
      destruct FA as (Ca & Pa & La & Lae & Ma). destruct FB as (Cb & Pb & Lbb & Lbe & Mb). specialize (Lbe Hother). cbn [omde] in Ma, Mb.
      exists (Node l (le_upd (le_upd e e (filter (side Bl false) S)) e (filter (side Bl true) S))
                    (mde_upd (mde_upd (t_min_desc ex) (filter (side Bl false) S) (omde e (Some ex))) (filter (side Bl true) S) (omde e None))
                    (Some ra) (Some rb)), k'.
      split; [reflexivity|]. split; [exact EF|].
      destruct (filter (side Bl true) S) as [|xr SR] eqn:ESR; [congruence|].
      assert (EM0 : (t_min_desc ex =? 0) = false) by (apply N.eqb_neq; lia).
      assert (EM1 : (N.min (t_min_desc ex) (t_min_desc ex) =? 0) = false) by (apply N.eqb_neq; lia).
      assert (HLE : le_upd (le_upd e e (filter (side Bl false) S)) e (xr :: SR) = e).
      { destruct (filter (side Bl false) S); cbn [le_upd]; lia. }
      assert (HMDE : mde_upd (mde_upd (t_min_desc ex) (filter (side Bl false) S) (omde e (Some ex))) (xr :: SR) (omde e None) = t_min_desc ex).
      { cbn [omde]. destruct (filter (side Bl false) S); cbn [mde_upd]; [rewrite EM0; lia|]. rewrite EM0, EM1. lia. }
      rewrite HLE, HMDE.
      split; [|split; [|split; [|split]]].
      + apply canon_node; try assumption; [rewrite Lbe; lia | rewrite Ma, Mb; lia].
      + exact Hq.
      + cbn [leaves oleaves app]. cbn [oleaves app] in PA, PB.
        eapply Permutation_trans; [apply Permutation_app; [exact PA | exact PB]|].
        rewrite <- app_assoc. apply Permutation_app_head.
        rewrite <- ESR. apply sides_perm. exact Hnn.
      + reflexivity.
      + reflexivity.
  Qed.
End InsSplit.
