(* Refinement: the insertion algorithm (Insert.v, the model of batch_insert_nodes tied to the code by
   the X-tree correspondence) keeps the tree canonical and adds exactly the batch; with
   SpecFacts.canon_root_spec the tree after any publish history is the specification trie over the
   prescribed leaves. *)
From Coq Require Import List Bool Arith NArith Lia Permutation.
From Akd Require Import Bits NodeLabel NodeLabelFacts BitsLabel ElemSet ElemSetFacts Hashing Tree TreeFacts Insert Spec SpecFacts.
Import ListNotations.
Open Scope N_scope.

(* ------------------------------------------------------------------ element sets *)

Definition sleaf_of_elem (e : N) (x : elem) : sleaf := SL (bits_of (e_label x)) (e_value x) e.
Definition ebits (l : list elem) : list sleaf := map (sleaf_of_elem 0) l.

Definition elabs_ok (l : list elem) : Prop := forall x, In x l -> WF (e_label x) /\ canonical (e_label x) = true.
Definition same_len (l : list elem) : Prop := exists len, forall x, In x l -> llen (e_label x) = len.
Definition good_set (s : eset) : Prop :=
  match s with Unsorted _ => True | BinarySearchable l => sorted_bits l /\ same_len l end.

Definition side (p : bits) (d : bool) (x : elem) : bool :=
  match pord p (bits_of (e_label x)) with Some d' => Bool.eqb d' d | None => false end.

Lemma in_ebits l x : In x l -> In (sleaf_of_elem 0 x) (ebits l).
Proof. intros H. unfold ebits. apply in_map. exact H. Qed.

(* ---- longest common prefix of a set *)
Lemma unsorted_lcp_fold empty : forall rest acc,
  canonical empty = false -> elabs_ok rest -> WF acc -> canonical acc = true ->
  let r := fold_left (fun acc n => get_longest_common_prefix empty (e_label n) acc) rest acc in
  bits_of r = fold_left (fun a y => lcp a (sl_bits y)) (ebits rest) (bits_of acc) /\ WF r /\ canonical r = true.
Proof.
  induction rest as [|n rest IH]; intros acc Ce Hok Wa Ca; cbn [fold_left ebits map]; [auto|].
  destruct (Hok n (or_introl eq_refl)) as [Wn Cn].
  destruct (glcp_good empty (e_label n) acc Wn Wa Cn Ca Ce) as (B & W & C).
  specialize (IH (get_longest_common_prefix empty (e_label n) acc) Ce (fun x Hx => Hok x (or_intror Hx)) W C).
  cbv zeta in IH. destruct IH as (IB & IW & IC). split; [|split; assumption].
  rewrite IB, B. cbn [sleaf_of_elem sl_bits]. rewrite lcp_comm. reflexivity.
Qed.

Lemma last_in {A} (l : list A) d : l <> [] -> In (last l d) l.
Proof.
  intros H. rewrite (app_removelast_last d H) at 2. apply in_or_app. right. left. reflexivity.
Qed.

Lemma sorted_head_le x l y : sorted_bits (x :: l) -> In y (x :: l) -> lex_cmp (bits_of (e_label x)) (bits_of (e_label y)) <> Gt.
Proof.
  intros H [<-|Hy]; [rewrite lex_cmp_refl; discriminate|]. inversion H as [|? ? Hx _]; subst. rewrite (Hx y Hy). discriminate.
Qed.
Lemma sorted_last_ge : forall l d y, sorted_bits l -> In y l -> lex_cmp (bits_of (e_label y)) (bits_of (e_label (last l d))) <> Gt.
Proof.
  induction l as [|x l IH]; intros d y Hs Hy; [destruct Hy|].
  destruct l as [|z l'].
  - destruct Hy as [<-|[]]. cbn [last]. rewrite lex_cmp_refl. discriminate.
  - change (last (x :: z :: l') d) with (last (z :: l') d). destruct Hy as [<-|Hy].
    + inversion Hs as [|? ? Hx _]; subst. rewrite (Hx (last (z :: l') d)); [discriminate|].
      apply last_in. discriminate.
    + apply IH; [eapply sorted_bits_tail; exact Hs | exact Hy].
Qed.

Lemma eset_lcp_spec empty s :
  good_set s -> elabs_ok (eset_list s) -> eset_list s <> [] -> canonical empty = false ->
  let r := eset_lcp empty s in
  bits_of r = lcp_all (ebits (eset_list s)) /\ WF r /\ canonical r = true.
Proof.
  intros Hg Hok Hne Ce. destruct s as [nodes|nodes]; cbn [eset_list eset_lcp] in *.
  - destruct nodes as [|first rest]; [congruence|]. destruct Hg as [Hs [len Hlen]].
    set (lst := last (first :: rest) first).
    assert (Hlast : In lst (first :: rest)) by (subst lst; apply last_in; discriminate).
    destruct (Hok first (or_introl eq_refl)) as [Wf Cf]. destruct (Hok lst Hlast) as [Wl Cl].
    destruct (glcp_good empty (e_label first) (e_label lst) Wf Wl Cf Cl Ce) as (B & W & C).
    fold lst. split; [|split; assumption]. rewrite B.
    apply prefixb_antisym.
    + apply lcp_all_greatest; [discriminate|]. intros z Hz. unfold ebits in Hz. apply in_map_iff in Hz.
      destruct Hz as (y & <- & Hy). cbn [sleaf_of_elem sl_bits].
      destruct (Hok y Hy) as [Wy _].
      apply lex_between.
      * rewrite !length_bits_of by assumption. rewrite (Hlen first (or_introl eq_refl)), (Hlen y Hy). reflexivity.
      * rewrite !length_bits_of by assumption. rewrite (Hlen lst Hlast), (Hlen y Hy). reflexivity.
      * apply (sorted_head_le first rest y Hs Hy).
      * apply (sorted_last_ge (first :: rest) first y Hs Hy).
    + apply lcp_greatest.
      * apply (lcp_all_prefix (ebits (first :: rest)) (sleaf_of_elem 0 first)). apply in_ebits. left. reflexivity.
      * apply (lcp_all_prefix (ebits (first :: rest)) (sleaf_of_elem 0 lst)). apply in_ebits. exact Hlast.
  - destruct nodes as [|n0 rest]; [congruence|].
    destruct (Hok n0 (or_introl eq_refl)) as [W0 C0].
    exact (unsorted_lcp_fold empty rest (e_label n0) Ce (fun x Hx => Hok x (or_intror Hx)) W0 C0).
Qed.

(* ---- partition of a set around a node label *)
Lemma sorted_filter (p : elem -> bool) l : sorted_bits l -> sorted_bits (filter p l).
Proof.
  induction 1 as [|x l Hx Hs IH]; cbn [filter]; [constructor|]. destruct (p x); [|exact IH].
  constructor; [|exact IH]. intros y Hy. apply filter_In in Hy. apply Hx. apply Hy.
Qed.
Lemma same_len_filter (p : elem -> bool) l : same_len l -> same_len (filter p l).
Proof. intros [len H]. exists len. intros x Hx. apply filter_In in Hx. apply H. apply Hx. Qed.

Lemma drop_invalid_none pl rl : (forall x, In x rl -> get_prefix_ordering pl (e_label x) <> None) -> drop_invalid_tail pl rl = rl.
Proof.
  destruct rl as [|x r]; [reflexivity|]. intros H. cbn [drop_invalid_tail].
  destruct (get_prefix_ordering pl (e_label x)) eqn:E; [reflexivity|]. exfalso. apply (H x (or_introl eq_refl)). exact E.
Qed.

Lemma eset_partition_spec s pl :
  good_set s -> elabs_ok (eset_list s) -> WF pl ->
  (forall x, In x (eset_list s) -> pord (bits_of pl) (bits_of (e_label x)) <> None) ->
  eset_list (fst (eset_partition s pl)) = filter (side (bits_of pl) false) (eset_list s) /\
  eset_list (snd (eset_partition s pl)) = filter (side (bits_of pl) true) (eset_list s) /\
  good_set (fst (eset_partition s pl)) /\ good_set (snd (eset_partition s pl)).
Proof.
  intros Hg Hok Wp Hnn.
  assert (Hgpo : forall x, In x (eset_list s) -> get_prefix_ordering pl (e_label x) = pord (bits_of pl) (bits_of (e_label x))).
  { intros x Hx. apply get_prefix_ordering_spec; [exact Wp | apply Hok; exact Hx]. }
  destruct s as [nodes|nodes]; cbn [eset_list eset_partition fst snd] in *.
  - destruct Hg as [Hs Hl].
    set (P := fun c => match get_prefix_ordering pl (e_label c) with Some true => false | _ => true end).
    assert (HPg : forall x, In x nodes -> P x = goes_left (bits_of pl) x).
    { intros x Hx. unfold P, goes_left. rewrite (Hgpo x Hx). reflexivity. }
    assert (Hpc : prefix_closed (goes_left (bits_of pl)) nodes).
    { apply sorted_prefix_closed; [exact Hs|]. intros x Hx. specialize (Hnn x Hx).
      unfold pord in Hnn. destruct (_ <=? _)%nat; [congruence|]. destruct (prefixb _ _); [reflexivity | congruence]. }
    destruct (prefix_closed_boundary (goes_left (bits_of pl)) dummy_elem nodes Hpc) as ((Bk & Bt & Bf) & E1 & E2).
    set (k := length (filter (goes_left (bits_of pl)) nodes)) in *.
    assert (Hpp : partition_point P dummy_elem nodes = k).
    { apply partition_point_spec. split; [exact Bk|]. split.
      - intros i Hi. rewrite HPg by (apply nth_In; lia). apply Bt. exact Hi.
      - intros i Hi1 Hi2. rewrite HPg by (apply nth_In; exact Hi2). apply Bf; assumption. }
    fold P. rewrite Hpp.
    assert (EL : filter (goes_left (bits_of pl)) nodes = filter (side (bits_of pl) false) nodes).
    { apply filter_ext_in. intros x Hx. unfold goes_left, side. specialize (Hnn x Hx).
      destruct (pord (bits_of pl) (bits_of (e_label x))) as [[|]|]; try reflexivity; try congruence. }
    assert (ER : filter (fun x => negb (goes_left (bits_of pl) x)) nodes = filter (side (bits_of pl) true) nodes).
    { apply filter_ext_in. intros x Hx. unfold goes_left, side. specialize (Hnn x Hx).
      destruct (pord (bits_of pl) (bits_of (e_label x))) as [[|]|]; try reflexivity; try congruence. }
    rewrite <- E1, <- E2, EL, ER.
    rewrite drop_invalid_none.
    2:{ intros x Hx. apply in_rev in Hx. apply filter_In in Hx. destruct Hx as [Hx _]. rewrite (Hgpo x Hx). apply Hnn. exact Hx. }
    rewrite rev_involutive.
    repeat split; try reflexivity; try (apply sorted_filter; exact Hs); apply same_len_filter; exact Hl.
  - repeat split; try exact I; apply filter_ext_in; intros x Hx; unfold side; rewrite (Hgpo x Hx);
      destruct (pord (bits_of pl) (bits_of (e_label x))) as [[|]|]; reflexivity.
Qed.

(* the set holding only the leaf's own element: nothing goes below a leaf *)
Lemma eset_partition_self s x :
  eset_list s = [x] -> WF (e_label x) ->
  eset_list (fst (eset_partition s (e_label x))) = [] /\ eset_list (snd (eset_partition s (e_label x))) = [].
Proof.
  intros El Wx.
  assert (Hn : get_prefix_ordering (e_label x) (e_label x) = None).
  { rewrite get_prefix_ordering_spec by assumption. unfold pord. rewrite Nat.leb_refl. reflexivity. }
  destruct s as [nodes|nodes]; cbn [eset_list] in El; subst nodes; cbn [eset_partition fst snd eset_list].
  - unfold partition_point, binary_search_by. cbn [length bs_loop Nat.leb nth]. rewrite Hn. cbn [snd skipn firstn rev app drop_invalid_tail].
    rewrite Hn. split; reflexivity.
  - cbn [filter]. rewrite Hn. split; reflexivity.
Qed.

(* ------------------------------------------------------------------ the body of [ins], named *)
Section Body.
  Variable empty : nlabel.

  Definition cur_node (t : option tree) (s : eset) (epoch : N) : option (tree * bool * N) :=
    match t with
    | Some ex =>
      let set_lcp := eset_lcp empty s in
      let l := get_longest_common_prefix empty (tlabel ex) set_lcp in
      if llen l <? llen (tlabel ex) then
        match set_child (Node l epoch epoch None None) ex with
        | Some n => Some (n, true, 1)
        | None => None
        end
      else Some (ex, false, 0)
    | None =>
      match eset_list s with
      | [x] => Some (Leaf (e_label x) (e_value x) epoch, true, 1)
      | _ => Some (Node (eset_lcp empty s) epoch epoch None None, true, 1)
      end
    end.

  Definition finish (rec : option tree -> eset -> N -> option (tree * bool * N))
             (cn : tree) (is_new : bool) (k : N) (s : eset) (epoch : N) : option (tree * bool * N) :=
    let '(L, R) := eset_partition s (tlabel cn) in
    let after_left : option (tree * N) :=
      if eset_is_empty L then Some (cn, k)
      else match rec (child cn false) L epoch with
           | None => None
           | Some (c, _, k') =>
             match set_child cn c with Some cn' => Some (cn', k + k') | None => None end
           end in
    match after_left with
    | None => None
    | Some (cn1, k1) =>
      if eset_is_empty R then Some (cn1, is_new, k1)
      else match rec (child cn1 true) R epoch with
           | None => None
           | Some (c, _, k') =>
             match set_child cn1 c with Some cn2 => Some (cn2, is_new, k1 + k') | None => None end
           end
    end.

  Lemma ins_unfold f t s epoch :
    ins empty (S f) t s epoch =
    match cur_node t s epoch with
    | None => None
    | Some (cn, is_new, k) => finish (ins empty f) cn is_new k s epoch
    end.
  Proof. reflexivity. Qed.
End Body.

(* ------------------------------------------------------------------ pre / post conditions *)

Definition lf_of (e : N) (x : elem) : leaf := LF (e_label x) (e_value x) e.
Definition oleaves (t : option tree) : list leaf := match t with Some c => leaves c | None => [] end.

Definition set_ok (q : bits) (S : list elem) : Prop :=
  elabs_ok S /\ (forall x, In x S -> llen (e_label x) = 256) /\ NoDup (map e_label S) /\
  (forall x, In x S -> prefixb q (bits_of (e_label x)) = true).

Definition leaves_ok (e : N) (ls : list leaf) : Prop :=
  forall y, In y ls -> llen (lf_label y) = 256 /\ 1 <= lf_epoch y /\ lf_epoch y <= e.

Definition tree_pre (q : bits) (e : N) (t : option tree) (S : list elem) : Prop :=
  match t with
  | None => True
  | Some ex =>
    canon ex /\ prefixb q (bits_of (tlabel ex)) = true /\ leaves_ok e (leaves ex) /\
    (forall x y, In x S -> In y (leaves ex) -> e_label x <> lf_label y)
  end.

Definition post (q : bits) (t : option tree) (S : list elem) (e : N) (r : tree) : Prop :=
  canon r /\ prefixb q (bits_of (tlabel r)) = true /\
  Permutation (leaves r) (oleaves t ++ map (lf_of e) S) /\
  t_last_epoch r = e /\ t_min_desc r = match t with Some ex => t_min_desc ex | None => e end.

Definition rec_ok (rec : option tree -> eset -> N -> option (tree * bool * N)) (e : N) (B : bits) : Prop :=
  forall dir t' s', good_set s' -> eset_list s' <> [] -> set_ok (B ++ [dir]) (eset_list s') ->
    tree_pre (B ++ [dir]) e t' (eset_list s') ->
    exists r isn k, rec t' s' e = Some (r, isn, k) /\ post (B ++ [dir]) t' (eset_list s') e r.

Definition child_pre (B : bits) (e : N) (S : list elem) (dir : bool) (c : option tree) : Prop :=
  match c with
  | None => True
  | Some c' => tree_pre (B ++ [dir]) e (Some c') (filter (side B dir) S)
  end.

Definition slot (B : bits) (e : N) (S : list elem) (dir : bool) (c c' : option tree) : Prop :=
  let Sd := filter (side B dir) S in
  (Sd = [] /\ c' = c) \/ (Sd <> [] /\ exists r, c' = Some r /\ post (B ++ [dir]) c Sd e r).

Definition omde (e : N) (c : option tree) : N := match c with Some c' => t_min_desc c' | None => e end.
Definition le_upd (x e : N) (Sd : list elem) : N := match Sd with [] => x | _ => N.max x e end.
Definition mde_upd (m : N) (Sd : list elem) (mc : N) : N :=
  match Sd with [] => m | _ => if m =? 0 then mc else N.min m mc end.

Lemma eset_is_empty_iff s : eset_is_empty s = true <-> eset_list s = [].
Proof. unfold eset_is_empty. destruct (eset_list s); split; congruence. Qed.

Lemma prefix_pord B d y : prefixb (B ++ [d]) y = true -> pord B y = Some d.
Proof.
  intros H. unfold pord. pose proof (prefixb_length _ _ H) as Hl. rewrite app_length in Hl. cbn [length] in Hl.
  assert (E : (length y <=? length B)%nat = false) by (apply Nat.leb_gt; lia). rewrite E.
  rewrite (prefixb_trans _ _ _ (prefixb_app B [d]) H).
  apply prefixb_nth in H. destruct H as [_ H]. specialize (H (length B)). rewrite app_length in H. cbn [length] in H.
  specialize (H ltac:(lia)). rewrite app_nth2, Nat.sub_diag in H by lia. cbn [nth] in H. rewrite <- H. reflexivity.
Qed.

Lemma side_prefix B d x : side B d x = true -> prefixb (B ++ [d]) (bits_of (e_label x)) = true.
Proof.
  unfold side. destruct (pord B (bits_of (e_label x))) as [d'|] eqn:E; [|discriminate]. intros H. apply eqb_prop in H. subst d'.
  apply pord_prefix. exact E.
Qed.

Lemma NoDup_map_filter {A B} (f : A -> B) (p : A -> bool) l : NoDup (map f l) -> NoDup (map f (filter p l)).
Proof.
  induction l as [|x l IH]; cbn [map filter]; intros H; [constructor|]. inversion H as [|? ? Hn Hd]; subst.
  destruct (p x); [|apply IH; exact Hd]. cbn [map]. constructor; [|apply IH; exact Hd].
  intros Hin. apply Hn. apply in_map_iff in Hin. destruct Hin as (y & Ey & Hy). apply filter_In in Hy.
  apply in_map_iff. exists y. split; [exact Ey | apply Hy].
Qed.

Lemma set_ok_side B S d : set_ok B S -> set_ok (B ++ [d]) (filter (side B d) S).
Proof.
  intros (Hok & Hlen & Hnd & Hp). repeat split.
  - apply Hok. apply filter_In in H. apply H.
  - apply Hok. apply filter_In in H. apply H.
  - intros x Hx. apply Hlen. apply filter_In in Hx. apply Hx.
  - apply NoDup_map_filter. exact Hnd.
  - intros x Hx. apply filter_In in Hx. apply side_prefix. apply Hx.
Qed.

Lemma canon_label r : canon r -> WF (tlabel r) /\ canonical (tlabel r) = true.
Proof. intros [Hw _]. apply wfg_label. apply wf_sub_wfg. exact Hw. Qed.

Lemma set_child_node l le mde a b c d :
  WF l -> WF (tlabel c) -> pord (bits_of l) (bits_of (tlabel c)) = Some d ->
  set_child (Node l le mde a b) c =
  Some (Node l (N.max le (t_last_epoch c)) (if mde =? 0 then t_min_desc c else N.min mde (t_min_desc c))
             (if d then a else Some c) (if d then Some c else b)).
Proof.
  intros Wl Wc P. unfold set_child. rewrite get_prefix_ordering_spec by assumption. rewrite P. destruct d; reflexivity.
Qed.

(* ------------------------------------------------------------------ the second half of [ins] *)

Lemma tree_pre_sub B e S d c :
  child_pre B e S d (Some c) -> tree_pre (B ++ [d]) e (Some c) (filter (side B d) S).
Proof. intros H. exact H. Qed.

Section Finish.
  Variable empty : nlabel.
  Variable rec : option tree -> eset -> N -> option (tree * bool * N).

  Lemma finish_spec l le mde a b isn k s e :
    let B := bits_of l in let S := eset_list s in
    WF l -> canonical l = true -> good_set s -> set_ok B S ->
    (forall x, In x S -> pord B (bits_of (e_label x)) <> None) ->
    child_pre B e S false a -> child_pre B e S true b -> rec_ok rec e B ->
    exists a' b' k',
      finish rec (Node l le mde a b) isn k s e =
      Some (Node l (le_upd (le_upd le e (filter (side B false) S)) e (filter (side B true) S))
                   (mde_upd (mde_upd mde (filter (side B false) S) (omde e a)) (filter (side B true) S) (omde e b))
                   a' b', isn, k') /\
      slot B e S false a a' /\ slot B e S true b b'.
  Proof.
    intros B S Wl Cl Hg Hso Hnn Ha Hb Hrec.
    destruct (eset_partition_spec s l Hg (proj1 Hso) Wl Hnn) as (EL & ER & GL & GR).
    unfold finish. cbn [tlabel]. destruct (eset_partition s l) as [L R] eqn:EP. cbn [fst snd] in EL, ER, GL, GR.
    fold S in EL, ER. fold B in EL, ER.
    set (SL := filter (side B false) S) in *. set (SR := filter (side B true) S) in *.
    (* left *)
    assert (Hleft : exists a' k1,
      (if eset_is_empty L then Some (Node l le mde a b, k)
       else match rec (child (Node l le mde a b) false) L e with
            | None => None
            | Some (c, _, k') => match set_child (Node l le mde a b) c with Some cn' => Some (cn', k + k') | None => None end
            end) = Some (Node l (le_upd le e SL) (mde_upd mde SL (omde e a)) a' b, k1) /\ slot B e S false a a').
    { destruct (eset_is_empty L) eqn:EE.
      - apply eset_is_empty_iff in EE. rewrite EL in EE. exists a, k. split; [|left; split; [exact EE | reflexivity]].
        fold SL in EE. rewrite EE. reflexivity.
      - assert (Hne : SL <> []).
        { intros E0. rewrite <- EL in E0. apply eset_is_empty_iff in E0. congruence. }
        cbn [child].
        destruct (Hrec false a L GL ltac:(rewrite EL; exact Hne) ltac:(rewrite EL; apply set_ok_side; exact Hso)
                       ltac:(rewrite EL; destruct a; [exact Ha | exact I])) as (r & isn' & k' & Er & Hp).
        rewrite Er. rewrite EL in Hp. fold SL in Hp. destruct Hp as (Cr & Pr & Perm & Ler & Mr).
        destruct (canon_label r Cr) as [Wr _].
        rewrite (set_child_node l le mde a b r false Wl Wr (prefix_pord B false _ Pr)).
        exists (Some r), (k + k'). split.
        + rewrite Ler. destruct SL as [|x0 SL'] eqn:ESL; [congruence|]. cbn [le_upd mde_upd].
          rewrite Mr. destruct a; reflexivity.
        + right. split; [exact Hne|]. exists r. split; [reflexivity|]. exact (conj Cr (conj Pr (conj Perm (conj Ler Mr)))). }
    destruct Hleft as (a' & k1 & Eleft & Sa). rewrite Eleft.
    (* right *)
    destruct (eset_is_empty R) eqn:EE.
    - apply eset_is_empty_iff in EE. rewrite ER in EE. fold SR in EE. exists a', b, k1. split; [|split; [exact Sa | left; split; [exact EE | reflexivity]]].
      rewrite EE. reflexivity.
    - assert (Hne : SR <> []).
      { intros E0. rewrite <- ER in E0. apply eset_is_empty_iff in E0. congruence. }
      cbn [child].
      destruct (Hrec true b R GR ltac:(rewrite ER; exact Hne) ltac:(rewrite ER; apply set_ok_side; exact Hso)
                     ltac:(rewrite ER; destruct b; [exact Hb | exact I])) as (r & isn' & k' & Er & Hp).
      rewrite Er. rewrite ER in Hp. fold SR in Hp. destruct Hp as (Cr & Pr & Perm & Ler & Mr).
      destruct (canon_label r Cr) as [Wr _].
      rewrite (set_child_node l _ _ a' b r true Wl Wr (prefix_pord B true _ Pr)).
      exists a', (Some r), (k1 + k'). split; [|split; [exact Sa|]].
      + rewrite Ler. destruct SR as [|x0 SR'] eqn:ESR; [congruence|]. cbn [le_upd mde_upd].
        rewrite Mr. destruct b; reflexivity.
      + right. split; [exact Hne|]. exists r. split; [reflexivity|]. exact (conj Cr (conj Pr (conj Perm (conj Ler Mr)))).
  Qed.
End Finish.

(* ------------------------------------------------------------------ facts used to assemble the result *)

Lemma sides_perm {A} (f : elem -> A) B S :
  (forall x, In x S -> pord B (bits_of (e_label x)) <> None) ->
  Permutation (map f (filter (side B false) S) ++ map f (filter (side B true) S)) (map f S).
Proof.
  induction S as [|x S IH]; intros H; [constructor|].
  specialize (IH (fun y Hy => H y (or_intror Hy))). pose proof (H x (or_introl eq_refl)) as Hx.
  assert (E : (side B false x = true /\ side B true x = false) \/ (side B false x = false /\ side B true x = true)).
  { unfold side. destruct (pord B (bits_of (e_label x))) as [[|]|]; try congruence; cbn [Bool.eqb]; auto. }
  cbn [filter]. destruct E as [[E1 E2]|[E1 E2]]; rewrite E1, E2; cbn [map app].
  - constructor. exact IH.
  - eapply Permutation_trans; [apply Permutation_sym; apply Permutation_middle|]. constructor. exact IH.
Qed.

Lemma side_cover B S : S <> [] -> (forall x, In x S -> pord B (bits_of (e_label x)) <> None) ->
  filter (side B false) S <> [] \/ filter (side B true) S <> [].
Proof.
  destruct S as [|x S]; [congruence|]. intros _ H. pose proof (H x (or_introl eq_refl)) as Hx.
  cbn [filter]. unfold side. destruct (pord B (bits_of (e_label x))) as [[|]|]; try congruence; cbn [Bool.eqb]; [right | left]; discriminate.
Qed.

(* if no element continues with [negb d] after B, every element continues with d *)
Lemma side_all B S d : (forall x, In x S -> pord B (bits_of (e_label x)) <> None) -> filter (side B (negb d)) S = [] ->
  forall x, In x S -> prefixb (B ++ [d]) (bits_of (e_label x)) = true.
Proof.
  intros Hnn He x Hx. pose proof (Hnn x Hx) as Hp.
  destruct (pord B (bits_of (e_label x))) as [d'|] eqn:E; [|congruence].
  destruct (Bool.eqb d' d) eqn:Ed.
  - apply eqb_prop in Ed. subst d'. apply pord_prefix. exact E.
  - exfalso. assert (Hin : In x (filter (side B (negb d)) S)).
    { apply filter_In. split; [exact Hx|]. unfold side. rewrite E. destruct d', d; try discriminate; reflexivity. }
    rewrite He in Hin. destruct Hin.
Qed.

Lemma max_epoch_le S hi : (forall x, In x S -> sl_epoch x <= hi) -> max_epoch S <= hi.
Proof.
  unfold max_epoch. assert (G : forall S a, a <= hi -> (forall x, In x S -> sl_epoch x <= hi) -> fold_left (fun a x => N.max a (sl_epoch x)) S a <= hi).
  { induction S0 as [|x S0 IH]; intros a Ha H; cbn [fold_left]; [exact Ha|]. apply IH; [|intros y Hy; apply H; right; exact Hy].
    pose proof (H x (or_introl eq_refl)). lia. }
  intros H. apply G; [lia | exact H].
Qed.
Lemma min_epoch_bounds S lo hi : S <> [] -> (forall x, In x S -> lo <= sl_epoch x /\ sl_epoch x <= hi) -> lo <= min_epoch S /\ min_epoch S <= hi.
Proof.
  induction S as [|x S IH]; [congruence|]. intros _ H. rewrite min_epoch_cons.
  pose proof (H x (or_introl eq_refl)) as Hx. destruct S as [|y S']; [exact Hx|].
  specialize (IH ltac:(discriminate) (fun z Hz => H z (or_intror Hz))). lia.
Qed.

Lemma canon_epochs ex e : canon ex -> leaves_ok e (leaves ex) ->
  t_last_epoch ex <= e /\ 1 <= t_min_desc ex /\ t_min_desc ex <= e.
Proof.
  intros Hc Hl. destruct (canon_spec_sub ex Hc) as (Mx & Mn & _). rewrite <- Mx, <- Mn.
  assert (Hb : forall x, In x (sleaves ex) -> 1 <= sl_epoch x /\ sl_epoch x <= e).
  { intros x Hx. unfold sleaves in Hx. apply in_map_iff in Hx. destruct Hx as (y & <- & Hy). cbn [sleaf_of sl_epoch]. apply Hl. exact Hy. }
  split; [apply max_epoch_le; intros x Hx; apply Hb; exact Hx|].
  apply min_epoch_bounds; [apply sleaves_nonempty; apply Hc | exact Hb].
Qed.

Lemma leaves_ok_app e a b : leaves_ok e a -> leaves_ok e b -> leaves_ok e (a ++ b).
Proof. intros Ha Hb y Hy. apply in_app_or in Hy. destruct Hy; auto. Qed.
Lemma leaves_ok_new e S : 1 <= e -> (forall x, In x S -> llen (e_label x) = 256) -> leaves_ok e (map (lf_of e) S).
Proof.
  intros He Hl y Hy. apply in_map_iff in Hy. destruct Hy as (x & <- & Hx). cbn [lf_of lf_label lf_epoch].
  split; [apply Hl; exact Hx | lia].
Qed.
Lemma leaves_ok_perm e a b : Permutation a b -> leaves_ok e b -> leaves_ok e a.
Proof. intros P H y Hy. apply H. eapply Permutation_in; eassumption. Qed.

(* what a slot tells about the final child *)
Lemma slot_facts B e S dir c c' :
  slot B e S dir c c' -> 1 <= e ->
  (match c with Some c0 => canon c0 /\ pord B (bits_of (tlabel c0)) = Some dir /\ leaves_ok e (leaves c0) | None => True end) ->
  Permutation (oleaves c') (oleaves c ++ map (lf_of e) (filter (side B dir) S)) /\
  match c' with
  | Some r => canon r /\ pord B (bits_of (tlabel r)) = Some dir /\ t_last_epoch r <= e /\
              (filter (side B dir) S <> [] -> t_last_epoch r = e) /\ t_min_desc r = omde e c
  | None => c = None /\ filter (side B dir) S = []
  end.
Proof.
  intros [[E ->]|[Hne (r & -> & (Cr & Pr & Perm & Ler & Mr))]] He Hc.
  - rewrite E. cbn [map]. rewrite app_nil_r. split; [apply Permutation_refl|].
    destruct c as [c0|]; [|split; reflexivity]. destruct Hc as (Cc & Pc & Lc).
    destruct (canon_epochs c0 e Cc Lc) as (L1 & _ & _).
    repeat split; try assumption; try apply Cc. intros Hx. congruence.
  - split; [exact Perm|]. repeat split; try apply Cr; try (apply prefix_pord; exact Pr); try lia; try (intros _; exact Ler).
    rewrite Mr. destruct c; reflexivity.
Qed.

(* ------------------------------------------------------------------ the insertion theorem (subtrees) *)

Lemma len_bits x : WF x -> length (bits_of x) = N.to_nat (llen x).
Proof. apply length_bits_of. Qed.

Lemma canon_node l LE MDE ra rb :
  WF l -> canonical l = true ->
  canon ra -> canon rb ->
  pord (bits_of l) (bits_of (tlabel ra)) = Some false -> pord (bits_of l) (bits_of (tlabel rb)) = Some true ->
  LE = N.max (t_last_epoch ra) (t_last_epoch rb) -> MDE = N.min (t_min_desc ra) (t_min_desc rb) ->
  canon (Node l LE MDE (Some ra) (Some rb)).
Proof.
  intros Wl Cl [Wa Aa] [Wb Ab] Pa Pb EL EM. split.
  - cbn [wf_sub tlabel]. unfold WF in Wl. rewrite Wl, Cl, Pa, Pb, Wa, Wb. reflexivity.
  - cbn [ann_ok]. auto.
Qed.

  Lemma elems_distinct_bits S x y :
    elabs_ok S -> NoDup (map e_label S) -> In x S -> In y S -> bits_of (e_label x) = bits_of (e_label y) -> x = y \/ e_label x = e_label y.
  Proof.
    intros Hok _ Hx Hy E. right. destruct (Hok x Hx) as [Wx Cx]. destruct (Hok y Hy) as [Wy Cy].
    apply bits_of_inj; assumption.
  Qed.

  Lemma NoDup_map_two {A B} (f : A -> B) l x y : NoDup (map f l) -> In x l -> In y l -> f x = f y -> x = y.
  Proof.
    induction l as [|z l IH]; intros Hn Hx Hy E; [destruct Hx|]. cbn [map] in Hn. inversion Hn as [|? ? Hnot Hn']; subst.
    destruct Hx as [<-|Hx]; destruct Hy as [<-|Hy]; auto.
    - exfalso. apply Hnot. rewrite E. apply in_map. exact Hy.
    - exfalso. apply Hnot. rewrite <- E. apply in_map. exact Hx.
  Qed.

  (* the common prefix of at least two distinct 256-bit labels is shorter than 256 bits, and both
     directions occur below it *)
  Lemma lcp_two_sides q S x y r :
    set_ok q S -> S = x :: y :: r ->
    let P := lcp_all (ebits S) in
    (length P < 256)%nat /\ (forall z, In z S -> pord P (bits_of (e_label z)) <> None) /\
    filter (side P false) S <> [] /\ filter (side P true) S <> [].
  Proof.
    intros (Hok & Hlen & Hnd & Hq) ES P.
    assert (Hpre : forall z, In z S -> prefixb P (bits_of (e_label z)) = true).
    { intros z Hz. apply (lcp_all_prefix (ebits S) (sleaf_of_elem 0 z)). apply in_ebits. exact Hz. }
    assert (Hl256 : forall z, In z S -> length (bits_of (e_label z)) = 256%nat).
    { intros z Hz. rewrite len_bits by (apply Hok; exact Hz). rewrite (Hlen z Hz). reflexivity. }
    assert (Hx : In x S) by (rewrite ES; left; reflexivity).
    assert (Hy : In y S) by (rewrite ES; right; left; reflexivity).
    assert (Hxy : x <> y).
    { intros ->. rewrite ES in Hnd. cbn [map] in Hnd. inversion Hnd as [|? ? Hn _]; subst. apply Hn. left. reflexivity. }
    assert (HP : (length P < 256)%nat).
    { destruct (Nat.lt_ge_cases (length P) 256) as [|Hge]; [assumption|]. exfalso.
      assert (Ex : bits_of (e_label x) = P).
      { apply prefixb_antisym; [|apply Hpre; exact Hx]. apply prefixb_Prefix. pose proof (Hpre x Hx) as Hp. apply prefixb_Prefix in Hp.
        destruct Hp as [c Hc]. pose proof (Hl256 x Hx) as L. rewrite Hc, app_length in L. destruct c; [|cbn [length] in L; lia].
        exists []. rewrite Hc, !app_nil_r. reflexivity. }
      assert (Ey : bits_of (e_label y) = P).
      { apply prefixb_antisym; [|apply Hpre; exact Hy]. apply prefixb_Prefix. pose proof (Hpre y Hy) as Hp. apply prefixb_Prefix in Hp.
        destruct Hp as [c Hc]. pose proof (Hl256 y Hy) as L. rewrite Hc, app_length in L. destruct c; [|cbn [length] in L; lia].
        exists []. rewrite Hc, !app_nil_r. reflexivity. }
      apply Hxy. apply (NoDup_map_two e_label S x y Hnd Hx Hy).
      destruct (Hok x Hx) as [Wx Cx]. destruct (Hok y Hy) as [Wy Cy]. apply bits_of_inj; try assumption. congruence. }
    assert (Hnn : forall z, In z S -> pord P (bits_of (e_label z)) <> None).
    { intros z Hz. unfold pord. rewrite (Hl256 z Hz), (Hpre z Hz).
      assert (E : (256 <=? length P)%nat = false) by (apply Nat.leb_gt; exact HP). rewrite E. discriminate. }
    split; [exact HP|]. split; [exact Hnn|].
    assert (Hne : ebits S <> []) by (rewrite ES; discriminate).
    split.
    - intros E0. pose proof (side_all P S true Hnn E0) as Hall.
      assert (G : prefixb (P ++ [true]) (lcp_all (ebits S)) = true).
      { apply lcp_all_greatest; [exact Hne|]. intros z Hz. unfold ebits in Hz. apply in_map_iff in Hz. destruct Hz as (w & <- & Hw). apply Hall. exact Hw. }
      fold P in G. apply prefixb_length in G. rewrite app_length in G. cbn [length] in G. lia.
    - intros E0. pose proof (side_all P S false Hnn E0) as Hall.
      assert (G : prefixb (P ++ [false]) (lcp_all (ebits S)) = true).
      { apply lcp_all_greatest; [exact Hne|]. intros z Hz. unfold ebits in Hz. apply in_map_iff in Hz. destruct Hz as (w & <- & Hw). apply Hall. exact Hw. }
      fold P in G. apply prefixb_length in G. rewrite app_length in G. cbn [length] in G. lia.
  Qed.

Section InsTheorem.
  Variable empty : nlabel.
  Hypothesis Ce : canonical empty = false.

  Lemma q_le_256 q S : S <> [] -> set_ok q S -> (length q <= 256)%nat.
  Proof.
    intros Hne (Hok & Hlen & _ & Hq). destruct S as [|x S]; [congruence|].
    pose proof (Hq x (or_introl eq_refl)) as H. apply prefixb_length in H.
    rewrite len_bits in H by (apply Hok; left; reflexivity). rewrite (Hlen x (or_introl eq_refl)) in H. exact H.
  Qed.

  (* case: no existing subtree, one element *)
  Lemma ins_none_single rec q s e x :
    eset_list s = [x] -> set_ok q [x] ->
    exists k, finish rec (Leaf (e_label x) (e_value x) e) true 1 s e = Some (Leaf (e_label x) (e_value x) e, true, k) /\
              post q None [x] e (Leaf (e_label x) (e_value x) e).
  Proof.
    intros ES (Hok & Hlen & Hnd & Hq). destruct (Hok x (or_introl eq_refl)) as [Wx Cx].
    destruct (eset_partition_self s x ES Wx) as [E1 E2].
    unfold finish. cbn [tlabel]. destruct (eset_partition s (e_label x)) as [L R]. cbn [fst snd] in E1, E2.
    apply eset_is_empty_iff in E1, E2. rewrite E1, E2. exists 1. split; [reflexivity|].
    split; [|split; [|split; [|split]]].
    - split; [|exact I]. cbn [wf_sub tlabel]. unfold WF in Wx. rewrite Wx, Cx. reflexivity.
    - cbn [tlabel]. apply Hq. left. reflexivity.
    - cbn [leaves oleaves app map lf_of]. apply Permutation_refl.
    - reflexivity.
    - reflexivity.
  Qed.

  (* case: no existing subtree, at least two elements *)
  Lemma ins_none_many rec q s e x y r0 :
    1 <= e -> good_set s -> eset_list s = x :: y :: r0 -> set_ok q (eset_list s) ->
    (forall B, (length q <= length B)%nat -> rec_ok rec e B) ->
    exists r k, finish rec (Node (eset_lcp empty s) e e None None) true 1 s e = Some (r, true, k) /\
                post q None (eset_list s) e r.
  Proof.
    intros He Hg ES Hso Hrec. set (S := eset_list s) in *.
    assert (Hne : S <> []) by (rewrite ES; discriminate).
    destruct (eset_lcp_spec empty s Hg (proj1 Hso) Hne Ce) as (Pb & Pw & Pc). cbv zeta in Pb, Pw, Pc.
    set (l := eset_lcp empty s) in *. fold S in Pb.
    destruct (lcp_two_sides q S x y r0 Hso ES) as (HP & Hnn & HL & HR). cbv zeta in HP, Hnn, HL, HR. rewrite <- Pb in HP, Hnn, HL, HR.
    assert (Hq : prefixb q (bits_of l) = true).
    { rewrite Pb. apply lcp_all_greatest; [rewrite ES; discriminate|]. intros z Hz. unfold ebits in Hz. apply in_map_iff in Hz.
      destruct Hz as (w & <- & Hw). apply (proj2 (proj2 (proj2 Hso))). exact Hw. }
    assert (Hso' : set_ok (bits_of l) S).
    { destruct Hso as (H1 & H2 & H3 & H4). repeat split; try assumption; try (apply H1; assumption).
      intros z Hz. rewrite Pb. apply (lcp_all_prefix (ebits S) (sleaf_of_elem 0 z)). apply in_ebits. exact Hz. }
    destruct (finish_spec rec l e e None None true 1 s e Pw Pc Hg Hso' Hnn I I (Hrec _ (prefixb_length _ _ Hq)))
      as (a' & b' & k' & EF & Sa & Sb).
    fold S in EF, Sa, Sb.
    destruct (slot_facts _ _ _ _ _ _ Sa He I) as (PA & FA). destruct (slot_facts _ _ _ _ _ _ Sb He I) as (PB & FB).
    destruct a' as [ra|]; [|destruct FA as [_ FA]; congruence]. destruct b' as [rb|]; [|destruct FB as [_ FB]; congruence].
    destruct FA as (Ca & Pa & La & Lae & Ma). destruct FB as (Cb & Pb' & Lb & Lbe & Mb).
    specialize (Lae HL). specialize (Lbe HR). cbn [omde] in Ma, Mb.
    eexists. exists k'. split; [exact EF|].
    destruct (filter (side (bits_of l) false) S) as [|xl SL] eqn:ESL; [congruence|].
    destruct (filter (side (bits_of l) true) S) as [|xr SR] eqn:ESR; [congruence|].
    cbn [le_upd mde_upd omde]. assert (E0 : (e =? 0) = false) by (apply N.eqb_neq; lia). rewrite E0.
    assert (E1 : (N.min e e =? 0) = false) by (apply N.eqb_neq; lia). rewrite E1.
    split; [|split; [|split; [|split]]].
    - apply canon_node; try assumption; [rewrite Lae, Lbe; lia | rewrite Ma, Mb; lia].
    - exact Hq.
    - cbn [leaves oleaves app]. cbn [oleaves app] in PA, PB.
      eapply Permutation_trans; [apply Permutation_app; [exact PA | exact PB]|].
      rewrite <- ESL, <- ESR. apply sides_perm. exact Hnn.
    - cbn [t_last_epoch]. lia.
    - cbn [t_min_desc]. lia.
  Qed.
End InsTheorem.

Lemma perm_shuffle {A} (a l b r : list A) : Permutation ((a ++ l) ++ (b ++ r)) ((a ++ b) ++ (l ++ r)).
Proof.
  rewrite <- !app_assoc. apply Permutation_app_head. rewrite !app_assoc. apply Permutation_app_tail. apply Permutation_app_comm.
Qed.

Section InsSome.
  Variable empty : nlabel.
  Hypothesis Ce : canonical empty = false.

  (* facts shared by both sub-cases of an existing subtree *)
  Lemma some_setup q s e ex :
    good_set s -> eset_list s <> [] -> set_ok q (eset_list s) -> tree_pre q e (Some ex) (eset_list s) ->
    let S := eset_list s in
    let l := get_longest_common_prefix empty (tlabel ex) (eset_lcp empty s) in
    bits_of l = lcp (bits_of (tlabel ex)) (lcp_all (ebits S)) /\ WF l /\ canonical l = true /\
    prefixb q (bits_of l) = true /\
    (forall x, In x S -> prefixb (bits_of l) (bits_of (e_label x)) = true) /\
    (forall x, In x S -> length (bits_of (e_label x)) = 256%nat) /\
    (length (bits_of (tlabel ex)) <= 256)%nat.
  Proof.
    intros Hg Hne Hso (Cex & Pex & Lex & Dex) S l.
    destruct (canon_label ex Cex) as [Wx Cx].
    destruct (eset_lcp_spec empty s Hg (proj1 Hso) Hne Ce) as (Pb & Pw & Pc). cbv zeta in Pb, Pw, Pc. fold S in Pb.
    destruct (glcp_good empty (tlabel ex) (eset_lcp empty s) Wx Pw Cx Pc Ce) as (Lb & Lw & Lc). cbv zeta in Lb, Lw, Lc.
    fold l in Lb, Lw, Lc. rewrite Pb in Lb.
    destruct Hso as (Hok & Hlen & Hnd & Hq). fold S in Hok, Hlen, Hnd, Hq.
    assert (Hpre : forall x, In x S -> prefixb (lcp_all (ebits S)) (bits_of (e_label x)) = true).
    { intros x Hx. apply (lcp_all_prefix (ebits S) (sleaf_of_elem 0 x)). apply in_ebits. exact Hx. }
    split; [exact Lb|]. split; [exact Lw|]. split; [exact Lc|]. split; [|split; [|split]].
    - rewrite Lb. apply lcp_greatest; [exact Pex|]. apply lcp_all_greatest.
      + intros E0. apply map_eq_nil in E0. exact (Hne E0).
      + intros z Hz. unfold ebits in Hz. apply in_map_iff in Hz. destruct Hz as (w & <- & Hw). apply Hq. exact Hw.
    - intros x Hx. rewrite Lb. eapply prefixb_trans; [apply lcp_prefix_r | apply Hpre; exact Hx].
    - intros x Hx. rewrite len_bits by (apply Hok; exact Hx). rewrite (Hlen x Hx). reflexivity.
    - rewrite len_bits by exact Wx. destruct (WF_parts _ Wx) as (_ & H & _). lia.
  Qed.
End InsSome.

Section InsSplit.
  Variable empty : nlabel.
  Hypothesis Ce : canonical empty = false.
  Variable rec : option tree -> eset -> N -> option (tree * bool * N).

  (* case 1a: the new elements leave the edge above the existing node: a new node is put in between *)
  Lemma ins_some_split q s e ex :
    1 <= e -> good_set s -> eset_list s <> [] -> set_ok q (eset_list s) -> tree_pre q e (Some ex) (eset_list s) ->
    (forall B, (length q <= length B)%nat -> rec_ok rec e B) ->
    let l := get_longest_common_prefix empty (tlabel ex) (eset_lcp empty s) in
    (length (bits_of l) < length (bits_of (tlabel ex)))%nat ->
    exists n r k, set_child (Node l e e None None) ex = Some n /\ finish rec n true 1 s e = Some (r, true, k) /\
                  post q (Some ex) (eset_list s) e r.
  Proof.
    intros He Hg Hne Hso Hpre Hrec l Hlt.
    destruct (some_setup empty Ce q s e ex Hg Hne Hso Hpre) as (Lb & Lw & Lc & Hq & Hpl & H256 & Hx256).
    cbv zeta in Lb, Lw, Lc, Hq, Hpl, H256. fold l in Lb, Lw, Lc, Hq, Hpl.
    set (S := eset_list s) in *. set (Bl := bits_of l) in *. set (Bx := bits_of (tlabel ex)) in *.
    destruct Hpre as (Cex & Pex & Lex & Dex). destruct (canon_label ex Cex) as [Wx Cx].
    destruct (canon_epochs ex e Cex Lex) as (Lle & Lm1 & Lme).
    (* direction of the existing node below the new one *)
    set (d := nth (length Bl) Bx false).
    assert (Pd : pord Bl Bx = Some d).
    { unfold pord. assert (E : (length Bx <=? length Bl)%nat = false) by (apply Nat.leb_gt; exact Hlt). rewrite E.
      assert (E2 : prefixb Bl Bx = true) by (rewrite Lb; apply lcp_prefix_l). rewrite E2. reflexivity. }
    rewrite (set_child_node l e e None None ex d Lw Wx Pd).
    assert (E0 : (e =? 0) = false) by (apply N.eqb_neq; lia). rewrite E0.
    replace (N.max e (t_last_epoch ex)) with e by lia. replace (N.min e (t_min_desc ex)) with (t_min_desc ex) by lia.
    assert (Hnn : forall x, In x S -> pord Bl (bits_of (e_label x)) <> None).
    { intros x Hx. unfold pord. rewrite (H256 x Hx), (Hpl x Hx).
      assert (E : (256 <=? length Bl)%nat = false) by (apply Nat.leb_gt; lia). rewrite E. discriminate. }
    assert (Hso' : set_ok Bl S).
    { destruct Hso as (H1 & H2 & H3 & H4). repeat split; try assumption; try (apply H1; assumption). }
    assert (Hother : filter (side Bl (negb d)) S <> []).
    { intros E. pose proof (side_all Bl S d Hnn E) as Hall.
      assert (G : prefixb (Bl ++ [d]) (lcp Bx (lcp_all (ebits S))) = true).
      { apply lcp_greatest; [apply pord_prefix; exact Pd|]. apply lcp_all_greatest.
        - intros E1. apply map_eq_nil in E1. exact (Hne E1).
        - intros z Hz. unfold ebits in Hz. apply in_map_iff in Hz. destruct Hz as (w & <- & Hw). apply Hall. exact Hw. }
      rewrite <- Lb in G. apply prefixb_length in G. rewrite app_length in G. cbn [length] in G. lia. }
    assert (Hcp : child_pre Bl e S d (Some ex)).
    { cbn [child_pre tree_pre]. split; [exact Cex|]. split; [apply pord_prefix; exact Pd|]. split; [exact Lex|].
      intros x y Hx Hy. apply filter_In in Hx. apply Dex; [apply Hx | exact Hy]. }
    assert (Hc0 : canon ex /\ pord Bl (bits_of (tlabel ex)) = Some d /\ leaves_ok e (leaves ex)) by (split; [exact Cex | split; [exact Pd | exact Lex]]).
    specialize (Hrec Bl (prefixb_length _ _ Hq)).
    destruct d.
    - (* existing node goes right; the left child is new *)
      eexists.
      destruct (finish_spec rec l e (t_min_desc ex) None (Some ex) true 1 s e Lw Lc Hg Hso' Hnn I Hcp Hrec) as (a' & b' & k' & EF & Sa & Sb).
      fold S in EF, Sa, Sb. fold Bl in EF, Sa, Sb.
      destruct (slot_facts _ _ _ _ _ _ Sa He I) as (PA & FA). destruct (slot_facts _ _ _ _ _ _ Sb He Hc0) as (PB & FB).
      cbn [negb] in Hother.
      destruct a' as [ra|]; [|destruct FA as [_ FA]; congruence]. destruct b' as [rb|]; [|destruct FB as [FB _]; congruence].
      destruct FA as (Ca & Pa & La & Lae & Ma). destruct FB as (Cb & Pb & Lbb & Lbe & Mb). specialize (Lae Hother). cbn [omde] in Ma, Mb.
      exists (Node l (le_upd (le_upd e e (filter (side Bl false) S)) e (filter (side Bl true) S))
                    (mde_upd (mde_upd (t_min_desc ex) (filter (side Bl false) S) (omde e None)) (filter (side Bl true) S) (omde e (Some ex)))
                    (Some ra) (Some rb)), k'.
      split; [reflexivity|]. split; [exact EF|].
      destruct (filter (side Bl false) S) as [|xl SL] eqn:ESL; [congruence|].
      assert (EM0 : (t_min_desc ex =? 0) = false) by (apply N.eqb_neq; lia).
      assert (EM1 : (N.min (t_min_desc ex) e =? 0) = false) by (apply N.eqb_neq; lia).
      assert (HLE : le_upd (le_upd e e (xl :: SL)) e (filter (side Bl true) S) = e).
      { cbn [le_upd]. destruct (filter (side Bl true) S); cbn [le_upd]; lia. }
      assert (HMDE : mde_upd (mde_upd (t_min_desc ex) (xl :: SL) (omde e None)) (filter (side Bl true) S) (omde e (Some ex)) = t_min_desc ex).
      { cbn [mde_upd omde]. rewrite EM0. destruct (filter (side Bl true) S); cbn [mde_upd]; [lia|]. rewrite EM1. lia. }
      rewrite HLE, HMDE.
      split; [|split; [|split; [|split]]].
      + apply canon_node; try assumption; [rewrite Lae; lia | rewrite Ma, Mb; lia].
      + exact Hq.
      + cbn [leaves oleaves app]. cbn [oleaves app] in PA, PB.
        eapply Permutation_trans; [apply Permutation_app; [exact PA | exact PB]|].
        eapply Permutation_trans; [apply Permutation_app_swap_app|]. apply Permutation_app_head.
        rewrite <- ESL. apply sides_perm. exact Hnn.
      + reflexivity.
      + reflexivity.
    - (* existing node goes left; the right child is new *)
      eexists.
      destruct (finish_spec rec l e (t_min_desc ex) (Some ex) None true 1 s e Lw Lc Hg Hso' Hnn Hcp I Hrec) as (a' & b' & k' & EF & Sa & Sb).
      fold S in EF, Sa, Sb. fold Bl in EF, Sa, Sb.
      destruct (slot_facts _ _ _ _ _ _ Sa He Hc0) as (PA & FA). destruct (slot_facts _ _ _ _ _ _ Sb He I) as (PB & FB).
      cbn [negb] in Hother.
      destruct a' as [ra|]; [|destruct FA as [FA _]; congruence]. destruct b' as [rb|]; [|destruct FB as [_ FB]; congruence].
      destruct FA as (Ca & Pa & La & Lae & Ma). destruct FB as (Cb & Pb & Lbb & Lbe & Mb). specialize (Lbe Hother). cbn [omde] in Ma, Mb.
      exists (Node l (le_upd (le_upd e e (filter (side Bl false) S)) e (filter (side Bl true) S))
                    (mde_upd (mde_upd (t_min_desc ex) (filter (side Bl false) S) (omde e (Some ex))) (filter (side Bl true) S) (omde e None))
                    (Some ra) (Some rb)), k'.
      split; [reflexivity|]. split; [exact EF|].
      destruct (filter (side Bl true) S) as [|xr SR] eqn:ESR; [congruence|].
      assert (EM0 : (t_min_desc ex =? 0) = false) by (apply N.eqb_neq; lia).
      assert (EM1 : (N.min (t_min_desc ex) (t_min_desc ex) =? 0) = false) by (apply N.eqb_neq; lia).
      assert (HLE : le_upd (le_upd e e (filter (side Bl false) S)) e (xr :: SR) = e).
      { destruct (filter (side Bl false) S); cbn [le_upd]; lia. }
      assert (HMDE : mde_upd (mde_upd (t_min_desc ex) (filter (side Bl false) S) (omde e (Some ex))) (xr :: SR) (omde e None) = t_min_desc ex).
      { cbn [omde]. destruct (filter (side Bl false) S); cbn [mde_upd]; [rewrite EM0; lia|]. rewrite EM0, EM1. lia. }
      rewrite HLE, HMDE.
      split; [|split; [|split; [|split]]].
      + apply canon_node; try assumption; [rewrite Lbe; lia | rewrite Ma, Mb; lia].
      + exact Hq.
      + cbn [leaves oleaves app]. cbn [oleaves app] in PA, PB.
        eapply Permutation_trans; [apply Permutation_app; [exact PA | exact PB]|].
        rewrite <- app_assoc. apply Permutation_app_head.
        rewrite <- ESR. apply sides_perm. exact Hnn.
      + reflexivity.
      + reflexivity.
  Qed.
End InsSplit.

Section InsDescend.
  Variable empty : nlabel.
  Hypothesis Ce : canonical empty = false.
  Variable rec : option tree -> eset -> N -> option (tree * bool * N).

  (* case 1b: every new element lies below the existing node: descend into its children *)
  Lemma ins_some_descend q s e ex :
    1 <= e -> good_set s -> eset_list s <> [] -> set_ok q (eset_list s) -> tree_pre q e (Some ex) (eset_list s) ->
    (forall B, (length q <= length B)%nat -> rec_ok rec e B) ->
    let l := get_longest_common_prefix empty (tlabel ex) (eset_lcp empty s) in
    (length (bits_of (tlabel ex)) <= length (bits_of l))%nat ->
    exists r k, finish rec ex false 0 s e = Some (r, false, k) /\ post q (Some ex) (eset_list s) e r.
  Proof.
    intros He Hg Hne Hso Hpre Hrec l Hge.
    destruct (some_setup empty Ce q s e ex Hg Hne Hso Hpre) as (Lb & Lw & Lc & Hq & Hpl & H256 & Hx256).
    cbv zeta in Lb, Lw, Lc, Hq, Hpl, H256. fold l in Lb, Lw, Lc, Hq, Hpl.
    set (S := eset_list s) in *. set (Bx := bits_of (tlabel ex)) in *.
    destruct Hpre as (Cex & Pex & Lex & Dex). destruct (canon_label ex Cex) as [Wx Cx].
    (* the node's label is the common prefix: it is a prefix of every new element *)
    assert (El : bits_of l = Bx).
    { apply prefixb_antisym; [rewrite Lb; apply lcp_prefix_l|].
      apply prefixb_Prefix. assert (Hp : prefixb (bits_of l) Bx = true) by (rewrite Lb; apply lcp_prefix_l).
      apply prefixb_Prefix in Hp. destruct Hp as [c Hc]. destruct c as [|c0 c]; [exists []; rewrite Hc, !app_nil_r; reflexivity|].
      rewrite Hc, app_length in Hge. cbn [length] in Hge. lia. }
    assert (Hpx : forall x, In x S -> prefixb Bx (bits_of (e_label x)) = true) by (intros x Hx; rewrite <- El; apply Hpl; exact Hx).
    destruct ex as [lx vx epx | l0 le0 mde0 a0 b0].
    - (* a leaf cannot be a prefix of a different 256-bit label *)
      exfalso. destruct S as [|x S'] eqn:ES; [congruence|].
      assert (Hx : In x (x :: S')) by (left; reflexivity).
      pose proof (Lex (LF lx vx epx) (or_introl eq_refl)) as (Hl256 & _). cbn [lf_label] in Hl256.
      assert (Eb : bits_of (e_label x) = Bx).
      { symmetry. apply prefixb_antisym; [apply Hpx; exact Hx|].
        pose proof (Hpx x Hx) as Hp. apply prefixb_Prefix in Hp. destruct Hp as [c Hc].
        assert (L1 : length Bx = 256%nat) by (unfold Bx; cbn [tlabel]; rewrite len_bits by exact Wx; rewrite Hl256; reflexivity).
        pose proof (H256 x Hx) as L2. rewrite Hc, app_length, L1 in L2. destruct c; [|cbn [length] in L2; lia].
        rewrite Hc, app_nil_r. apply prefixb_refl. }
      apply (Dex x (LF lx vx epx) Hx (or_introl eq_refl)). cbn [lf_label].
      destruct ((proj1 Hso) x Hx) as [Wxe Cxe]. apply bits_of_inj; first [assumption | exact Eb].
    - destruct Cex as [Wsub Aok]. destruct (wf_sub_node _ _ _ _ _ Wsub) as (a' & b' & -> & -> & W0 & C0 & Pa0 & Pb0 & Wa0 & Wb0).
      cbn [ann_ok] in Aok. destruct Aok as (Ele & Emde & Aa & Ab).
      cbn [tlabel] in Bx.
      assert (Ca0 : canon a') by (split; assumption). assert (Cb0 : canon b') by (split; assumption).
      assert (La0 : leaves_ok e (leaves a')) by (intros y Hy; apply Lex; cbn [leaves]; apply in_or_app; left; exact Hy).
      assert (Lb0 : leaves_ok e (leaves b')) by (intros y Hy; apply Lex; cbn [leaves]; apply in_or_app; right; exact Hy).
      destruct (canon_epochs a' e Ca0 La0) as (Lla & Lma1 & Lmae). destruct (canon_epochs b' e Cb0 Lb0) as (Llb & Lmb1 & Lmbe).
      assert (Hlen0 : (length Bx < 256)%nat).
      { destruct (canon_label a' Ca0) as [Wa _]. pose proof Pa0 as P. unfold pord in P. fold Bx in P.
        destruct (length (bits_of (tlabel a')) <=? length Bx)%nat eqn:E; [discriminate|]. apply Nat.leb_gt in E.
        rewrite (len_bits _ Wa) in E. destruct (WF_parts _ Wa) as (_ & H & _). lia. }
      assert (Hnn : forall x, In x S -> pord Bx (bits_of (e_label x)) <> None).
      { intros x Hx. unfold pord. rewrite (H256 x Hx), (Hpx x Hx).
        assert (E : (256 <=? length Bx)%nat = false) by (apply Nat.leb_gt; lia). rewrite E. discriminate. }
      assert (Hso' : set_ok Bx S).
      { destruct Hso as (H1 & H2 & H3 & H4). repeat split; try assumption; try (apply H1; assumption). }
      assert (Hcpa : child_pre Bx e S false (Some a')).
      { cbn [child_pre tree_pre]. split; [exact Ca0|]. split; [apply pord_prefix; exact Pa0|]. split; [exact La0|].
        intros x y Hx Hy. apply filter_In in Hx. apply Dex; [apply Hx | cbn [leaves]; apply in_or_app; left; exact Hy]. }
      assert (Hcpb : child_pre Bx e S true (Some b')).
      { cbn [child_pre tree_pre]. split; [exact Cb0|]. split; [apply pord_prefix; exact Pb0|]. split; [exact Lb0|].
        intros x y Hx Hy. apply filter_In in Hx. apply Dex; [apply Hx | cbn [leaves]; apply in_or_app; right; exact Hy]. }
      assert (W0' : WF l0) by exact W0.
      destruct (finish_spec rec l0 le0 mde0 (Some a') (Some b') false 0 s e W0' C0 Hg Hso' Hnn Hcpa Hcpb (Hrec Bx (prefixb_length _ _ Pex)))
        as (a2 & b2 & k' & EF & Sa & Sb).
      fold S in EF, Sa, Sb. fold Bx in EF, Sa, Sb.
      destruct (slot_facts _ _ _ _ _ _ Sa He (conj Ca0 (conj Pa0 La0))) as (PA & FA).
      destruct (slot_facts _ _ _ _ _ _ Sb He (conj Cb0 (conj Pb0 Lb0))) as (PB & FB).
      destruct a2 as [ra|]; [|destruct FA as [FA _]; congruence]. destruct b2 as [rb|]; [|destruct FB as [FB _]; congruence].
      destruct FA as (Cra & Pra & Lra & Lrae & Mra). destruct FB as (Crb & Prb & Lrb & Lrbe & Mrb). cbn [omde] in Mra, Mrb.
      eexists. exists k'. split; [exact EF|].
      destruct (side_cover Bx S Hne Hnn) as [HL|HR].
      + (* the left side is updated *)
        specialize (Lrae HL).
        assert (HLE : le_upd (le_upd le0 e (filter (side Bx false) S)) e (filter (side Bx true) S) = e).
        { destruct (filter (side Bx false) S); [congruence|]. destruct (filter (side Bx true) S); cbn [le_upd]; lia. }
        assert (HMDE : mde_upd (mde_upd mde0 (filter (side Bx false) S) (omde e (Some a'))) (filter (side Bx true) S) (omde e (Some b')) = mde0).
        { cbn [omde]. assert (E0 : (mde0 =? 0) = false) by (apply N.eqb_neq; lia).
          assert (E1 : (N.min mde0 (t_min_desc a') =? 0) = false) by (apply N.eqb_neq; lia).
          destruct (filter (side Bx false) S); destruct (filter (side Bx true) S); cbn [mde_upd]; rewrite ?E0, ?E1; lia. }
        rewrite HLE, HMDE.
        split; [|split; [|split; [|split]]].
        * apply canon_node; try assumption; [rewrite Lrae; lia | rewrite Mra, Mrb; exact Emde].
        * exact Pex.
        * cbn [leaves oleaves]. cbn [oleaves] in PA, PB.
          eapply Permutation_trans; [apply Permutation_app; [exact PA | exact PB]|].
          eapply Permutation_trans; [apply perm_shuffle|]. apply Permutation_app_head. apply sides_perm. exact Hnn.
        * reflexivity.
        * reflexivity.
      + specialize (Lrbe HR).
        assert (HLE : le_upd (le_upd le0 e (filter (side Bx false) S)) e (filter (side Bx true) S) = e).
        { destruct (filter (side Bx true) S); [congruence|]. destruct (filter (side Bx false) S); cbn [le_upd]; lia. }
        assert (HMDE : mde_upd (mde_upd mde0 (filter (side Bx false) S) (omde e (Some a'))) (filter (side Bx true) S) (omde e (Some b')) = mde0).
        { cbn [omde]. assert (E0 : (mde0 =? 0) = false) by (apply N.eqb_neq; lia).
          assert (E1 : (N.min mde0 (t_min_desc a') =? 0) = false) by (apply N.eqb_neq; lia).
          destruct (filter (side Bx false) S); destruct (filter (side Bx true) S); cbn [mde_upd]; rewrite ?E0, ?E1; lia. }
        rewrite HLE, HMDE.
        split; [|split; [|split; [|split]]].
        * apply canon_node; try assumption; [rewrite Lrbe; lia | rewrite Mra, Mrb; exact Emde].
        * exact Pex.
        * cbn [leaves oleaves]. cbn [oleaves] in PA, PB.
          eapply Permutation_trans; [apply Permutation_app; [exact PA | exact PB]|].
          eapply Permutation_trans; [apply perm_shuffle|]. apply Permutation_app_head. apply sides_perm. exact Hnn.
        * reflexivity.
        * reflexivity.
  Qed.
End InsDescend.

(* ------------------------------------------------------------------ the theorem for subtrees *)
Section InsMain.
  Variable empty : nlabel.
  Hypothesis Ce : canonical empty = false.

  Theorem ins_spec : forall fuel q t s e,
    (257 <= fuel + length q)%nat -> 1 <= e -> good_set s -> eset_list s <> [] -> set_ok q (eset_list s) ->
    tree_pre q e t (eset_list s) ->
    exists r isn k, ins empty fuel t s e = Some (r, isn, k) /\ post q t (eset_list s) e r.
  Proof.
    induction fuel as [|f IH]; intros q t s e Hf He Hg Hne Hso Hpre.
    - exfalso. pose proof (q_le_256 q (eset_list s) Hne Hso). lia.
    - rewrite ins_unfold.
      assert (Hrec : forall B, (length q <= length B)%nat -> rec_ok (ins empty f) e B).
      { intros B HB dir t' s' Hg' Hne' Hso' Hpre'. apply IH; try assumption. rewrite app_length. cbn [length]. lia. }
      destruct t as [ex|].
      + (* an existing subtree *)
        unfold cur_node.
        set (l := get_longest_common_prefix empty (tlabel ex) (eset_lcp empty s)).
        destruct (some_setup empty Ce q s e ex Hg Hne Hso Hpre) as (_ & Lw & _ & _ & _ & _ & _). cbv zeta in Lw. fold l in Lw.
        destruct Hpre as (Cex & Pex & Lex & Dex). destruct (canon_label ex Cex) as [Wx _].
        destruct (llen l <? llen (tlabel ex)) eqn:E.
        * apply N.ltb_lt in E.
          assert (Hlt : (length (bits_of l) < length (bits_of (tlabel ex)))%nat) by (rewrite !len_bits by assumption; lia).
          destruct (ins_some_split empty Ce (ins empty f) q s e ex He Hg Hne Hso (conj Cex (conj Pex (conj Lex Dex))) Hrec Hlt)
            as (n & r & k & En & EF & Hp).
          fold l in En. rewrite En. exists r, true, k. split; [exact EF | exact Hp].
        * apply N.ltb_ge in E.
          assert (Hge : (length (bits_of (tlabel ex)) <= length (bits_of l))%nat) by (rewrite !len_bits by assumption; lia).
          destruct (ins_some_descend empty Ce (ins empty f) q s e ex He Hg Hne Hso (conj Cex (conj Pex (conj Lex Dex))) Hrec Hge)
            as (r & k & EF & Hp).
          exists r, false, k. split; [exact EF | exact Hp].
      + (* no existing subtree *)
        unfold cur_node. destruct (eset_list s) as [|x [|y r0]] eqn:ES; [congruence| |].
        * destruct (ins_none_single (ins empty f) q s e x ES Hso) as (k & EF & Hp).
          exists (Leaf (e_label x) (e_value x) e), true, k. split; [exact EF | exact Hp].
        * rewrite <- ES in Hso.
          destruct (ins_none_many empty Ce (ins empty f) q s e x y r0 He Hg ES Hso Hrec) as (r & k & EF & Hp).
          rewrite ES in Hp. exists r, true, k. split; [exact EF | exact Hp].
  Qed.
End InsMain.

(* ------------------------------------------------------------------ the element set built from a batch *)
From Akd Require Import InsertFacts.

Lemma insert_sorted_perm x l : Permutation (insert_sorted x l) (x :: l).
Proof.
  induction l as [|y l IH]; cbn [insert_sorted]; [apply Permutation_refl|].
  destruct (elem_leb x y); [apply Permutation_refl|].
  eapply Permutation_trans; [apply perm_skip; exact IH|]. apply perm_swap.
Qed.
Lemma sort_elems_perm l : Permutation (sort_elems l) l.
Proof.
  unfold sort_elems. induction l as [|x l IH]; cbn [fold_right]; [constructor|].
  eapply Permutation_trans; [apply insert_sorted_perm|]. constructor. exact IH.
Qed.

Lemma sorted_lt_bits l : elabs_ok l -> same_len l -> sorted_lt l -> sorted_bits l.
Proof.
  intros Hok [len Hlen]. induction 1 as [|x l Hx Hs IH]; [constructor|].
  constructor.
  - intros y Hy. specialize (Hx y Hy). unfold lab_lt in Hx.
    destruct (Hok x (or_introl eq_refl)) as [Wx Cx]. destruct (Hok y (or_intror Hy)) as [Wy Cy].
    rewrite nl_cmp_spec in Hx by assumption. unfold shortlex_cmp in Hx.
    rewrite !length_bits_of in Hx by assumption. rewrite (Hlen x (or_introl eq_refl)), (Hlen y (or_intror Hy)) in Hx.
    rewrite Nat.compare_refl in Hx. exact Hx.
  - apply IH; [intros z Hz; apply Hok; right; exact Hz | intros z Hz; apply Hlen; right; exact Hz].
Qed.

(* a batch as the directory hands it to the tree: distinct 256-bit labels *)
Definition batch_ok (elems : list elem) : Prop :=
  elabs_ok elems /\ (forall x, In x elems -> llen (e_label x) = 256) /\ NoDup (map e_label elems).

Lemma eset_from_good elems : elems <> [] -> batch_ok elems ->
  good_set (eset_from elems) /\ Permutation (eset_list (eset_from elems)) elems.
Proof.
  intros Hne (Hok & Hlen & Hnd). destruct elems as [|x r] eqn:E; [congruence|]. rewrite <- E in *.
  unfold eset_from. rewrite E. rewrite <- E.
  assert (Hall : forallb (fun y => llen (e_label y) =? llen (e_label x)) elems = true).
  { apply forallb_forall. intros y Hy. rewrite (Hlen y Hy), (Hlen x ltac:(rewrite E; left; reflexivity)). apply N.eqb_refl. }
  rewrite Hall. cbn [good_set eset_list]. split; [|apply sort_elems_perm].
  assert (Hok' : elabs_ok (sort_elems elems)) by (intros y Hy; apply Hok; apply sort_elems_in; exact Hy).
  assert (Hlen' : same_len (sort_elems elems)) by (exists 256; intros y Hy; apply Hlen; apply sort_elems_in; exact Hy).
  split; [|exact Hlen']. apply sorted_lt_bits; try assumption. apply sort_elems_sorted. split; [exact Hnd|].
  intros y Hy. destruct (Hok y Hy) as [Wy _]. destruct (WF_parts _ Wy) as (H & _). exact H.
Qed.

Lemma set_ok_perm q S S' : Permutation S S' -> set_ok q S' -> set_ok q S.
Proof.
  intros P (Hok & Hlen & Hnd & Hq). repeat split.
  - apply Hok. eapply Permutation_in; eassumption.
  - apply Hok. eapply Permutation_in; eassumption.
  - intros x Hx. apply Hlen. eapply Permutation_in; eassumption.
  - eapply Permutation_NoDup; [apply Permutation_sym; apply Permutation_map; exact P | exact Hnd].
  - intros x Hx. apply Hq. eapply Permutation_in; eassumption.
Qed.

(* ------------------------------------------------------------------ the root *)
Definition root_inv (latest : N) (t : tree) : Prop := canon_root t /\ leaves_ok latest (leaves t).

Lemma leaves_ok_mono e e' ls : e <= e' -> leaves_ok e ls -> leaves_ok e' ls.
Proof. intros H L y Hy. destruct (L y Hy) as (A & B & C). repeat split; try assumption. lia. Qed.

Section InsRoot.
  Variable empty : nlabel.
  Hypothesis Ce : canonical empty = false.

  (* the tree may already hold leaves of the epoch being inserted (sub-batches of one epoch) *)
  Theorem ins_root_le latest root s e :
    root_inv latest root -> latest <= e -> 1 <= e -> good_set s -> eset_list s <> [] -> set_ok [] (eset_list s) ->
    (forall x y, In x (eset_list s) -> In y (leaves root) -> e_label x <> lf_label y) ->
    exists r isn k, ins empty ins_fuel (Some root) s e = Some (r, isn, k) /\
                    canon_root r /\ Permutation (leaves r) (leaves root ++ map (lf_of e) (eset_list s)).
  Proof.
    intros [Hc Hl] Hlt He Hg Hne Hso Hdis. set (S := eset_list s) in *.
    destruct root as [|l le mde a b]; [destruct Hc|]. destruct Hc as (-> & Ca & Cb & Ele & Emde).
    assert (Hla : leaves_ok e (oleaves a)).
    { apply (leaves_ok_mono latest e); [lia|]. intros z Hz. apply Hl. cbn [leaves]. apply in_or_app. left. destruct a; [exact Hz | destruct Hz]. }
    assert (Hlb : leaves_ok e (oleaves b)).
    { apply (leaves_ok_mono latest e); [lia|]. intros z Hz. apply Hl. cbn [leaves]. apply in_or_app. right. destruct b; [exact Hz | destruct Hz]. }
    unfold ins_fuel. change 300%nat with (Datatypes.S 299). rewrite ins_unfold. unfold cur_node. cbn [tlabel].
    assert (E : (llen (get_longest_common_prefix empty nl_root (eset_lcp empty s)) <? llen nl_root) = false).
    { apply N.ltb_ge. cbn [llen nl_root]. lia. }
    rewrite E.
    assert (Wr : WF nl_root) by (apply nl_root_wf). assert (Cr : canonical nl_root = true) by (apply nl_root_wf).
    assert (Hso' : set_ok (bits_of nl_root) S) by (rewrite bits_of_root; exact Hso).
    assert (H256 : forall x, In x S -> length (bits_of (e_label x)) = 256%nat).
    { intros x Hx. destruct Hso as (Hok & Hlen & _). rewrite len_bits by (apply Hok; exact Hx). rewrite (Hlen x Hx). reflexivity. }
    assert (Hnn : forall x, In x S -> pord (bits_of nl_root) (bits_of (e_label x)) <> None).
    { intros x Hx. rewrite bits_of_root. unfold pord. rewrite (H256 x Hx). cbn. discriminate. }
    assert (Hcpa : child_pre (bits_of nl_root) e S false a).
    { destruct a as [c|]; [|exact I]. destruct Ca as [Pc Cc]. cbn [child_pre tree_pre]. rewrite bits_of_root.
      split; [exact Cc|]. split; [apply pord_prefix; exact Pc|]. split; [exact Hla|].
      intros x y Hx Hy. apply filter_In in Hx. apply Hdis; [apply Hx | cbn [leaves]; apply in_or_app; left; exact Hy]. }
    assert (Hcpb : child_pre (bits_of nl_root) e S true b).
    { destruct b as [c|]; [|exact I]. destruct Cb as [Pc Cc]. cbn [child_pre tree_pre]. rewrite bits_of_root.
      split; [exact Cc|]. split; [apply pord_prefix; exact Pc|]. split; [exact Hlb|].
      intros x y Hx Hy. apply filter_In in Hx. apply Hdis; [apply Hx | cbn [leaves]; apply in_or_app; right; exact Hy]. }
    assert (Hrec : rec_ok (ins empty 299) e (bits_of nl_root)).
    { intros dir t' s' Hg' Hne' Hso2 Hpre'. apply (ins_spec empty Ce); try assumption. rewrite app_length. cbn [length]. lia. }
    destruct (finish_spec (ins empty 299) nl_root le mde a b false 0 s e Wr Cr Hg Hso' Hnn Hcpa Hcpb Hrec) as (a2 & b2 & k' & EF & Sa & Sb).
    fold S in EF, Sa, Sb. rewrite bits_of_root in EF, Sa, Sb.
    assert (Fa : match a with Some c0 => canon c0 /\ pord [] (bits_of (tlabel c0)) = Some false /\ leaves_ok e (leaves c0) | None => True end).
    { destruct a as [c|]; [|exact I]. destruct Ca as [Pc Cc]. split; [exact Cc | split; [exact Pc | exact Hla]]. }
    assert (Fb : match b with Some c0 => canon c0 /\ pord [] (bits_of (tlabel c0)) = Some true /\ leaves_ok e (leaves c0) | None => True end).
    { destruct b as [c|]; [|exact I]. destruct Cb as [Pc Cc]. split; [exact Cc | split; [exact Pc | exact Hlb]]. }
    destruct (slot_facts _ _ _ _ _ _ Sa He Fa) as (PA & FA). destruct (slot_facts _ _ _ _ _ _ Sb He Fb) as (PB & FB).
    eexists. exists false, k'. split; [exact EF|].
    (* epochs of the old children *)
    assert (Ba : match a with Some c => t_last_epoch c <= e /\ 1 <= t_min_desc c /\ t_min_desc c <= e | None => True end).
    { destruct a as [c|]; [|exact I]. destruct Ca as [_ Cc]. apply canon_epochs; [exact Cc | exact Hla]. }
    assert (Bb : match b with Some c => t_last_epoch c <= e /\ 1 <= t_min_desc c /\ t_min_desc c <= e | None => True end).
    { destruct b as [c|]; [|exact I]. destruct Cb as [_ Cc]. apply canon_epochs; [exact Cc | exact Hlb]. }
    destruct (side_cover [] S Hne ltac:(rewrite <- bits_of_root; exact Hnn)) as [HL|HR].
    - split.
      + cbn [canon_root]. split; [reflexivity|].
        destruct Sa as [[E0 ->]|[_ (ra & -> & Pra)]]; [congruence|].
        destruct FA as (Cra & Pora & Lra & Lrae & Mra). specialize (Lrae HL).
        split; [cbn [canon_child]; split; assumption|].
        destruct b2 as [rb|].
        * destruct FB as (Crb & Porb & Lrb & Lrbe & Mrb). split; [cbn [canon_child]; split; assumption|].
          cbn [olast omin]. rewrite Lrae, Mra, Mrb.
          destruct (filter (side [] false) S) as [|x0 SL]; [congruence|].
          destruct (filter (side [] true) S) as [|y0 SR] eqn:ESR.
          -- destruct Sb as [[_ Eb]|[Hx _]]; [|congruence]. subst b. destruct Bb as (B1 & B2 & B3).
             destruct a as [ca|]; cbn [le_upd mde_upd omde olast omin] in *.
             ++ destruct Ba as (A1 & A2 & A3). subst le mde.
                assert (E1 : (N.min (t_min_desc ca) (t_min_desc rb) =? 0) = false) by (apply N.eqb_neq; lia). rewrite E1. split; lia.
             ++ subst le mde. assert (E1 : (t_min_desc rb =? 0) = false) by (apply N.eqb_neq; lia). rewrite E1. split; lia.
          -- specialize (Lrbe ltac:(discriminate)).
             destruct a as [ca|]; destruct b as [cb|]; cbn [le_upd mde_upd omde olast omin] in *; subst le mde.
             ++ destruct Ba as (A1 & A2 & A3). destruct Bb as (B1 & B2 & B3).
                assert (E1 : (N.min (t_min_desc ca) (t_min_desc cb) =? 0) = false) by (apply N.eqb_neq; lia). rewrite E1.
                assert (E2 : (N.min (N.min (t_min_desc ca) (t_min_desc cb)) (t_min_desc ca) =? 0) = false) by (apply N.eqb_neq; lia). rewrite E2. split; lia.
             ++ destruct Ba as (A1 & A2 & A3).
                assert (E1 : (t_min_desc ca =? 0) = false) by (apply N.eqb_neq; lia). rewrite E1.
                assert (E2 : (N.min (t_min_desc ca) (t_min_desc ca) =? 0) = false) by (apply N.eqb_neq; lia). rewrite E2. split; lia.
             ++ destruct Bb as (B1 & B2 & B3).
                assert (E1 : (t_min_desc cb =? 0) = false) by (apply N.eqb_neq; lia). rewrite E1.
                assert (E2 : (N.min (t_min_desc cb) e =? 0) = false) by (apply N.eqb_neq; lia). rewrite E2. split; lia.
             ++ change (0 =? 0) with true. cbv iota. assert (E2 : (e =? 0) = false) by (apply N.eqb_neq; lia). rewrite E2. split; lia.
        * destruct FB as [-> ESR]. split; [exact I|]. rewrite ESR.
          destruct (filter (side [] false) S) as [|x0 SL]; [congruence|].
          cbn [olast omin le_upd mde_upd omde]. rewrite Lrae, Mra.
          destruct a as [ca|]; cbn [omde olast omin] in *; subst le mde.
          -- destruct Ba as (A1 & A2 & A3). assert (E1 : (t_min_desc ca =? 0) = false) by (apply N.eqb_neq; lia). rewrite E1. split; lia.
          -- change (0 =? 0) with true. cbv iota. split; lia.
      + cbn [leaves]. destruct a2, b2, a, b; cbn [oleaves] in PA, PB |- *;
          (eapply Permutation_trans; [apply Permutation_app; [exact PA | exact PB]|]);
          (eapply Permutation_trans; [apply perm_shuffle|]); apply Permutation_app_head; apply sides_perm;
          intros x Hx; rewrite <- bits_of_root; apply Hnn; exact Hx.
    - split.
      + cbn [canon_root]. split; [reflexivity|].
        destruct Sb as [[E0 ->]|[_ (rb & -> & Prb)]]; [congruence|].
        destruct FB as (Crb & Porb & Lrb & Lrbe & Mrb). specialize (Lrbe HR).
        destruct a2 as [ra|].
        * destruct FA as (Cra & Pora & Lra & Lrae & Mra). split; [cbn [canon_child]; split; assumption|].
          split; [cbn [canon_child]; split; assumption|].
          cbn [olast omin]. rewrite Lrbe, Mra, Mrb.
          destruct (filter (side [] true) S) as [|y0 SR]; [congruence|].
          destruct (filter (side [] false) S) as [|x0 SL] eqn:ESL.
          -- destruct Sa as [[_ Ea]|[Hx _]]; [|congruence]. subst a. destruct Ba as (A1 & A2 & A3).
             destruct b as [cb|]; cbn [le_upd mde_upd omde olast omin] in *.
             ++ destruct Bb as (B1 & B2 & B3). subst le mde.
                assert (E1 : (N.min (t_min_desc ra) (t_min_desc cb) =? 0) = false) by (apply N.eqb_neq; lia). rewrite E1. split; lia.
             ++ subst le mde. assert (E1 : (t_min_desc ra =? 0) = false) by (apply N.eqb_neq; lia). rewrite E1. split; lia.
          -- specialize (Lrae ltac:(discriminate)).
             destruct a as [ca|]; destruct b as [cb|]; cbn [le_upd mde_upd omde olast omin] in *; subst le mde.
             ++ destruct Ba as (A1 & A2 & A3). destruct Bb as (B1 & B2 & B3).
                assert (E1 : (N.min (t_min_desc ca) (t_min_desc cb) =? 0) = false) by (apply N.eqb_neq; lia). rewrite E1.
                assert (E2 : (N.min (N.min (t_min_desc ca) (t_min_desc cb)) (t_min_desc ca) =? 0) = false) by (apply N.eqb_neq; lia). rewrite E2. split; lia.
             ++ destruct Ba as (A1 & A2 & A3).
                assert (E1 : (t_min_desc ca =? 0) = false) by (apply N.eqb_neq; lia). rewrite E1.
                assert (E2 : (N.min (t_min_desc ca) (t_min_desc ca) =? 0) = false) by (apply N.eqb_neq; lia). rewrite E2. split; lia.
             ++ destruct Bb as (B1 & B2 & B3).
                assert (E1 : (t_min_desc cb =? 0) = false) by (apply N.eqb_neq; lia). rewrite E1.
                assert (E2 : (N.min (t_min_desc cb) e =? 0) = false) by (apply N.eqb_neq; lia). rewrite E2. split; lia.
             ++ change (0 =? 0) with true. cbv iota. assert (E2 : (e =? 0) = false) by (apply N.eqb_neq; lia). rewrite E2. split; lia.
        * destruct FA as [-> ESL]. split; [exact I|]. split; [cbn [canon_child]; split; assumption|]. rewrite ESL.
          destruct (filter (side [] true) S) as [|y0 SR]; [congruence|].
          cbn [olast omin le_upd mde_upd omde]. rewrite Lrbe, Mrb.
          destruct b as [cb|]; cbn [omde olast omin] in *; subst le mde.
          -- destruct Bb as (B1 & B2 & B3). assert (E1 : (t_min_desc cb =? 0) = false) by (apply N.eqb_neq; lia). rewrite E1. split; lia.
          -- change (0 =? 0) with true. cbv iota. split; lia.
      + cbn [leaves]. destruct a2, b2, a, b; cbn [oleaves] in PA, PB |- *;
          (eapply Permutation_trans; [apply Permutation_app; [exact PA | exact PB]|]);
          (eapply Permutation_trans; [apply perm_shuffle|]); apply Permutation_app_head; apply sides_perm;
          intros x Hx; rewrite <- bits_of_root; apply Hnn; exact Hx.
  Qed.

  Theorem ins_root latest root s e :
    root_inv latest root -> latest < e -> good_set s -> eset_list s <> [] -> set_ok [] (eset_list s) ->
    (forall x y, In x (eset_list s) -> In y (leaves root) -> e_label x <> lf_label y) ->
    exists r isn k, ins empty ins_fuel (Some root) s e = Some (r, isn, k) /\
                    canon_root r /\ Permutation (leaves r) (leaves root ++ map (lf_of e) (eset_list s)).
  Proof. intros Hr Hlt. apply (ins_root_le latest root s e Hr); lia. Qed.
End InsRoot.

(* ------------------------------------------------------------------ batches and histories *)
Lemma NoDup_app_disj {A} (l1 l2 : list A) a : NoDup (l1 ++ l2) -> In a l1 -> In a l2 -> False.
Proof.
  induction l1 as [|x l1 IH]; intros Hn H1 H2; [destruct H1|]. cbn [app] in Hn. inversion Hn as [|? ? Hnot Hn']; subst.
  destruct H1 as [->|H1]; [apply Hnot; apply in_or_app; right; exact H2 | exact (IH Hn' H1 H2)].
Qed.

Section Batches.
  Variable empty : nlabel.
  Hypothesis Ce : canonical empty = false.

  (* [bound]: the newest leaf the tree may already hold - at most the epoch about to be inserted *)
  Theorem batch_insert_spec_gen root latest bound num elems :
    root_inv bound root -> bound <= latest + 1 -> batch_ok elems ->
    (forall x y, In x elems -> In y (leaves root) -> e_label x <> lf_label y) ->
    exists r num', batch_insert empty (root, latest, num) elems = Some (r, latest + 1, num') /\
                   root_inv (latest + 1) r /\
                   Permutation (leaves r) (leaves root ++ map (lf_of (latest + 1)) elems).
  Proof.
    intros [Hc Hl] Hbound Hb Hdis. unfold batch_insert.
    destruct elems as [|x0 r0] eqn:EE.
    - cbn [eset_from eset_is_empty eset_list]. exists root, num. split; [reflexivity|]. split.
      + split; [exact Hc | apply (leaves_ok_mono bound); [lia | exact Hl]].
      + cbn [map]. rewrite app_nil_r. apply Permutation_refl.
    - rewrite <- EE in *. assert (Hne : elems <> []) by (rewrite EE; discriminate).
      destruct (eset_from_good elems Hne Hb) as [Hg HP].
      set (s := eset_from elems) in *.
      assert (HneS : eset_list s <> []).
      { intros E0. rewrite E0 in HP. apply Permutation_nil in HP. congruence. }
      assert (EIE : eset_is_empty s = false).
      { destruct (eset_is_empty s) eqn:E0; [|reflexivity]. apply eset_is_empty_iff in E0. congruence. }
      rewrite EIE.
      assert (Hso : set_ok [] (eset_list s)).
      { apply (set_ok_perm [] _ elems HP). destruct Hb as (B1 & B2 & B3). repeat split; try assumption; try (apply B1; assumption). }
      assert (Hdis' : forall x y, In x (eset_list s) -> In y (leaves root) -> e_label x <> lf_label y).
      { intros x y Hx Hy. apply Hdis; [eapply Permutation_in; eassumption | exact Hy]. }
      destruct (ins_root_le empty Ce bound root s (latest + 1) (conj Hc Hl) Hbound ltac:(lia) Hg HneS Hso Hdis') as (r & isn & k & EI & Cr & Pr).
      rewrite EI. exists r, (num + k). split; [reflexivity|].
      assert (Pfinal : Permutation (leaves r) (leaves root ++ map (lf_of (latest + 1)) elems)).
      { eapply Permutation_trans; [exact Pr|]. apply Permutation_app_head. apply Permutation_map. exact HP. }
      split; [|exact Pfinal]. split; [exact Cr|].
      apply (leaves_ok_perm _ _ _ Pfinal). apply leaves_ok_app.
      + apply (leaves_ok_mono bound); [lia | exact Hl].
      + apply leaves_ok_new; [lia | apply Hb].
  Qed.

  Theorem batch_insert_spec root latest num elems :
    root_inv latest root -> batch_ok elems ->
    (forall x y, In x elems -> In y (leaves root) -> e_label x <> lf_label y) ->
    exists r num', batch_insert empty (root, latest, num) elems = Some (r, latest + 1, num') /\
                   root_inv (latest + 1) r /\
                   Permutation (leaves r) (leaves root ++ map (lf_of (latest + 1)) elems).
  Proof. intros Hr. apply (batch_insert_spec_gen root latest latest num elems Hr). lia. Qed.

  Lemma nodup_app_left {A} (l1 l2 : list A) : NoDup (l1 ++ l2) -> NoDup l1.
  Proof.
    induction l1 as [|a l1 IH]; intros H; [constructor|]. cbn [app] in H. inversion H as [|? ? Hn Hr]; subst.
    constructor; [intros Hin; apply Hn; apply in_or_app; left; exact Hin | apply IH; exact Hr].
  Qed.
  Lemma nodup_app_right {A} (l1 l2 : list A) : NoDup (l1 ++ l2) -> NoDup l2.
  Proof. induction l1 as [|a l1 IH]; intros H; [exact H|]. cbn [app] in H. inversion H; subst. apply IH. assumption. Qed.

  Lemma batch_ok_app b1 b2 : batch_ok (b1 ++ b2) -> batch_ok b1 /\ batch_ok b2 /\
    (forall x y, In x b1 -> In y b2 -> e_label x <> e_label y).
  Proof.
    intros (B1 & B2 & B3). rewrite map_app in B3.
    split; [|split].
    - split; [|split].
      + intros x Hx. apply B1. apply in_or_app. left. exact Hx.
      + intros x Hx. apply B2. apply in_or_app. left. exact Hx.
      + apply nodup_app_left in B3. exact B3.
    - split; [|split].
      + intros x Hx. apply B1. apply in_or_app. right. exact Hx.
      + intros x Hx. apply B2. apply in_or_app. right. exact Hx.
      + apply nodup_app_right in B3. exact B3.
    - intros x y Hx Hy E. apply (NoDup_app_disj _ _ (e_label x) B3); [apply in_map; exact Hx | rewrite E; apply in_map; exact Hy].
  Qed.

  (* C14: one epoch inserted in two pieces (the epoch counter put back in between, which is how a
     caller inserts sub-batches of one epoch) gives the tree of the single batch *)
  Theorem batch_insert_split root latest bound num b1 b2 :
    root_inv bound root -> bound <= latest + 1 -> batch_ok (b1 ++ b2) ->
    (forall x y, In x (b1 ++ b2) -> In y (leaves root) -> e_label x <> lf_label y) ->
    exists r1 n1 r n2 n12,
      batch_insert empty (root, latest, num) b1 = Some (r1, latest + 1, n1) /\
      batch_insert empty (r1, latest, n1) b2 = Some (r, latest + 1, n2) /\
      batch_insert empty (root, latest, num) (b1 ++ b2) = Some (r, latest + 1, n12) /\
      root_inv (latest + 1) r1 /\
      (forall x y, In x b2 -> In y (leaves r1) -> e_label x <> lf_label y).
  Proof.
    intros Hinv Hbound Hb Hdis. destruct (batch_ok_app b1 b2 Hb) as (Hb1 & Hb2 & Hd12).
    destruct (batch_insert_spec_gen root latest bound num b1 Hinv Hbound Hb1) as (r1 & n1 & E1 & I1 & P1).
    { intros x y Hx. apply Hdis. apply in_or_app. left. exact Hx. }
    assert (Hdis2 : forall x y, In x b2 -> In y (leaves r1) -> e_label x <> lf_label y).
    { intros x y Hx Hy. apply (Permutation_in _ P1) in Hy. apply in_app_or in Hy. destruct Hy as [Hy|Hy].
      - apply Hdis; [apply in_or_app; right; exact Hx | exact Hy].
      - apply in_map_iff in Hy. destruct Hy as (z & <- & Hz). cbn [lf_of lf_label]. intros E. apply (Hd12 z x Hz Hx). symmetry. exact E. }
    destruct (batch_insert_spec_gen r1 latest (latest + 1) n1 b2 I1 ltac:(lia) Hb2 Hdis2) as (r & n2 & E2 & I2 & P2).
    destruct (batch_insert_spec_gen root latest bound num (b1 ++ b2) Hinv Hbound Hb Hdis) as (r12 & n12 & E12 & I12 & P12).
    exists r1, n1, r, n2, n12. split; [exact E1|]. split; [exact E2|]. split; [|split; [exact I1 | exact Hdis2]].
    rewrite E12. f_equal. f_equal. f_equal.
    rewrite <- (canon_root_spec r (proj1 I2)), <- (canon_root_spec r12 (proj1 I12)). unfold sleaves.
    apply spec_root_perm. apply Permutation_map.
    eapply Permutation_trans; [exact P12|]. apply Permutation_sym. eapply Permutation_trans; [exact P2|].
    rewrite map_app, app_assoc. apply Permutation_app_tail. exact P1.
  Qed.

  (* ... and in any number of pieces *)
  Fixpoint run_pieces (root : tree) (latest num : N) (ps : list (list elem)) : option (tree * N) :=
    match ps with
    | [] => Some (root, num)
    | p :: rest =>
      match batch_insert empty (root, latest, num) p with
      | Some (r, _, n) => run_pieces r latest n rest
      | None => None
      end
    end.

  Theorem pieces_as_one : forall ps root latest bound num,
    root_inv bound root -> bound <= latest + 1 -> batch_ok (concat ps) ->
    (forall x y, In x (concat ps) -> In y (leaves root) -> e_label x <> lf_label y) ->
    exists r n n', run_pieces root latest num ps = Some (r, n) /\
                   batch_insert empty (root, latest, num) (concat ps) = Some (r, latest + 1, n').
  Proof.
    induction ps as [|p rest IH]; intros root latest bound num Hinv Hbound Hb Hdis.
    - cbn [run_pieces concat]. exists root, num, num. split; reflexivity.
    - cbn [run_pieces concat] in *.
      destruct (batch_insert_split root latest bound num p (concat rest) Hinv Hbound Hb Hdis)
        as (r1 & n1 & r & n2 & n12 & E1 & E2 & E12 & I1 & Hdis2).
      rewrite E1.
      destruct (batch_ok_app _ _ Hb) as (_ & Hb2 & _).
      destruct (IH r1 latest (latest + 1) n1 I1 ltac:(lia) Hb2 Hdis2) as (r' & n & n' & ER & EB).
      rewrite E2 in EB. injection EB as <- _.
      exists r, n, n12. split; [exact ER | exact E12].
  Qed.
  (* a publish history at the tree level: the batches of epochs 1, 2, ... *)
  Fixpoint run_batches (st : tree * N * N) (bs : list (list elem)) : option (tree * N * N) :=
    match bs with
    | [] => Some st
    | b :: rest => match batch_insert empty st b with Some st' => run_batches st' rest | None => None end
    end.
  Fixpoint hist_leaves (k : N) (bs : list (list elem)) : list leaf :=
    match bs with
    | [] => []
    | b :: rest => map (lf_of k) b ++ hist_leaves (k + 1) rest
    end.

  Lemma run_batches_spec : forall bs root latest num,
    root_inv latest root -> (forall b, In b bs -> batch_ok b) ->
    NoDup (map lf_label (leaves root) ++ map e_label (concat bs)) ->
    exists t num', run_batches (root, latest, num) bs = Some (t, latest + N.of_nat (length bs), num') /\
                   root_inv (latest + N.of_nat (length bs)) t /\
                   Permutation (leaves t) (leaves root ++ hist_leaves (latest + 1) bs).
  Proof.
    induction bs as [|b rest IH]; intros root latest num Hinv Hok Hnd.
    - exists root, num. cbn [run_batches length hist_leaves]. rewrite N.add_0_r, app_nil_r. split; [reflexivity|]. split; [exact Hinv | apply Permutation_refl].
    - cbn [run_batches]. cbn [concat] in Hnd. rewrite map_app in Hnd.
      assert (Hdis : forall x y, In x b -> In y (leaves root) -> e_label x <> lf_label y).
      { intros x y Hx Hy E. apply (NoDup_app_disj _ _ (lf_label y) Hnd).
        - apply in_map. exact Hy.
        - apply in_or_app. left. rewrite <- E. apply in_map. exact Hx. }
      destruct (batch_insert_spec root latest num b Hinv (Hok b (or_introl eq_refl)) Hdis) as (r & num1 & EB & Hinv1 & P1).
      rewrite EB.
      assert (Hnd1 : NoDup (map lf_label (leaves r) ++ map e_label (concat rest))).
      { eapply Permutation_NoDup; [|exact Hnd]. rewrite app_assoc. apply Permutation_app_tail.
        apply Permutation_sym. eapply Permutation_trans; [apply Permutation_map; exact P1|].
        rewrite map_app. apply Permutation_app_head. rewrite map_map. cbn [lf_of lf_label]. apply Permutation_refl. }
      destruct (IH r (latest + 1) num1 Hinv1 (fun b' Hb' => Hok b' (or_intror Hb')) Hnd1) as (t & num' & ER & Hinv2 & P2).
      exists t, num'. cbn [length hist_leaves]. rewrite Nat2N.inj_succ.
      replace (latest + N.succ (N.of_nat (length rest))) with (latest + 1 + N.of_nat (length rest)) by lia.
      split; [exact ER|]. split; [exact Hinv2|].
      eapply Permutation_trans; [exact P2|]. rewrite app_assoc. apply Permutation_app_tail. exact P1.
  Qed.
End Batches.

(* ------------------------------------------------------------------ C01 / C14 at the tree level *)
Section Final.
  Variable empty : nlabel.
  Hypothesis Ce : canonical empty = false.

  Lemma azks_new_inv : root_inv 0 empty_root.
  Proof.
    split; [|intros y []]. cbn [canon_root empty_root]. repeat split; reflexivity.
  Qed.

  (* after any history of batches of distinct 256-bit labels, inserted by the model of
     batch_insert_nodes, the root hash is the hash of the specification trie over exactly the leaves
     the history prescribes (label, value, epoch of insertion) - for every hash configuration *)
  Theorem azks_history_is_spec (cfg : config) bs :
    (forall b, In b bs -> batch_ok b) -> NoDup (map e_label (concat bs)) ->
    exists t num, run_batches empty azks_new bs = Some (t, N.of_nat (length bs), num) /\
                  root_inv (N.of_nat (length bs)) t /\
                  Permutation (leaves t) (hist_leaves 1 bs) /\
                  root_hash cfg true t = spec_root_hash cfg (map sleaf_of (hist_leaves 1 bs)).
  Proof.
    intros Hok Hnd. unfold azks_new.
    destruct (run_batches_spec empty Ce bs empty_root 0 1 azks_new_inv Hok Hnd) as (t & num & ER & Hinv & HP).
    cbn [leaves empty_root app] in HP. rewrite N.add_0_l in ER, Hinv. change (0 + 1) with 1 in HP.
    exists t, num. split; [exact ER|]. split; [exact Hinv|]. split; [exact HP|].
    rewrite (canon_root_hash cfg t (proj1 Hinv)). unfold spec_root_hash, sleaves.
    rewrite (spec_root_perm _ _ (Permutation_map sleaf_of HP)). reflexivity.
  Qed.

  (* C14: the order of the elements inside each batch is irrelevant *)
  Theorem azks_history_order (cfg : config) bs bs' :
    (forall b, In b bs -> batch_ok b) -> NoDup (map e_label (concat bs)) ->
    Forall2 (@Permutation elem) bs bs' ->
    exists t t' num num', run_batches empty azks_new bs = Some (t, N.of_nat (length bs), num) /\
                          run_batches empty azks_new bs' = Some (t', N.of_nat (length bs), num') /\ t = t'.
  Proof.
    intros Hok Hnd HF.
    assert (Hok' : forall b, In b bs' -> batch_ok b).
    { clear Hnd. induction HF as [|b b' r r' Hb _ IH]; intros c Hc; [destruct Hc|]. destruct Hc as [<-|Hc].
      - destruct (Hok b (or_introl eq_refl)) as (B1 & B2 & B3). repeat split.
        + apply B1. eapply Permutation_in; [apply Permutation_sym; exact Hb | exact H].
        + apply B1. eapply Permutation_in; [apply Permutation_sym; exact Hb | exact H].
        + intros x Hx. apply B2. eapply Permutation_in; [apply Permutation_sym; exact Hb | exact Hx].
        + eapply Permutation_NoDup; [apply Permutation_map; exact Hb | exact B3].
      - apply IH; [intros d Hd; apply Hok; right; exact Hd | exact Hc]. }
    assert (Hcat : Permutation (concat bs) (concat bs')).
    { clear Hok Hok' Hnd. induction HF as [|b b' r r' Hb _ IH]; [constructor|]. cbn [concat]. apply Permutation_app; assumption. }
    assert (Hnd' : NoDup (map e_label (concat bs'))) by (eapply Permutation_NoDup; [apply Permutation_map; exact Hcat | exact Hnd]).
    assert (Hlen : length bs' = length bs).
    { clear - HF. induction HF as [|b b' r r' _ _ IH]; [reflexivity|]. cbn [length]. rewrite IH. reflexivity. }
    assert (Hhl : forall k, Permutation (hist_leaves k bs) (hist_leaves k bs')).
    { clear Hok Hok' Hnd Hnd' Hcat Hlen. induction HF as [|b b' r r' Hb _ IH]; intros k; [constructor|]. cbn [hist_leaves].
      apply Permutation_app; [apply Permutation_map; exact Hb | apply IH]. }
    destruct (azks_history_is_spec cfg bs Hok Hnd) as (t & num & E1 & I1 & P1 & _).
    destruct (azks_history_is_spec cfg bs' Hok' Hnd') as (t' & num' & E2 & I2 & P2 & _).
    rewrite Hlen in E2. exists t, t', num, num'. split; [exact E1|]. split; [exact E2|].
    rewrite <- (canon_root_spec t (proj1 I1)), <- (canon_root_spec t' (proj1 I2)). unfold sleaves.
    apply spec_root_perm. apply Permutation_map.
    eapply Permutation_trans; [exact P1|]. eapply Permutation_trans; [apply Hhl|]. apply Permutation_sym. exact P2.
  Qed.
End Final.
