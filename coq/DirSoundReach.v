(* C06 / C07 / C08 at the directory level: the "honestly maintained tree" which the soundness theorems of
   DirSound.v take as a premise is what the directory model builds.  In every state reachable by
   publish requests every leaf of the tree is the fresh leaf of a stored state or the stale leaf that
   was inserted together with a stored state; from this (and the history invariant of HistEnd.v) all
   premises of the soundness theorems about the tree are discharged, so that they speak about the
   directory itself: whatever lookup or history proof an adversary presents against the epoch hash
   of a reachable state, if it verifies it tells the truth about the label. *)
From Coq Require Import List Bool Arith NArith Lia Permutation.
From Akd Require Import Directory Verify.
From Akd Require Import Bits NodeLabel NodeLabelFacts BitsLabel ElemSet Hashing Tree TreeFacts Binding Insert Spec SpecFacts
     InsertRefine Marker DirFacts DirRefine HistComplete LookupComplete HistEnd DirSound.
From Akd Require AuditSound.
Import ListNotations.
Open Scope N_scope.

Section Forms.
  Variable cfg : config.
  Variable ck : bytes.
  Variable vrf_label : bytes -> bool -> N -> option nlabel.
  Hypothesis Ce : canonical (c_empty_label cfg) = false.
  Hypothesis vrf_good : forall l f v nl, vrf_label l f v = Some nl -> WF nl /\ canonical nl = true /\ llen nl = 256.
  Hypothesis vrf_inj : forall l f v l' f' v' nl, vrf_label l f v = Some nl -> vrf_label l' f' v' = Some nl -> l = l' /\ f = f' /\ v = v'.

  Notation publish := (Directory.publish cfg ck vrf_label).
  Notation fresh_leaf := (fresh_leaf cfg ck vrf_label).

  Definition leaf_form (st : dstate) (y : leaf) : Prop :=
    (exists s, In s (d_states st) /\ fresh_leaf s = Some y) \/
    (exists s nl, In s (d_states st) /\ 1 < vr_version s /\ vrf_label (vr_user s) false (vr_version s - 1) = Some nl /\
                  y = LF nl (c_stale_value cfg) (vr_epoch s)).

  Definition elem_form (n : vrec) (x : elem) : Prop :=
    (exists nl, vrf_label (vr_user n) true (vr_version n) = Some nl /\ x = El nl (fresh_value cfg ck nl (vr_version n) (vr_value n))) \/
    (1 < vr_version n /\ exists sl, vrf_label (vr_user n) false (vr_version n - 1) = Some sl /\ x = El sl (c_stale_value cfg)).

  Lemma derive_update_forms st l v es ns : derive_update cfg ck vrf_label st (l, v) = Some (es, ns) ->
    (forall s, latest_state (d_states st) l (d_epoch st) = Some s -> 1 <= vr_version s) ->
    forall x, In x es -> exists n, In n ns /\ elem_form n x.
  Proof.
    unfold Directory.derive_update. destruct (latest_state (d_states st) l (d_epoch st)) as [s|].
    - destruct (bytes_eqb (vr_value s) v); [intros [= <- <-] _ x []|].
      destruct (vrf_label l false (vr_version s)) as [sl|] eqn:Es; [|discriminate].
      destruct (vrf_label l true (vr_version s + 1)) as [fl|] eqn:Ef; [|discriminate].
      intros [= <- <-] Hv x Hx. specialize (Hv s eq_refl). eexists. split; [left; reflexivity|].
      destruct Hx as [<-|[<-|[]]].
      + right. cbn [vr_version vr_user]. split; [lia|]. exists sl. split; [|reflexivity].
        replace (vr_version s + 1 - 1) with (vr_version s) by lia. exact Es.
      + left. cbn [vr_version vr_user vr_value]. exists fl. split; [exact Ef | reflexivity].
    - destruct (vrf_label l true 1) as [nl|] eqn:Ef; [|discriminate].
      intros [= <- <-] _ x [<-|[]]. eexists. split; [left; reflexivity|]. left. cbn [vr_version vr_user vr_value]. exists nl. split; [exact Ef | reflexivity].
  Qed.

  Lemma derive_all_forms st : forall upds elems news, derive_all cfg ck vrf_label st upds = Some (elems, news) ->
    (forall l s, latest_state (d_states st) l (d_epoch st) = Some s -> 1 <= vr_version s) ->
    forall x, In x elems -> exists n, In n news /\ elem_form n x.
  Proof.
    induction upds as [|[l v] upds IH]; intros elems news H Hv x Hx.
    - cbn in H. injection H as <- <-. destruct Hx.
    - cbn [Directory.derive_all] in H.
      destruct (derive_update cfg ck vrf_label st (l, v)) as [[e1 s1]|] eqn:E1; [|discriminate].
      destruct (derive_all cfg ck vrf_label st upds) as [[e2 s2]|] eqn:E2; [|discriminate]. injection H as <- <-.
      apply in_app_or in Hx. destruct Hx as [Hx|Hx].
      + destruct (derive_update_forms st l v e1 s1 E1 (Hv l) x Hx) as (n & Hn & Hf). exists n. split; [apply in_or_app; left; exact Hn | exact Hf].
      + destruct (IH e2 s2 eq_refl Hv x Hx) as (n & Hn & Hf). exists n. split; [apply in_or_app; right; exact Hn | exact Hf].
  Qed.

  Definition Forms (st : dstate) : Prop := forall y, In y (leaves (d_tree st)) -> leaf_form st y.

  Lemma leaf_form_mono st st' news y : d_states st' = d_states st ++ news -> leaf_form st y -> leaf_form st' y.
  Proof.
    intros Es [(s & Hs & Hf)|(s & nl & Hs & H1 & H2 & H3)].
    - left. exists s. split; [rewrite Es; apply in_or_app; left; exact Hs | exact Hf].
    - right. exists s, nl. split; [rewrite Es; apply in_or_app; left; exact Hs|]. auto.
  Qed.

  Lemma publish_keeps_forms st upds : DirInv vrf_label st -> Forms st -> Forms (fst (publish st upds)).
  Proof.
    intros I F. destruct (publish st upds) as [st' res] eqn:E. cbn [fst].
    destruct res as [p| | | | |];
      try (rewrite (publish_not_ok_same cfg ck vrf_label st upds st' _ E ltac:(intros x; discriminate)); exact F).
    destruct p as [e h].
    destruct (publish_step cfg ck vrf_label Ce vrf_good vrf_inj st upds st' e h I E) as (I' & _ & _ & [->|(elems & news & Ed & Eep & Est & Pr)]); [exact F|].
    pose proof I as [Itree Iep Iver Ilv Idist Ivle].
    assert (Hd : has_dup (map fst upds) = false).
    { unfold Directory.publish in E. destruct (has_dup (map fst upds)); [discriminate | reflexivity]. }
    destruct (derive_all_spec cfg ck vrf_label vrf_inj st upds elems news Iver Hd Ed) as (_ & _ & D3 & _ & _).
    intros y Hy. apply (Permutation_in _ Pr) in Hy. apply in_app_or in Hy. destruct Hy as [Hy|Hy].
    - apply (leaf_form_mono st st' news y Est). apply F. exact Hy.
    - apply in_map_iff in Hy. destruct Hy as (x & <- & Hx).
      destruct (derive_all_forms st upds elems news Ed Iver x Hx) as (n & Hn & Hf).
      assert (Hne : vr_epoch n = d_epoch st + 1) by (destruct (D3 n Hn) as (l & v & nl & _ & ->); reflexivity).
      assert (Hin : In n (d_states st')) by (rewrite Est; apply in_or_app; right; exact Hn).
      destruct Hf as [(nl & Hl & ->)|(Hv & sl & Hl & ->)].
      + left. exists n. split; [exact Hin|]. unfold LookupComplete.fresh_leaf. rewrite Hl. unfold lf_of. cbn [e_label e_value]. rewrite Hne. reflexivity.
      + right. exists n, sl. split; [exact Hin|]. split; [exact Hv|]. split; [exact Hl|]. unfold lf_of. cbn [e_label e_value]. rewrite Hne. reflexivity.
  Qed.

  Lemma forms_reachable : forall reqs st, DirInv vrf_label st -> Forms st -> Forms (run_publishes cfg ck vrf_label st reqs).
  Proof.
    induction reqs as [|r rest IH]; intros st I F; [exact F|]. cbn [run_publishes]. apply IH.
    - apply (publish_keeps_inv cfg ck vrf_label Ce vrf_good vrf_inj). exact I.
    - apply publish_keeps_forms; assumption.
  Qed.

  Lemma forms_new : Forms dir_new.
  Proof. intros y []. Qed.
End Forms.

(* ------------------------------------------------------------------ the honest-tree premises, discharged *)
Lemma canon_root_wf_root t : canon_root t -> wf_root t = true.
Proof.
  destruct t as [|l le mde a b]; [intros []|]. intros (-> & Ca & Cb & _ & _). cbn [wf_root].
  assert (En : nl_eqb nl_root nl_root = true) by (apply nl_eqb_eq; reflexivity). rewrite En. cbn [andb].
  apply andb_true_iff. split.
  - destruct a as [c|]; [|reflexivity]. destruct Ca as [P [W _]]. cbn [wf_child]. rewrite bits_of_root, P, W. reflexivity.
  - destruct b as [c|]; [|reflexivity]. destruct Cb as [P [W _]]. cbn [wf_child]. rewrite bits_of_root, P, W. reflexivity.
Qed.

Lemma nth_countdown n k i : (i < k)%nat -> nth i (countdown n k) 0 = n - N.of_nat i.
Proof.
  intros H. unfold countdown. rewrite (nth_indep _ 0 (n - N.of_nat 0)) by (rewrite map_length, seq_length; exact H).
  rewrite (map_nth (fun j => n - N.of_nat j)). rewrite seq_nth by exact H. reflexivity.
Qed.

Lemma nth0_head {A} (l : list A) d : l <> [] -> exists r, l = nth 0 l d :: r.
Proof. destruct l as [|a r]; [congruence|]. intros _. exists r. reflexivity. Qed.

Section Reach.
  Variable cfg : config.
  Variable Bad : Prop.
  Hypothesis B : Binding cfg Bad.
  Variable ck : bytes.
  Variable vrf_label : bytes -> bool -> N -> option nlabel.
  Hypothesis vrf_good : forall l f v nl, vrf_label l f v = Some nl -> WF nl /\ canonical nl = true /\ llen nl = 256.
  Hypothesis vrf_inj : forall l f v l' f' v' nl, vrf_label l f v = Some nl -> vrf_label l' f' v' = Some nl -> l = l' /\ f = f' /\ v = v'.
  (* the verifier's side of the VRF for the label in question: a total function F which the server's
     table agrees with, whose values no other table entry takes, and which a verifying proof outputs *)
  Variable vrf_check : bytes -> bytes -> bytes -> option bytes.
  Variable pk l : bytes.
  Variable F : bool -> N -> nlabel.
  Hypothesis F_full : forall f v, llen (F f v) = 256 /\ WF (F f v) /\ LW (F f v).
  Hypothesis F_ext : forall f v nl, vrf_label l f v = Some nl -> nl = F f v.
  Hypothesis F_inj : forall f v l' f' v', v < 2 ^ 64 -> vrf_label l' f' v' = Some (F f v) -> l' = l /\ f' = f /\ v' = v.
  Hypothesis vrf_unique : forall proof f v out, v < 2 ^ 64 -> vrf_check pk proof (label_input_hash cfg l f v) = Some out -> NL out 256 = F f v.
  Hypothesis nonce_len : forall key lb ver value, Len64 (c_commitment_nonce cfg key lb ver value).
  Hypothesis stale_D32 : D32 (c_stale_value cfg).

  Variable st : dstate.
  Hypothesis I3 : Inv3 cfg ck vrf_label st.
  Hypothesis Fm : Forms cfg ck vrf_label st.
  Hypothesis values_len : forall s, In s (d_states st) -> Len64 (vr_value s).
  Hypothesis epoch_u64 : d_epoch st < 2 ^ 64.

  Let h := user_history (d_states st) l (d_epoch st).
  Let n := N.of_nat (length h).
  Definition dflt : vrec := VR l 0 0 [] nl_root.
  Definition state_of (v : N) : vrec := nth (N.to_nat (n - v)) h dflt.
  Definition val_of (v : N) : bytes := vr_value (state_of v).
  Definition ep_of (v : N) : N := vr_epoch (state_of v).

  Let I2 := i3_inv2 cfg ck vrf_label st I3.
  Let I := d2_inv cfg ck vrf_label st I2.

  Lemma h_spec : map vr_version h = countdown n (length h).
  Proof. apply (i3_hist cfg ck vrf_label st I3 l). Qed.

  Lemma in_h s : In s h <-> In s (d_states st) /\ vr_user s = l.
  Proof.
    unfold h. rewrite in_user_history. split.
    - intros [H1 H2]. apply andb_true_iff in H2. destruct H2 as [H2 _]. apply NodeLabelFacts.bytes_eqb_eq in H2. split; assumption.
    - intros [H1 H2]. split; [exact H1|]. apply andb_true_iff. split; [apply NodeLabelFacts.bytes_eqb_eq; exact H2|].
      apply N.leb_le. apply (di_epochs vrf_label st I s H1).
  Qed.

  Lemma state_of_spec s : In s (d_states st) -> vr_user s = l -> 1 <= vr_version s /\ vr_version s <= n /\ state_of (vr_version s) = s.
  Proof.
    intros Hs Hu. assert (Hin : In s h) by (apply in_h; split; assumption).
    destruct (In_nth h s dflt Hin) as (i & Hi & Hn).
    assert (Hv : vr_version s = n - N.of_nat i).
    { rewrite <- Hn. rewrite <- (map_nth vr_version h dflt i). cbn [dflt vr_version].
      rewrite h_spec. apply nth_countdown. exact Hi. }
    unfold n in *. split; [lia|]. split; [lia|]. unfold state_of, n. rewrite Hv.
    replace (N.to_nat (N.of_nat (length h) - (N.of_nat (length h) - N.of_nat i))) with i by lia. exact Hn.
  Qed.

  Lemma state_of_range v : 1 <= v -> v <= n -> In (state_of v) (d_states st) /\ vr_user (state_of v) = l /\ vr_version (state_of v) = v.
  Proof.
    intros H1 H2. unfold state_of. set (i := N.to_nat (n - v)).
    assert (Hi : (i < length h)%nat) by (unfold i, n in *; lia).
    assert (Hin : In (nth i h dflt) h) by (apply nth_In; exact Hi).
    destruct (proj1 (in_h _) Hin) as [A C]. split; [exact A|]. split; [exact C|].
    rewrite <- (map_nth vr_version h dflt i). cbn [dflt vr_version]. rewrite h_spec, (nth_countdown _ _ _ Hi). unfold i. lia.
  Qed.

  Lemma vals_len v : Len64 (val_of v).
  Proof.
    unfold val_of, state_of. destruct (nth_in_or_default (N.to_nat (n - v)) h dflt) as [Hin| ->].
    - apply values_len. apply in_h. exact Hin.
    - cbn. unfold Len64. cbn. lia.
  Qed.

  Lemma eps_u64 v : ep_of v < 2 ^ 64.
  Proof.
    unfold ep_of, state_of. destruct (nth_in_or_default (N.to_nat (n - v)) h dflt) as [Hin| ->].
    - apply in_h in Hin. pose proof (di_epochs vrf_label st I _ (proj1 Hin)). lia.
    - cbn. lia.
  Qed.

  Lemma tree_fresh y v : v < 2 ^ 64 -> In y (leaves (d_tree st)) -> lf_label y = F true v ->
    1 <= v /\ v <= n /\ lf_value y = fresh_value cfg ck (F true v) v (val_of v) /\ lf_epoch y = ep_of v.
  Proof.
    intros Hv64 Hy Hl. destruct (Fm y Hy) as [(s & Hs & Hf)|(s & nl & Hs & H1 & H2 & ->)].
    - unfold fresh_leaf in Hf. destruct (vrf_label (vr_user s) true (vr_version s)) as [nl|] eqn:El; [|discriminate]. injection Hf as <-.
      cbn [lf_label lf_value lf_epoch] in *. subst nl.
      destruct (F_inj _ _ _ _ _ Hv64 El) as (Hu & _ & Hv). destruct (state_of_spec s Hs Hu) as (A & C & D).
      rewrite <- Hv. split; [exact A|]. split; [exact C|]. unfold val_of, ep_of. rewrite D. rewrite Hv. split; reflexivity.
    - cbn [lf_label] in Hl. subst nl. destruct (F_inj _ _ _ _ _ Hv64 H2) as (_ & Hf & _). discriminate.
  Qed.

  Lemma tree_stale v : 1 <= v -> v < n -> In (F false v) (map lf_label (leaves (d_tree st))).
  Proof.
    intros H1 H2. destruct (state_of_range (v + 1) ltac:(lia) ltac:(lia)) as (A & C & D).
    destruct (i3_stale cfg ck vrf_label st I3 (state_of (v + 1)) A ltac:(rewrite D; lia)) as (nl & Hl & Hin).
    rewrite C, D in Hl. replace (v + 1 - 1) with v in Hl by lia. rewrite (F_ext _ _ _ Hl) in Hin.
    apply in_map_iff. eexists. split; [|exact Hin]. reflexivity.
  Qed.

  Lemma tree_has_fresh v : 1 <= v -> v <= n -> In (F true v) (map lf_label (leaves (d_tree st))).
  Proof.
    intros H1 H2. destruct (state_of_range v H1 H2) as (A & C & D).
    destruct (d2_leaf cfg ck vrf_label st I2 (state_of v) A) as (y & Hy & Hin). unfold fresh_leaf in Hy.
    rewrite C, D in Hy. destruct (vrf_label l true v) as [nl|] eqn:El; [|discriminate]. injection Hy as <-.
    rewrite (F_ext _ _ _ El) in Hin. apply in_map_iff. eexists. split; [|exact Hin]. reflexivity.
  Qed.

  Lemma tree_stale_epoch y v : v < 2 ^ 64 -> In y (leaves (d_tree st)) -> lf_label y = F false v ->
    lf_value y = c_stale_value cfg /\ lf_epoch y = ep_of (v + 1).
  Proof.
    intros Hv64 Hy Hl. destruct (Fm y Hy) as [(s & Hs & Hf)|(s & nl & Hs & H1 & H2 & ->)].
    - unfold fresh_leaf in Hf. destruct (vrf_label (vr_user s) true (vr_version s)) as [nl|] eqn:El; [|discriminate]. injection Hf as <-.
      cbn [lf_label] in Hl. subst nl. destruct (F_inj _ _ _ _ _ Hv64 El) as (_ & Hf & _). discriminate.
    - cbn [lf_label lf_value lf_epoch] in *. subst nl. destruct (F_inj _ _ _ _ _ Hv64 H2) as (Hu & _ & Hv).
      destruct (state_of_spec s Hs Hu) as (_ & _ & D). split; [reflexivity|].
      unfold ep_of. replace (v + 1) with (vr_version s) by lia. rewrite D. reflexivity.
  Qed.

  Lemma tree_epochs_u64 y : In y (leaves (d_tree st)) -> lf_epoch y < 2 ^ 64.
  Proof. intros Hy. destruct (di_tree vrf_label st I) as [_ Lo]. pose proof (Lo y Hy). lia. Qed.

  Lemma t_wf : wf_root (d_tree st) = true.
  Proof. apply canon_root_wf_root. apply (di_tree vrf_label st I). Qed.

  Lemma t_ok : tree_ok (d_tree st).
  Proof.
    apply AuditSound.wf_root_tree_ok; [exact t_wf|]. intros y Hy.
    destruct (Fm y Hy) as [(s & Hs & Hf)|(s & nl & Hs & H1 & H2 & ->)].
    - unfold fresh_leaf in Hf. destruct (vrf_label (vr_user s) true (vr_version s)) as [nl|]; [|discriminate]. injection Hf as <-.
      cbn [lf_value]. unfold fresh_value. apply (b_commit_D32 _ _ B).
    - exact stale_D32.
  Qed.

  Lemma nonce_ok v : Len64 (c_commitment_nonce cfg ck (nl_to_bytes (F true v)) v (val_of v)).
  Proof. apply nonce_len. Qed.

  Definition entry_of_state (s : vrec) : verify_result := VRes (vr_epoch s) (vr_version s) (vr_value s).

  Lemma lookup_verify_version E p r : lookup_verify cfg vrf_check pk (root_hash cfg true (d_tree st)) E l p = Some r -> r_version r <> 0.
  Proof.
    unfold lookup_verify. destruct (E <? lp_version p); [discriminate|].
    destruct (negb _); [discriminate|]. destruct (N.eqb_spec (lp_version p) 0) as [|Hne]; [discriminate|].
    destruct (negb _); [discriminate|]. destruct (negb _); [discriminate|]. intros [= <-]. exact Hne.
  Qed.

  (* C06 at the directory level: whatever lookup proof is presented against the state's root hash,
     if it verifies it names the label's latest state - and nothing verifies for an unpublished label *)
  Theorem lookup_sound_dir E p r : lp_ok p ->
    lookup_verify cfg vrf_check pk (root_hash cfg true (d_tree st)) E l p = Some r ->
    (exists s, latest_state (d_states st) l (d_epoch st) = Some s /\ r = entry_of_state s) \/ Bad.
  Proof.
    intros Hp H. pose proof (lookup_verify_version E p r H) as Hv0.
    destruct (lookup_sound cfg Bad B vrf_check pk ck l (d_tree st) t_ok t_wf F F_full vrf_unique n val_of ep_of vals_len eps_u64
                tree_fresh tree_stale nonce_ok E p r Hp H) as [(R1 & R2 & R3)|]; [|now right].
    left. assert (Hn1 : 1 <= n) by lia.
    destruct (state_of_range n Hn1 ltac:(lia)) as (A & C & D).
    exists (state_of n). split.
    - assert (Hne : h <> []) by (intros E0; unfold n in Hn1; rewrite E0 in Hn1; cbn in Hn1; lia).
      destruct (nth0_head h dflt Hne) as [r0 Er].
      unfold state_of. rewrite N.sub_diag. cbn [N.to_nat].
      apply (user_history_head cfg ck vrf_label (fun _ _ _ => None) vrf_good vrf_inj st l (nth 0 h dflt) r0 I). exact Er.
    - destruct r as [re rv rval]. cbn [r_version r_value r_epoch] in *. unfold entry_of_state. rewrite D.
      unfold val_of, ep_of in *. subst. reflexivity.
  Qed.

  Lemma map_state_of : map state_of (countdown n (length h)) = h.
  Proof.
    apply (nth_ext _ _ dflt dflt); [rewrite map_length, countdown_length; reflexivity|].
    intros i Hi. rewrite map_length, countdown_length in Hi.
    rewrite (nth_indep _ dflt (state_of 0)) by (rewrite map_length, countdown_length; exact Hi).
    rewrite (map_nth state_of). rewrite (nth_countdown _ _ _ Hi). unfold state_of. unfold n at 1 2.
    replace (N.to_nat (N.of_nat (length h) - (N.of_nat (length h) - N.of_nat i))) with i by lia. reflexivity.
  Qed.

  Lemma true_entries : map (true_entry val_of ep_of) (countdown n (length h)) = map entry_of_state h.
  Proof.
    rewrite <- map_state_of at 2. rewrite map_map. apply map_ext_in. intros v Hv.
    unfold countdown in Hv. apply in_map_iff in Hv. destruct Hv as (i & <- & Hi). apply in_seq in Hi.
    destruct (state_of_range (n - N.of_nat i) ltac:(unfold n; lia) ltac:(lia)) as (_ & _ & D).
    unfold true_entry, entry_of_state, val_of, ep_of. rewrite D. reflexivity.
  Qed.

  (* C07 at the directory level, Default mode, complete history: an accepted proof yields exactly the
     label's stored account, newest first *)
  Theorem history_sound_dir E p rs : hp_ok p -> h <> [] -> d_epoch st <= E -> E < 2 ^ 64 ->
    key_history_verify cfg vrf_check pk (root_hash cfg true (d_tree st)) E l p HComplete false = Some rs ->
    rs = map entry_of_state h \/ Bad.
  Proof.
    intros Hp Hne HE1 HE2 H.
    assert (Hn1 : 1 <= n) by (unfold n; destruct h; [congruence | cbn [length]; lia]).
    assert (HnE : n <= E).
    { destruct (state_of_range n Hn1 ltac:(lia)) as (A & _ & D). pose proof (di_ver_le vrf_label st I _ A). pose proof (di_epochs vrf_label st I _ A). lia. }
    destruct (history_complete_sound cfg Bad B vrf_check pk ck l (d_tree st) t_ok t_wf F F_full vrf_unique n val_of ep_of vals_len eps_u64
                tree_fresh nonce_ok tree_has_fresh E p rs Hp Hn1 HnE HE2 H) as [R|]; [|now right].
    left. rewrite R. fold (countdown n (N.to_nat n)). replace (N.to_nat n) with (length h) by (unfold n; lia). apply true_entries.
  Qed.

  (* ... and with AllowMissingValues: the same account, each entry as it is or as a tombstone with the
     true epoch (version 1 excepted: K2) *)
  Theorem history_sound_dir_am E p rs : hp_ok2 p -> h <> [] -> d_epoch st <= E -> E < 2 ^ 64 ->
    key_history_verify cfg vrf_check pk (root_hash cfg true (d_tree st)) E l p HComplete true = Some rs ->
    Forall2 amrel rs (map entry_of_state h) \/ Bad.
  Proof.
    intros Hp Hne HE1 HE2 H.
    assert (Hn1 : 1 <= n) by (unfold n; destruct h; [congruence | cbn [length]; lia]).
    assert (HnE : n <= E).
    { destruct (state_of_range n Hn1 ltac:(lia)) as (A & _ & D). pose proof (di_ver_le vrf_label st I _ A). pose proof (di_epochs vrf_label st I _ A). lia. }
    destruct (history_complete_sound_am cfg Bad B vrf_check pk ck l (d_tree st) t_ok t_wf F F_full vrf_unique n val_of ep_of vals_len eps_u64
                tree_fresh nonce_ok tree_has_fresh tree_stale_epoch stale_D32 tree_epochs_u64 E p rs Hp Hn1 HnE HE2 H) as [R|]; [|now right].
    left. fold (countdown n (N.to_nat n)) in R. replace (N.to_nat n) with (length h) in R by (unfold n; lia). rewrite true_entries in R. exact R.
  Qed.

  (* ... and for MostRecent(r): exactly the first min(r, n) entries of the stored account *)
  Theorem history_recent_sound_dir E p rs r : hp_ok p -> h <> [] -> d_epoch st <= E -> E < 2 ^ 64 ->
    key_history_verify cfg vrf_check pk (root_hash cfg true (d_tree st)) E l p (HMostRecent r) false = Some rs ->
    rs = map entry_of_state (firstn (N.to_nat r) h) \/ Bad.
  Proof.
    intros Hp Hne HE1 HE2 H.
    assert (Hn1 : 1 <= n) by (unfold n; destruct h; [congruence | cbn [length]; lia]).
    assert (HnE : n <= E).
    { destruct (state_of_range n Hn1 ltac:(lia)) as (A & _ & D). pose proof (di_ver_le vrf_label st I _ A). pose proof (di_epochs vrf_label st I _ A). lia. }
    destruct (history_recent_sound cfg Bad B vrf_check pk ck l (d_tree st) t_ok t_wf F F_full vrf_unique n val_of ep_of vals_len eps_u64
                tree_fresh nonce_ok tree_has_fresh E p rs r Hp Hn1 HnE HE2 H) as [[R Hlen]|]; [|now right].
    left. set (k := length rs) in *.
    assert (Hk : (k <= length h)%nat) by (unfold n in Hlen; lia).
    assert (Ef : firstn (N.to_nat r) h = firstn k h).
    { destruct (N.le_gt_cases r n) as [Hr|Hr].
      - replace (N.to_nat r) with k by (unfold n in *; lia). reflexivity.
      - rewrite firstn_all2 by (unfold n in Hr; lia). replace k with (length h) by (unfold n in *; lia). symmetry. apply firstn_all. }
    rewrite Ef, R. fold (countdown n k). rewrite <- (countdown_firstn k (length h) n Hk), <- !firstn_map. f_equal. apply true_entries.
  Qed.

  (* MostRecent(r) with AllowMissingValues *)
  Theorem history_recent_sound_dir_am E p rs r : hp_ok2 p -> h <> [] -> d_epoch st <= E -> E < 2 ^ 64 ->
    key_history_verify cfg vrf_check pk (root_hash cfg true (d_tree st)) E l p (HMostRecent r) true = Some rs ->
    Forall2 amrel rs (map entry_of_state (firstn (N.to_nat r) h)) \/ Bad.
  Proof.
    intros Hp Hne HE1 HE2 H.
    assert (Hn1 : 1 <= n) by (unfold n; destruct h; [congruence | cbn [length]; lia]).
    assert (HnE : n <= E).
    { destruct (state_of_range n Hn1 ltac:(lia)) as (A & _ & D). pose proof (di_ver_le vrf_label st I _ A). pose proof (di_epochs vrf_label st I _ A). lia. }
    destruct (history_recent_sound_am cfg Bad B vrf_check pk ck l (d_tree st) t_ok t_wf F F_full vrf_unique n val_of ep_of vals_len eps_u64
                tree_fresh nonce_ok tree_has_fresh tree_stale_epoch stale_D32 tree_epochs_u64 E p rs r Hp Hn1 HnE HE2 H) as [[R Hlen]|]; [|now right].
    left. set (k := length rs) in *.
    assert (Hk : (k <= length h)%nat) by (unfold n in Hlen; lia).
    assert (Ef : firstn (N.to_nat r) h = firstn k h).
    { destruct (N.le_gt_cases r n) as [Hr|Hr].
      - replace (N.to_nat r) with k by (unfold n in *; lia). reflexivity.
      - rewrite firstn_all2 by (unfold n in Hr; lia). replace k with (length h) by (unfold n in *; lia). symmetry. apply firstn_all. }
    rewrite Ef. fold (countdown n k) in R. rewrite <- (countdown_firstn k (length h) n Hk), <- !firstn_map in R.
    rewrite true_entries in R. rewrite <- firstn_map. exact R.
  Qed.

  (* C05 at the directory level: the leaf of a stored state cannot be shown absent *)
  Theorem stored_version_not_deniable s nl p : In s (d_states st) ->
    vrf_label (vr_user s) true (vr_version s) = Some nl -> np_label p = nl -> nmp_ok p ->
    verify_nonmembership cfg (root_hash cfg true (d_tree st)) p = true -> Bad.
  Proof.
    intros Hs Hl Hp Hok Hv.
    destruct (d2_leaf cfg ck vrf_label st I2 s Hs) as (y & Hy & Hin). unfold fresh_leaf in Hy. rewrite Hl in Hy. injection Hy as <-.
    destruct (vrf_good _ _ _ _ Hl) as (W & _ & _).
    destruct (nonmem_sound_b cfg Bad B (d_tree st) p t_ok t_wf Hok ltac:(rewrite Hp; exact W) Hv) as [Hn|]; [|assumption].
    exfalso. apply Hn. rewrite Hp. apply in_map_iff. eexists. split; [|exact Hin]. reflexivity.
  Qed.
End Reach.

(* ------------------------------------------------------------------ every reachable state *)
Section Reachable.
  Variable cfg : config.
  Variable Bad : Prop.
  Hypothesis B : Binding cfg Bad.
  Variable ck : bytes.
  Variable vrf_label : bytes -> bool -> N -> option nlabel.
  Hypothesis vrf_good : forall l f v nl, vrf_label l f v = Some nl -> WF nl /\ canonical nl = true /\ llen nl = 256.
  Hypothesis vrf_inj : forall l f v l' f' v' nl, vrf_label l f v = Some nl -> vrf_label l' f' v' = Some nl -> l = l' /\ f = f' /\ v = v'.
  Variable vrf_check : bytes -> bytes -> bytes -> option bytes.
  Variable pk l : bytes.
  Variable F : bool -> N -> nlabel.
  Hypothesis F_full : forall f v, llen (F f v) = 256 /\ WF (F f v) /\ LW (F f v).
  Hypothesis F_ext : forall f v nl, vrf_label l f v = Some nl -> nl = F f v.
  Hypothesis F_inj : forall f v l' f' v', v < 2 ^ 64 -> vrf_label l' f' v' = Some (F f v) -> l' = l /\ f' = f /\ v' = v.
  Hypothesis vrf_unique : forall proof f v out, v < 2 ^ 64 -> vrf_check pk proof (label_input_hash cfg l f v) = Some out -> NL out 256 = F f v.
  Hypothesis nonce_len : forall key lb ver value, Len64 (c_commitment_nonce cfg key lb ver value).
  Hypothesis stale_D32 : D32 (c_stale_value cfg).

  Variable reqs : list (list (bytes * bytes)).
  Let st := run_publishes cfg ck vrf_label dir_new reqs.
  Hypothesis values_len : forall s, In s (d_states st) -> Len64 (vr_value s).
  Hypothesis epoch_u64 : d_epoch st < 2 ^ 64.

  Let Ce := b_empty_label_not_canonical _ _ B.

  Lemma reach_inv3 : Inv3 cfg ck vrf_label st.
  Proof.
    apply (inv3_reachable cfg ck vrf_label (fun _ _ _ => None) vrf_check pk Ce vrf_good vrf_inj). intros; discriminate.
  Qed.

  Lemma reach_forms : Forms cfg ck vrf_label st.
  Proof. apply (forms_reachable cfg ck vrf_label Ce vrf_good vrf_inj); [apply dir_new_inv | apply forms_new]. Qed.

  Theorem lookup_sound_reachable E p r : lp_ok p ->
    lookup_verify cfg vrf_check pk (snd (epoch_hash cfg st)) E l p = Some r ->
    (exists s, latest_state (d_states st) l (d_epoch st) = Some s /\ r = entry_of_state s) \/ Bad.
  Proof.
    apply (lookup_sound_dir cfg Bad B ck vrf_label vrf_good vrf_inj vrf_check pk l F F_full F_ext F_inj vrf_unique nonce_len stale_D32
             st reach_inv3 reach_forms values_len epoch_u64).
  Qed.

  Theorem history_sound_reachable E p rs : hp_ok p ->
    user_history (d_states st) l (d_epoch st) <> [] -> d_epoch st <= E -> E < 2 ^ 64 ->
    key_history_verify cfg vrf_check pk (snd (epoch_hash cfg st)) E l p HComplete false = Some rs ->
    rs = map entry_of_state (user_history (d_states st) l (d_epoch st)) \/ Bad.
  Proof.
    apply (history_sound_dir cfg Bad B ck vrf_label vrf_good vrf_inj vrf_check pk l F F_full F_ext F_inj vrf_unique nonce_len stale_D32
             st reach_inv3 reach_forms values_len epoch_u64).
  Qed.

  Theorem history_sound_reachable_am E p rs : hp_ok2 p ->
    user_history (d_states st) l (d_epoch st) <> [] -> d_epoch st <= E -> E < 2 ^ 64 ->
    key_history_verify cfg vrf_check pk (snd (epoch_hash cfg st)) E l p HComplete true = Some rs ->
    Forall2 amrel rs (map entry_of_state (user_history (d_states st) l (d_epoch st))) \/ Bad.
  Proof.
    apply (history_sound_dir_am cfg Bad B ck vrf_label vrf_good vrf_inj vrf_check pk l F F_full F_ext F_inj vrf_unique nonce_len stale_D32
             st reach_inv3 reach_forms values_len epoch_u64).
  Qed.

  (* C08 for honest roots: under the epoch hash of a reachable state the two verifiers cannot
     disagree - the lookup result is the first entry of the complete history's result *)
  Theorem lookup_history_agree_reachable E p r hp rs : lp_ok p -> hp_ok hp -> d_epoch st <= E -> E < 2 ^ 64 ->
    lookup_verify cfg vrf_check pk (snd (epoch_hash cfg st)) E l p = Some r ->
    key_history_verify cfg vrf_check pk (snd (epoch_hash cfg st)) E l hp HComplete false = Some rs ->
    (exists rest, rs = r :: rest) \/ Bad.
  Proof.
    intros Hp Hhp HE1 HE2 HL HH.
    destruct (lookup_sound_reachable E p r Hp HL) as [(s & Hs & ->)|]; [|now right].
    destruct (user_history (d_states st) l (d_epoch st)) as [|d0 r0] eqn:Eh.
    - exfalso. destruct (latest_state_max cfg vrf_label (fun _ _ _ => None) vrf_good vrf_inj _ _ _ _ Hs) as (Hin & Hsel & _).
      assert (Hx : In s (user_history (d_states st) l (d_epoch st))) by (apply in_user_history; split; assumption).
      rewrite Eh in Hx. destruct Hx.
    - destruct (history_sound_reachable E hp rs Hhp ltac:(rewrite Eh; discriminate) HE1 HE2 HH) as [->|]; [|now right].
      left. rewrite Eh. cbn [map]. exists (map entry_of_state r0). f_equal. f_equal.
      pose proof (user_history_head cfg ck vrf_label (fun _ _ _ => None) vrf_good vrf_inj st l d0 r0
                    (d2_inv cfg ck vrf_label st (i3_inv2 cfg ck vrf_label st reach_inv3)) Eh) as Hh.
      congruence.
  Qed.

  Theorem history_recent_sound_reachable E p rs r : hp_ok p ->
    user_history (d_states st) l (d_epoch st) <> [] -> d_epoch st <= E -> E < 2 ^ 64 ->
    key_history_verify cfg vrf_check pk (snd (epoch_hash cfg st)) E l p (HMostRecent r) false = Some rs ->
    rs = map entry_of_state (firstn (N.to_nat r) (user_history (d_states st) l (d_epoch st))) \/ Bad.
  Proof.
    apply (history_recent_sound_dir cfg Bad B ck vrf_label vrf_good vrf_inj vrf_check pk l F F_full F_ext F_inj vrf_unique nonce_len stale_D32
             st reach_inv3 reach_forms values_len epoch_u64).
  Qed.

  Theorem history_recent_sound_reachable_am E p rs r : hp_ok2 p ->
    user_history (d_states st) l (d_epoch st) <> [] -> d_epoch st <= E -> E < 2 ^ 64 ->
    key_history_verify cfg vrf_check pk (snd (epoch_hash cfg st)) E l p (HMostRecent r) true = Some rs ->
    Forall2 amrel rs (map entry_of_state (firstn (N.to_nat r) (user_history (d_states st) l (d_epoch st)))) \/ Bad.
  Proof.
    apply (history_recent_sound_dir_am cfg Bad B ck vrf_label vrf_good vrf_inj vrf_check pk l F F_full F_ext F_inj vrf_unique nonce_len stale_D32
             st reach_inv3 reach_forms values_len epoch_u64).
  Qed.


  Theorem stored_version_not_deniable_reachable s nl p : In s (d_states st) ->
    vrf_label (vr_user s) true (vr_version s) = Some nl -> np_label p = nl -> nmp_ok p ->
    verify_nonmembership cfg (snd (epoch_hash cfg st)) p = true -> Bad.
  Proof.
    apply (stored_version_not_deniable cfg Bad B ck vrf_label vrf_good stale_D32 st reach_inv3 reach_forms).
  Qed.
End Reachable.
