(* What a read through the cache may return while writes are going on (C16, concurrent case).

   The protocol model of CacheProto.v (TicketLocked = the code) is run together with a ghost state
   that records, for every read, its ADMISSIBLE values:
     - when the read starts: the value of the last completed write and the data layer's value at
       that moment (they differ only while a write is between its data-layer step and its end);
     - while the read is active: every value a writer puts into the data layer.
   Theorem: under every schedule every finished read has returned one of its admissible values -
   reads through the cache are REGULAR: they return what the data layer held when the read started
   (up to a write in progress then) or what a write overlapping the read stored.  In particular a
   read that overlaps no write returns the data layer's value.  The ghost state does not influence
   the run ([grun_projects]). *)
From Coq Require Import List Arith Lia Bool.
From Akd Require Import CacheProto.
Import ListNotations.

Record ghost := G { g_stable : nat; g_adm : nat -> list nat }.

Definition active (r : rpc) : bool := match r with RS | RDone _ => false | _ => true end.

Definition gstep (x : pstate * ghost) (a : paction) : pstate * ghost :=
  let '(s, g) := x in
  let s' := pstep TicketLocked s a in
  match a with
  | AR i =>
    match nth_error (p_readers s) i with
    | Some RS => (s', G (g_stable g) (fun k => if Nat.eqb k i then [g_stable g; p_db s] else g_adm g k))
    | _ => (s', g)
    end
  | AW j =>
    match nth_error (p_writers s) j with
    | Some (W1 v) =>
      (s', G (g_stable g) (fun k => match nth_error (p_readers s) k with
                                     | Some r => if active r then v :: g_adm g k else g_adm g k
                                     | None => g_adm g k
                                     end))
    | Some W3 => (s', G (p_db s) (g_adm g))
    | _ => (s', g)
    end
  | AE => (s', g)
  end.

(* readers that do not consult the cache start active: admissible = the initial value *)
Definition ginit (d : nat) (rs : list bool) (ws : list nat) : pstate * ghost :=
  (pinit d rs ws, G d (fun _ => [d])).
Definition grun (x : pstate * ghost) (sched : list paction) : pstate * ghost := fold_left gstep sched x.

Lemma gstep_fst x a : fst (gstep x a) = pstep TicketLocked (fst x) a.
Proof.
  destruct x as [s g]. unfold gstep. cbn [fst]. destruct a as [i|j|].
  - destruct (nth_error (p_readers s) i) as [[| | | | | |]|]; reflexivity.
  - destruct (nth_error (p_writers s) j) as [[| | | |]|]; reflexivity.
  - reflexivity.
Qed.

Theorem grun_projects d rs ws sched : fst (grun (ginit d rs ws) sched) = prun TicketLocked (pinit d rs ws) sched.
Proof.
  unfold grun, prun, ginit.
  assert (H : forall sched x, fst (fold_left gstep sched x) = fold_left (pstep TicketLocked) sched (fst x)).
  { induction sched0 as [|a rest IH]; intros x; [reflexivity|]. cbn [fold_left]. rewrite IH, gstep_fst. reflexivity. }
  rewrite H. reflexivity.
Qed.

(* ------------------------------------------------------------------ the invariant *)
Definition settled (w : wpc) : Prop := match w with W2 _ | W3 => False | _ => True end.

Definition adm_ok (s : pstate) (g : ghost) (i : nat) (r : rpc) : Prop :=
  match r with
  | RS => True
  | R0 | R0' _ | R1 _ => In (p_db s) (g_adm g i)
  | R2 _ v | R3 v | RDone v => In v (g_adm g i)
  end.

Record GInv (x : pstate * ghost) : Prop := {
  gi_inv : PInv (fst x);
  gi_stable : (forall w, In w (p_writers (fst x)) -> settled w) -> g_stable (snd x) = p_db (fst x);
  gi_cache : p_cache (fst x) = None \/ p_cache (fst x) = Some (p_db (fst x)) \/ p_cache (fst x) = Some (g_stable (snd x));
  gi_readers : forall i r, nth_error (p_readers (fst x)) i = Some r -> adm_ok (fst x) (snd x) i r }.

Lemma ginit_inv d rs ws : GInv (ginit d rs ws).
Proof.
  constructor; unfold ginit; cbn [fst snd].
  - apply init_inv.
  - intros _. reflexivity.
  - left. reflexivity.
  - intros i r Hr. unfold pinit in Hr. cbn [p_readers] in Hr. apply nth_error_In in Hr. apply in_map_iff in Hr.
    destruct Hr as ([|] & <- & _); cbn [adm_ok g_adm p_db pinit]; [exact I | left; reflexivity].
Qed.

Lemma in_pupd {A} : forall (l : list A) i x y, In y (pupd l i x) -> y = x \/ In y l.
Proof.
  induction l as [|a l IH]; intros i x y H; [destruct H|]. destruct i; cbn [pupd] in H.
  - destruct H as [<-|H]; [left; reflexivity | right; right; exact H].
  - destruct H as [<-|H]; [right; left; reflexivity|]. destruct (IH i x y H) as [->|H']; [left; reflexivity | right; right; exact H'].
Qed.

Lemma nth_pupd {A} (l : list A) i k x y r :
  nth_error l i = Some y -> nth_error (pupd l i x) k = Some r -> (k = i /\ r = x) \/ (k <> i /\ nth_error l k = Some r).
Proof.
  intros E H. destruct (Nat.eq_dec k i) as [->|N].
  - rewrite (nth_error_upd_same _ _ _ _ E) in H. injection H as <-. left. split; reflexivity.
  - rewrite (nth_error_upd_other _ _ _ _ N) in H. right. split; assumption.
Qed.

Lemma reader_gkeeps x i : GInv x -> GInv (gstep x (AR i)).
Proof.
  destruct x as [s g]. intros [I Hst Hc Hr]. cbn [fst snd] in *.
  pose proof (reader_keeps s i I) as I'.
  unfold gstep. cbn [pstep].
  destruct (nth_error (p_readers s) i) as [r|] eqn:E.
  2:{ replace (step_reader TicketLocked s i) with s by (unfold step_reader; rewrite E; reflexivity).
      constructor; cbn [fst snd]; assumption. }
  pose proof (Hr i r E) as Hri.
  pose proof (nth_error_Forall _ _ _ _ (i_readers _ I) E) as Hok.
  destruct r as [| |n|t|t v|v|v].
  - (* the read starts: it consults the cache *)
    constructor; cbn [fst snd].
    + exact I'.
    + unfold step_reader. rewrite E. cbn [p_writers p_db g_stable]. exact Hst.
    + unfold step_reader. rewrite E. cbn [p_cache p_db g_stable]. exact Hc.
    + intros k r Hk. unfold step_reader in Hk. rewrite E in Hk. cbn [p_readers] in Hk.
      unfold step_reader. rewrite E.
      destruct (nth_pupd _ _ _ _ _ _ E Hk) as [[-> ->]|[N Hk']].
      * destruct (p_cache s) as [c|] eqn:Ec; cbn [adm_ok g_adm p_db]; rewrite Nat.eqb_refl.
        -- destruct Hc as [Hc|[Hc|Hc]]; [discriminate | injection Hc as ->; right; left; reflexivity | injection Hc as ->; left; reflexivity].
        -- right. left. reflexivity.
      * specialize (Hr k r Hk'). destruct (Nat.eqb_spec k i) as [->|_]; [congruence|].
        destruct r; cbn [adm_ok g_adm p_db] in *; try rewrite <- Nat.eqb_neq in N; try rewrite N; exact Hr.
  - (* R0 *)
    constructor; cbn [fst snd]; try (unfold step_reader; rewrite E; cbn [p_writers p_db p_cache]; assumption); [exact I'|].
    intros k r Hk. unfold step_reader in Hk |- *. rewrite E in Hk |- *. cbn [p_readers] in Hk.
    destruct (nth_pupd _ _ _ _ _ _ E Hk) as [[-> ->]|[N Hk']]; [exact Hri|].
    specialize (Hr k r Hk'). destruct r; exact Hr.
  - (* R0' *)
    constructor; cbn [fst snd]; try (unfold step_reader; rewrite E; cbn [p_writers p_db p_cache]; assumption); [exact I'|].
    intros k r Hk. unfold step_reader in Hk |- *. rewrite E in Hk |- *. cbn [p_readers] in Hk.
    destruct (nth_pupd _ _ _ _ _ _ E Hk) as [[-> ->]|[N Hk']]; [exact Hri|].
    specialize (Hr k r Hk'). destruct r; exact Hr.
  - (* R1: the data layer is read *)
    constructor; cbn [fst snd]; try (unfold step_reader; rewrite E; cbn [p_writers p_db p_cache]; assumption); [exact I'|].
    intros k r Hk. unfold step_reader in Hk |- *. rewrite E in Hk |- *. cbn [p_readers] in Hk.
    destruct (nth_pupd _ _ _ _ _ _ E Hk) as [[-> ->]|[N Hk']]; [exact Hri|].
    specialize (Hr k r Hk'). destruct r; exact Hr.
  - (* R2: fill if the ticket is current *)
    assert (Hfill : (match t with Some n => Nat.eqb n (p_started s) | None => false end) = true -> v = p_db s).
    { intros Hcur. destruct t as [n|]; [|discriminate]. apply Nat.eqb_eq in Hcur. destruct Hok as [_ Hv]. apply Hv. exact Hcur. }
    constructor; cbn [fst snd].
    + exact I'.
    + unfold step_reader. rewrite E. cbn [p_writers p_db]. exact Hst.
    + unfold step_reader. rewrite E. cbn [p_cache p_db].
      destruct (match t with Some n => Nat.eqb n (p_started s) | None => false end) eqn:Ecur; [|exact Hc].
      right. left. rewrite (Hfill eq_refl). reflexivity.
    + intros k r Hk. unfold step_reader in Hk |- *. rewrite E in Hk |- *. cbn [p_readers] in Hk.
      destruct (nth_pupd _ _ _ _ _ _ E Hk) as [[-> ->]|[N Hk']]; [exact Hri|].
      specialize (Hr k r Hk'). destruct r; exact Hr.
  - destruct Hok.
  - (* finished *)
    replace (step_reader TicketLocked s i) with s by (unfold step_reader; rewrite E; reflexivity).
    constructor; cbn [fst snd]; assumption.
Qed.

Lemma others_settled s j w : PInv s -> nth_error (p_writers s) j = Some w -> w_busy w ->
  forall k w', nth_error (p_writers s) k = Some w' -> k <> j -> settled w'.
Proof.
  intros I E Hb k w' Ek N.
  pose proof (only_one_busy (p_writers s) j k w w' E Ek N Hb (i_one _ I)) as Hnb.
  destruct w'; cbn [settled w_busy] in *; try exact Logic.I; apply Hnb; exact Logic.I.
Qed.

Lemma writer_gkeeps x j : GInv x -> GInv (gstep x (AW j)).
Proof.
  destruct x as [s g]. intros [I Hst Hc Hr]. cbn [fst snd] in *.
  pose proof (writer_keeps s j I) as I'.
  unfold gstep. cbn [pstep].
  destruct (nth_error (p_writers s) j) as [w|] eqn:E.
  2:{ replace (step_writer s j) with s by (unfold step_writer; rewrite E; reflexivity). constructor; cbn [fst snd]; assumption. }
  pose proof (nth_error_Forall _ _ _ _ (i_writers _ I) E) as Hok.
  destruct w as [v|v|v| |].
  - (* the write starts *)
    unfold step_writer in *. rewrite E in *. destruct (Nat.eqb (p_started s) (p_completed s)); [|constructor; cbn [fst snd]; assumption].
    constructor; cbn [fst snd p_writers p_db p_cache p_readers]; [exact I' | | exact Hc | exact Hr].
    intros Hall. apply Hst. intros w Hw. destruct (In_nth_error _ _ Hw) as [k Ek].
    destruct (Nat.eq_dec k j) as [->|N]; [rewrite E in Ek; injection Ek as <-; exact Logic.I|].
    apply Hall. apply (nth_error_In _ k). rewrite (nth_error_upd_other _ _ _ _ N). exact Ek.
  - (* the data layer is written *)
    assert (Hold : g_stable g = p_db s).
    { apply Hst. intros w Hw. destruct (In_nth_error _ _ Hw) as [k Ek].
      destruct (Nat.eq_dec k j) as [->|N]; [rewrite E in Ek; injection Ek as <-; exact Logic.I|].
      apply (others_settled s j (W1 v) I E Logic.I k w Ek N). }
    unfold step_writer in *. rewrite E in *.
    constructor; cbn [fst snd p_writers p_db p_cache p_readers g_stable g_adm].
    + exact I'.
    + intros Hall. exfalso. apply (Hall (W2 v)). apply (nth_error_In _ j). apply (nth_error_upd_same _ _ _ _ E).
    + cbn [w_ok] in Hok. destruct Hok as [Hn|Hs]; [left; exact Hn | right; right; rewrite Hs, Hold; reflexivity].
    + intros k r Hk. specialize (Hr k r Hk).
      destruct r; cbn [adm_ok g_adm p_db] in *; try exact Logic.I; rewrite Hk; cbn [active];
        try (left; reflexivity); try (right; exact Hr); exact Hr.
  - (* write-through *)
    unfold step_writer in *. rewrite E in *. cbn [w_ok] in Hok.
    constructor; cbn [fst snd p_writers p_db p_cache p_readers g_stable g_adm].
    + exact I'.
    + intros Hall. exfalso. apply (Hall W3). apply (nth_error_In _ j). apply (nth_error_upd_same _ _ _ _ E).
    + right. left. rewrite Hok. reflexivity.
    + exact Hr.
  - (* the write ends *)
    unfold step_writer in *. rewrite E in *. cbn [w_ok] in Hok.
    constructor; cbn [fst snd p_writers p_db p_cache p_readers g_stable g_adm].
    + exact I'.
    + intros _. reflexivity.
    + destruct Hok as [Hs|Hn]; [right; left; exact Hs | left; exact Hn].
    + intros k r Hk. specialize (Hr k r Hk). destruct r; exact Hr.
  - replace (step_writer s j) with s by (unfold step_writer; rewrite E; reflexivity). constructor; cbn [fst snd]; assumption.
Qed.

Lemma evict_gkeeps x : GInv x -> GInv (gstep x AE).
Proof.
  destruct x as [s g]. intros [I Hst Hc Hr]. cbn [fst snd] in *.
  unfold gstep. cbn [pstep]. constructor; cbn [fst snd evict_cache p_db p_cache p_readers p_writers].
  - apply evict_keeps. exact I.
  - exact Hst.
  - left. reflexivity.
  - intros i r Hi. specialize (Hr i r Hi). destruct r; exact Hr.
Qed.

Theorem reads_are_regular d rs ws sched :
  let x := grun (ginit d rs ws) sched in
  forall i v, nth_error (p_readers (fst x)) i = Some (RDone v) -> In v (g_adm (snd x) i).
Proof.
  cbv zeta.
  assert (G0 : forall sched x, GInv x -> GInv (grun x sched)).
  { induction sched0 as [|a rest IH]; intros x Hx; [exact Hx|]. unfold grun. cbn [fold_left]. apply IH.
    destruct a; [apply reader_gkeeps | apply writer_gkeeps | apply evict_gkeeps]; exact Hx. }
  pose proof (G0 sched _ (ginit_inv d rs ws)) as [_ _ _ Hr]. intros i v Hi. exact (Hr i _ Hi).
Qed.

(* what the admissible values are, spelled out on an example: a read that starts while a write is
   between its data-layer step and its cache update may return the old value (from the cache) *)
Example regular_example :
  let x := grun (ginit 1 [true; true] [5])
                [AR 0; AR 0; AR 0; AR 0; AR 0;     (* read 0 alone: misses, reads 1, fills the cache *)
                 AW 0; AW 0;                       (* the write of 5 has reached the data layer, not yet the cache *)
                 AR 1;                             (* read 1 starts now and is served the old value by the cache *)
                 AW 0; AW 0] in
  returned (fst x) = [Some 1; Some 1] /\ g_adm (snd x) 1 = [1; 5] /\ p_db (fst x) = 5 /\ p_cache (fst x) = Some 5.
Proof. vm_compute. repeat split. Qed.
