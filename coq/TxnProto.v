(* C13 on the WRITING instance: requests concurrent with a publish whose transaction is open.

   A publish opens a storage transaction, writes the new node records and finally the new epoch record
   into the transaction's log, and commits: the log is drained (the transaction closed) and the
   records are handed to the data layer - or the data layer rejects them and nothing changes.  While
   the transaction is open, reads through the storage manager see its log first.

   A request reads the epoch record (a) and then node records, selected "as of a" from the two
   versions a record retains (PollProto.as_of).  [dirty] = true: the request's read of the EPOCH RECORD
   sees the log too (the code before the fix); [dirty] = false: it reads the epoch record as committed
   (StorageManager::get_committed), node records still through the log.

   Theorem (dirty = false): for every schedule - commits that succeed or are rejected, any number of
   publishes - every answer names a committed epoch a together with version a of the node, or is an
   error.  With dirty = true three schedules found on the code are refuted: the log is gone but the
   data layer not yet written (answer (e+1, version e)); the same after a rejected commit; and a
   rejected commit whose epoch was answered consistently but never existed. *)
From Coq Require Import List Arith Lia Bool.
From Akd Require Import PollProto.
Import ListNotations.

Inductive txn := XNone | XOpen (node azks : bool) | XFlight.
(* XOpen n z: open for epoch db+1, the log holds the node record (n) / the epoch record (z);
   XFlight: log drained, the records are on their way to the data layer *)

Inductive upc := U0 | U1 (a : nat) | UDone (a : nat) (r : option nat).

Record xstate := XS { x_db : nat; x_txn : txn; x_reqs : list upc }.

Fixpoint uupd (l : list upc) (i : nat) (x : upc) : list upc :=
  match l, i with
  | [], _ => []
  | _ :: r, O => x :: r
  | a :: r, S j => a :: uupd r j x
  end.

Inductive xaction := XR (i : nat) | XP | XReject.
(* XP: the publisher's next step; XReject: the data layer rejects the commit (or the publish fails
   earlier): the transaction is rolled back *)

Definition epoch_read (dirty : bool) (s : xstate) : nat :=
  match x_txn s with
  | XOpen _ true => if dirty then S (x_db s) else x_db s
  | _ => x_db s
  end.
(* the node record a read returns, given by its latest version *)
Definition node_read (s : xstate) : nat :=
  match x_txn s with
  | XOpen true _ => S (x_db s)
  | _ => x_db s
  end.

Definition xstep (dirty : bool) (s : xstate) (a : xaction) : xstate :=
  match a with
  | XR i =>
    match nth_error (x_reqs s) i with
    | Some U0 => XS (x_db s) (x_txn s) (uupd (x_reqs s) i (U1 (epoch_read dirty s)))
    | Some (U1 a) => XS (x_db s) (x_txn s) (uupd (x_reqs s) i (UDone a (as_of (node_read s) a)))
    | _ => s
    end
  | XP =>
    match x_txn s with
    | XNone => XS (x_db s) (XOpen false false) (x_reqs s)
    | XOpen false z => XS (x_db s) (XOpen true z) (x_reqs s)
    | XOpen true false => XS (x_db s) (XOpen true true) (x_reqs s)
    | XOpen true true => XS (x_db s) XFlight (x_reqs s)
    | XFlight => XS (S (x_db s)) XNone (x_reqs s)
    end
  | XReject => XS (x_db s) XNone (x_reqs s)
  end.

Definition xinit (e0 n : nat) : xstate := XS e0 XNone (repeat U0 n).
Definition xrun (dirty : bool) (s : xstate) (sched : list xaction) : xstate := fold_left (xstep dirty) sched s.

(* ------------------------------------------------------------------ epoch record read as committed *)
Definition u_ok (s : xstate) (q : upc) : Prop :=
  match q with
  | U0 => True
  | U1 a => a <= x_db s
  | UDone a r => a <= x_db s /\ (r = Some a \/ r = None)
  end.

Lemma Forall_uupd (P : upc -> Prop) : forall l i x, Forall P l -> P x -> Forall P (uupd l i x).
Proof.
  induction l as [|a l IH]; intros i x H Hx; [constructor|]. inversion H; subst.
  destruct i; cbn [uupd]; constructor; auto.
Qed.
Lemma nth_Forall_u (P : upc -> Prop) l i x : Forall P l -> nth_error l i = Some x -> P x.
Proof. intros H E. rewrite Forall_forall in H. apply H. eapply nth_error_In; eassumption. Qed.

Lemma u_ok_mono s s' : x_db s <= x_db s' -> forall q, u_ok s q -> u_ok s' q.
Proof. intros H q. destruct q as [|a|a r]; cbn [u_ok]; [auto | lia | intros [A B]; split; [lia | exact B]]. Qed.

Lemma xstep_keeps s a : Forall (u_ok s) (x_reqs s) -> Forall (u_ok (xstep false s a)) (x_reqs (xstep false s a)).
Proof.
  intros Hr. destruct a as [i| |]; cbn [xstep].
  - destruct (nth_error (x_reqs s) i) as [[|a|a r]|] eqn:E; try exact Hr.
    + cbn [x_reqs]. apply Forall_uupd; [exact Hr|]. cbn [u_ok x_db]. unfold epoch_read.
      destruct (x_txn s) as [|n [|]|]; cbn; lia.
    + pose proof (nth_Forall_u _ _ _ _ Hr E) as Ha. cbn [u_ok] in Ha.
      cbn [x_reqs]. apply Forall_uupd; [exact Hr|]. cbn [u_ok x_db]. split; [exact Ha|].
      apply as_of_right. unfold node_read. destruct (x_txn s) as [|[|] z|]; lia.
  - destruct (x_txn s) as [|[|] [|]|]; cbn [x_reqs]; try exact Hr.
    eapply Forall_impl; [|exact Hr]. intros q. apply u_ok_mono. cbn [x_db]. lia.
  - exact Hr.
Qed.

Theorem requests_answer_committed_epochs e0 n sched :
  let s := xrun false (xinit e0 n) sched in
  forall i a r, nth_error (x_reqs s) i = Some (UDone a r) -> a <= x_db s /\ (r = Some a \/ r = None).
Proof.
  cbv zeta.
  assert (G : forall sched s, Forall (u_ok s) (x_reqs s) -> Forall (u_ok (xrun false s sched)) (x_reqs (xrun false s sched))).
  { induction sched0 as [|a rest IH]; intros s Hs; [exact Hs|]. unfold xrun. cbn [fold_left]. apply IH. apply xstep_keeps. exact Hs. }
  assert (H0 : Forall (u_ok (xinit e0 n)) (x_reqs (xinit e0 n))).
  { apply Forall_forall. intros q Hq. apply repeat_spec in Hq. subst q. exact I. }
  intros i a r Hi. exact (nth_Forall_u _ _ _ _ (G sched _ H0) Hi).
Qed.

(* ------------------------------------------------------------------ the code before the fix *)
(* the request reads epoch 3 from the log; the log is drained; the node still comes from the data
   layer, which holds epoch 2: the answer is (3, version 2); then the commit arrives *)
Theorem dirty_epoch_read_refuted_early_close :
  let s := xrun true (xinit 2 1) [XP; XP; XP; XR 0; XP; XR 0; XP] in
  x_db s = 3 /\ nth_error (x_reqs s) 0 = Some (UDone 3 (Some 2)).
Proof. vm_compute. split; reflexivity. Qed.

(* the same with a rejected commit: (3, version 2), and epoch 3 does not exist *)
Theorem dirty_epoch_read_refuted_rejected_commit :
  let s := xrun true (xinit 2 1) [XP; XP; XP; XR 0; XReject; XR 0] in
  x_db s = 2 /\ nth_error (x_reqs s) 0 = Some (UDone 3 (Some 2)).
Proof. vm_compute. split; reflexivity. Qed.

(* a consistent answer for an epoch that never existed *)
Theorem dirty_epoch_read_refuted_unpublished_epoch :
  let s := xrun true (xinit 2 1) [XP; XP; XP; XR 0; XR 0; XReject] in
  x_db s = 2 /\ nth_error (x_reqs s) 0 = Some (UDone 3 (Some 3)).
Proof. vm_compute. split; reflexivity. Qed.

(* the three schedules with the epoch record read as committed *)
Example committed_epoch_read_same_schedules :
  nth_error (x_reqs (xrun false (xinit 2 1) [XP; XP; XP; XR 0; XP; XR 0; XP])) 0 = Some (UDone 2 (Some 2)) /\
  nth_error (x_reqs (xrun false (xinit 2 1) [XP; XP; XP; XR 0; XReject; XR 0])) 0 = Some (UDone 2 (Some 2)) /\
  nth_error (x_reqs (xrun false (xinit 2 1) [XP; XP; XP; XR 0; XR 0; XReject])) 0 = Some (UDone 2 (Some 2)).
Proof. vm_compute. repeat split. Qed.

(* a request that reads its epoch, then sees two further publishes complete, errors *)
Example lagging_request_errors :
  nth_error (x_reqs (xrun false (xinit 2 1) [XR 0; XP; XP; XP; XP; XP; XP; XP; XR 0])) 0 = Some (UDone 2 None).
Proof. vm_compute. reflexivity. Qed.
