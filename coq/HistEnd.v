(* C03 end to end: in every reachable state of the directory, the history proof returned for a
   published label (Complete or MostRecent r) is accepted by the client's verifier - in Default mode
   and with AllowMissingValues - and yields exactly the requested entries of the label's true
   account, newest first.  Under the stated properties of the VRF table (as for C02). *)
From Coq Require Import List Bool Arith NArith Lia Permutation.
From Akd Require Import Bits NodeLabel NodeLabelFacts BitsLabel ElemSet Hashing Tree TreeFacts TreeComplete Insert Spec SpecFacts
     InsertRefine NonMemComplete MemComplete Marker MarkerFacts MarkerBounds Directory Verify DirFacts DirRefine HistComplete LookupComplete.
Import ListNotations.
Open Scope N_scope.

(* ------------------------------------------------------------------ lists *)
Definition countdown (n : N) (k : nat) : list N := map (fun i => n - N.of_nat i) (seq 0 k).

Lemma countdown_S n k : countdown n (S k) = n :: countdown (n - 1) k.
Proof.
  unfold countdown. cbn [seq map]. f_equal; [lia|]. rewrite <- seq_shift, map_map. apply map_ext. intros i. lia.
Qed.

Lemma countdown_length n k : length (countdown n k) = k.
Proof. unfold countdown. rewrite map_length, seq_length. reflexivity. Qed.

Lemma countdown_firstn : forall j k n, (j <= k)%nat -> firstn j (countdown n k) = countdown n j.
Proof.
  induction j as [|j IH]; intros k n H; [reflexivity|]. destruct k as [|k]; [lia|].
  rewrite !countdown_S. cbn [firstn]. f_equal. apply IH. lia.
Qed.

Lemma countdown_consecutive : forall k n, (N.of_nat k <= n) -> consecutive_decreasing (countdown n k) = true.
Proof.
  induction k as [|k IH]; intros n H; [reflexivity|]. rewrite countdown_S. destruct k as [|k]; [reflexivity|].
  specialize (IH (n - 1) ltac:(lia)).
  assert (E : countdown (n - 1) (S k) = (n - 1) :: countdown (n - 1 - 1) k) by apply countdown_S.
  rewrite E in IH |- *.
  change (((n - 1) + 1 =? n) && consecutive_decreasing ((n - 1) :: countdown (n - 1 - 1) k) = true).
  rewrite IH. assert (E1 : (n - 1 + 1 =? n) = true) by (apply N.eqb_eq; lia). rewrite E1. reflexivity.
Qed.

Lemma countdown_min : forall k n a, (0 < k)%nat -> N.of_nat k <= n ->
  fold_left N.min (countdown n k) a = N.min a (n + 1 - N.of_nat k).
Proof.
  induction k as [|k IH]; intros n a Hk H; [lia|]. rewrite countdown_S. cbn [fold_left].
  destruct k as [|k]; [cbn [countdown seq map fold_left]; lia|].
  rewrite (IH (n - 1) (N.min a n) ltac:(lia) ltac:(lia)). lia.
Qed.

Lemma countdown_max : forall k n a, n <= a -> fold_left N.max (countdown n k) a = a.
Proof.
  induction k as [|k IH]; intros n a H; [reflexivity|]. rewrite countdown_S. cbn [fold_left].
  replace (N.max a n) with a by lia. apply IH. lia.
Qed.

Lemma fold_min_map {A} (f : A -> N) : forall l a, fold_left N.min (map f l) a = fold_left (fun a s => N.min a (f s)) l a.
Proof. induction l as [|x l IH]; intros a; [reflexivity|]. cbn [map fold_left]. apply IH. Qed.
Lemma fold_max_map {A} (f : A -> N) : forall l a, fold_left N.max (map f l) a = fold_left (fun a s => N.max a (f s)) l a.
Proof. induction l as [|x l IH]; intros a; [reflexivity|]. cbn [map fold_left]. apply IH. Qed.

Lemma all_some_length {A} : forall (l : list (option A)) r, all_some l = Some r -> length r = length l.
Proof.
  induction l as [|[a|] l IH]; intros r H; cbn [all_some] in H; [injection H as <-; reflexivity| |discriminate].
  destruct (all_some l) as [r'|]; [|discriminate]. injection H as <-. cbn [length]. f_equal. apply IH. reflexivity.
Qed.

Lemma all_some_map {A B} (f : A -> option B) : forall l r, all_some (map f l) = Some r ->
  Forall2 (fun x y => f x = Some y) l r.
Proof.
  induction l as [|a l IH]; intros r H; cbn [map all_some] in H; [injection H as <-; constructor|].
  destruct (f a) as [b|] eqn:E; [|discriminate]. destruct (all_some (map f l)) as [r'|]; [|discriminate]. injection H as <-.
  constructor; [exact E | apply IH; reflexivity].
Qed.

(* insertion of an older state below newer ones *)
Lemma insert_desc_app s : forall A B, (forall x, In x A -> vr_epoch s < vr_epoch x) -> insert_desc s (A ++ B) = A ++ insert_desc s B.
Proof.
  induction A as [|a A IH]; intros B H; [reflexivity|]. cbn [app insert_desc].
  assert (E : (vr_epoch a <=? vr_epoch s) = false) by (apply N.leb_gt; apply H; left; reflexivity). rewrite E.
  f_equal. apply IH. intros x Hx. apply H. right. exact Hx.
Qed.

Lemma user_history_filter sts u e : user_history sts u e = fold_right insert_desc [] (filter (fun s => bytes_eqb (vr_user s) u && (vr_epoch s <=? e)) sts).
Proof.
  unfold user_history. induction sts as [|s sts IH]; [reflexivity|]. cbn [fold_right filter].
  destruct (bytes_eqb (vr_user s) u && (vr_epoch s <=? e)); cbn [fold_right]; rewrite IH; reflexivity.
Qed.

Lemma in_insert_desc' x s l : In x (insert_desc s l) <-> x = s \/ In x l.
Proof.
  induction l as [|y l IH]; cbn [insert_desc]; [cbn; intuition|].
  destruct (vr_epoch y <=? vr_epoch s); cbn [In]; [intuition|]. rewrite IH. intuition.
Qed.

Lemma in_user_history sts u e x : In x (user_history sts u e) <-> In x sts /\ bytes_eqb (vr_user x) u && (vr_epoch x <=? e) = true.
Proof.
  unfold user_history. induction sts as [|s sts IH]; cbn [fold_right]; [cbn; intuition|].
  destruct (bytes_eqb (vr_user s) u && (vr_epoch s <=? e)) eqn:Ss.
  - rewrite in_insert_desc', IH. cbn [In]. split.
    + intros [->|[H1 H2]]; [split; [left; reflexivity | exact Ss] | split; [right; exact H1 | exact H2]].
    + intros [[<-|H1] H2]; [left; reflexivity | right; split; assumption].
  - rewrite IH. cbn [In]. split; [intros [H1 H2]; split; [right; exact H1 | exact H2]|].
    intros [[<-|H1] H2]; [congruence | split; assumption].
Qed.

Lemma user_history_app sts news u E :
  (forall s, In s sts -> vr_epoch s <= E) -> (forall n, In n news -> vr_epoch n = E + 1) ->
  user_history (sts ++ news) u (E + 1) = user_history news u (E + 1) ++ user_history sts u E.
Proof.
  intros Hs Hn.
  assert (HH : forall x, In x (user_history news u (E + 1)) -> vr_epoch x = E + 1).
  { intros x Hx. apply in_user_history in Hx. apply Hn. apply Hx. }
  unfold user_history in *. rewrite fold_right_app.
  set (f := fun (s : vrec) (acc : list vrec) => if bytes_eqb (vr_user s) u && (vr_epoch s <=? E + 1) then insert_desc s acc else acc) in *.
  set (g := fun (s : vrec) (acc : list vrec) => if bytes_eqb (vr_user s) u && (vr_epoch s <=? E) then insert_desc s acc else acc).
  set (H := fold_right f [] news) in *.
  induction sts as [|s sts IH]; [cbn [fold_right]; rewrite app_nil_r; reflexivity|].
  cbn [fold_right]. rewrite IH by (intros x Hx; apply Hs; right; exact Hx).
  pose proof (Hs s (or_introl eq_refl)) as Hse.
  change (f s (H ++ fold_right g [] sts)) with (if bytes_eqb (vr_user s) u && (vr_epoch s <=? E + 1) then insert_desc s (H ++ fold_right g [] sts) else H ++ fold_right g [] sts).
  change (g s (fold_right g [] sts)) with (if bytes_eqb (vr_user s) u && (vr_epoch s <=? E) then insert_desc s (fold_right g [] sts) else fold_right g [] sts).
  assert (E1 : (vr_epoch s <=? E + 1) = true) by (apply N.leb_le; lia).
  assert (E2 : (vr_epoch s <=? E) = true) by (apply N.leb_le; lia). rewrite E1, E2.
  destruct (bytes_eqb (vr_user s) u); cbn [andb]; [|reflexivity].
  apply insert_desc_app. intros x Hx. rewrite (HH x Hx). lia.
Qed.

(* ------------------------------------------------------------------ what a request derives, per user *)
Section Derive.
  Variable cfg : config.
  Variable ck : bytes.
  Variable vrf_label : bytes -> bool -> N -> option nlabel.

  Lemma derive_update_news st l v es ns : derive_update cfg ck vrf_label st (l, v) = Some (es, ns) ->
    (ns = [] \/ exists n, ns = [n] /\ vr_user n = l) /\
    (forall n, In n ns -> 1 < vr_version n ->
       exists sl, vrf_label (vr_user n) false (vr_version n - 1) = Some sl /\ In (El sl (c_stale_value cfg)) es).
  Proof.
    unfold Directory.derive_update. destruct (latest_state (d_states st) l (d_epoch st)) as [s|].
    - destruct (bytes_eqb (vr_value s) v); [intros [= <- <-]; split; [left; reflexivity | intros n []]|].
      destruct (vrf_label l false (vr_version s)) as [sl|] eqn:Es; [|discriminate].
      destruct (vrf_label l true (vr_version s + 1)) as [fl|]; [|discriminate].
      intros [= <- <-]. split; [right; eexists; split; reflexivity|].
      intros n [<-|[]] _. cbn [vr_user vr_version]. exists sl. split; [|left; reflexivity].
      replace (vr_version s + 1 - 1) with (vr_version s) by lia. exact Es.
    - destruct (vrf_label l true 1) as [nl|]; [|discriminate].
      intros [= <- <-]. split; [right; eexists; split; reflexivity|].
      intros n [<-|[]] H. cbn [vr_version] in H. lia.
  Qed.

  Lemma derive_all_users st : forall upds elems news, derive_all cfg ck vrf_label st upds = Some (elems, news) ->
    (forall n, In n news -> In (vr_user n) (map fst upds)) /\
    (forall n, In n news -> 1 < vr_version n ->
       exists sl, vrf_label (vr_user n) false (vr_version n - 1) = Some sl /\ In (El sl (c_stale_value cfg)) elems).
  Proof.
    induction upds as [|[l v] upds IH]; intros elems news H.
    - cbn in H. injection H as <- <-. split; intros n [].
    - cbn [Directory.derive_all] in H.
      destruct (derive_update cfg ck vrf_label st (l, v)) as [[e1 s1]|] eqn:E1; [|discriminate].
      destruct (derive_all cfg ck vrf_label st upds) as [[e2 s2]|] eqn:E2; [|discriminate]. injection H as <- <-.
      destruct (derive_update_news st l v e1 s1 E1) as [U1 U2]. destruct (IH e2 s2 eq_refl) as [A1 A2].
      split.
      + intros n Hn. apply in_app_or in Hn. destruct Hn as [Hn|Hn].
        * destruct U1 as [->|(n0 & -> & Hu)]; [destruct Hn|]. destruct Hn as [<-|[]]. left. symmetry. exact Hu.
        * right. apply A1. exact Hn.
      + intros n Hn Hv. apply in_app_or in Hn. destruct Hn as [Hn|Hn].
        * destruct (U2 n Hn Hv) as (sl & H1 & H2). exists sl. split; [exact H1 | apply in_or_app; left; exact H2].
        * destruct (A2 n Hn Hv) as (sl & H1 & H2). exists sl. split; [exact H1 | apply in_or_app; right; exact H2].
  Qed.

  Lemma derive_all_one_per_user st : forall upds elems news, has_dup (map fst upds) = false ->
    derive_all cfg ck vrf_label st upds = Some (elems, news) ->
    forall l, (length (filter (fun n => bytes_eqb (vr_user n) l) news) <= 1)%nat.
  Proof.
    induction upds as [|[l0 v] upds IH]; intros elems news Hd H l.
    - cbn in H. injection H as <- <-. cbn. lia.
    - cbn [Directory.derive_all] in H.
      destruct (derive_update cfg ck vrf_label st (l0, v)) as [[e1 s1]|] eqn:E1; [|discriminate].
      destruct (derive_all cfg ck vrf_label st upds) as [[e2 s2]|] eqn:E2; [|discriminate]. injection H as <- <-.
      cbn [map fst] in Hd. cbn [has_dup] in Hd. apply orb_false_iff in Hd. destruct Hd as [Hex Hd'].
      destruct (derive_update_news st l0 v e1 s1 E1) as [U1 _]. destruct (derive_all_users st upds e2 s2 E2) as [A1 _].
      specialize (IH e2 s2 Hd' eq_refl l). rewrite filter_app, app_length.
      destruct U1 as [->|(n0 & -> & Hu)]; [cbn; exact IH|].
      cbn [filter]. destruct (bytes_eqb (vr_user n0) l) eqn:Eb; [|cbn; exact IH].
      apply bytes_eqb_eq in Eb.
      assert (Hnone : filter (fun n => bytes_eqb (vr_user n) l) s2 = []).
      { apply filter_none. intros n Hn. destruct (bytes_eqb (vr_user n) l) eqn:E; [|reflexivity]. exfalso.
        apply bytes_eqb_eq in E. specialize (A1 n Hn). rewrite E, <- Eb, Hu in A1.
        assert (existsb (bytes_eqb l0) (map fst upds) = true); [|congruence].
        apply existsb_exists. exists l0. split; [exact A1 | apply bytes_eqb_eq; reflexivity]. }
      rewrite Hnone. cbn. lia.
  Qed.
End Derive.

(* ------------------------------------------------------------------ the invariant *)
Fixpoint sdesc (h : list vrec) : Prop :=
  match h with [] => True | a :: r => (forall x, In x r -> vr_epoch x < vr_epoch a) /\ sdesc r end.
Definition hist_ok (h : list vrec) : Prop :=
  map vr_version h = countdown (N.of_nat (length h)) (length h) /\ sdesc h.

Section HistEnd.
  Variable cfg : config.
  Variable ck : bytes.
  Variable vrf_label : bytes -> bool -> N -> option nlabel.
  Variable vrf_proof : bytes -> bool -> N -> option bytes.
  Variable vrf_check : bytes -> bytes -> bytes -> option bytes.
  Variable pk : bytes.
  Hypothesis Ce : canonical (c_empty_label cfg) = false.
  Hypothesis vrf_good : forall l f v nl, vrf_label l f v = Some nl -> WF nl /\ canonical nl = true /\ llen nl = 256.
  Hypothesis vrf_inj : forall l f v l' f' v' nl, vrf_label l f v = Some nl -> vrf_label l' f' v' = Some nl -> l = l' /\ f = f' /\ v = v'.
  Hypothesis vrf_complete : forall l f v nl pr, vrf_label l f v = Some nl -> vrf_proof l f v = Some pr ->
    vrf_check pk pr (label_input_hash cfg l f v) = Some (lval nl).

  Notation publish := (publish cfg ck vrf_label).
  Notation DirInv2 := (DirInv2 cfg ck vrf_label).

  Record Inv3 (st : dstate) : Prop := {
    i3_inv2 : DirInv2 st;
    i3_hist : forall l, hist_ok (user_history (d_states st) l (d_epoch st));
    i3_stale : forall s, In s (d_states st) -> 1 < vr_version s ->
      exists nl, vrf_label (vr_user s) false (vr_version s - 1) = Some nl /\
                 In (LF nl (c_stale_value cfg) (vr_epoch s)) (leaves (d_tree st)) }.

  Lemma dir_new_inv3 : Inv3 dir_new.
  Proof.
    constructor; [apply (dir_new_inv2 cfg ck vrf_label vrf_proof vrf_check pk vrf_good vrf_inj vrf_complete) | | intros s []].
    intros l. cbn. split; [reflexivity | exact I].
  Qed.

  (* the number of versions of a label is the length of its history *)
  Lemma ver_length st l : Inv3 st -> ver st l = N.of_nat (length (user_history (d_states st) l (d_epoch st))).
  Proof.
    intros [I2 Ih _]. pose proof (d2_inv cfg ck vrf_label _ I2) as I. specialize (Ih l). destruct Ih as [Hv _]. unfold ver.
    destruct (user_history (d_states st) l (d_epoch st)) as [|d0 r] eqn:Eh.
    - destruct (latest_state (d_states st) l (d_epoch st)) as [s|] eqn:El; [|reflexivity]. exfalso.
      destruct (latest_state_max cfg vrf_label vrf_proof vrf_good vrf_inj _ _ _ _ El) as (Hin & Hsel & _).
      assert (Hx : In s (user_history (d_states st) l (d_epoch st))) by (apply in_user_history; split; assumption).
      rewrite Eh in Hx. destruct Hx.
    - rewrite (user_history_head cfg ck vrf_label vrf_proof vrf_good vrf_inj st l d0 r I Eh).
      cbn [length map] in Hv. rewrite countdown_S in Hv. injection Hv as Hv _. rewrite Hv. cbn [length]. reflexivity.
  Qed.

  Lemma sdesc_cons_new n h E : (forall x, In x h -> vr_epoch x <= E) -> vr_epoch n = E + 1 -> sdesc h -> sdesc (n :: h).
  Proof. intros H1 H2 H3. cbn [sdesc]. split; [|exact H3]. intros x Hx. specialize (H1 x Hx). lia. Qed.

  Lemma publish_keeps_inv3 st upds : Inv3 st -> Inv3 (fst (publish st upds)).
  Proof.
    intros I3. pose proof I3 as [I2 Ih Is].
    pose proof (publish_keeps_inv2 cfg ck vrf_label vrf_proof vrf_check pk Ce vrf_good vrf_inj vrf_complete st upds I2) as I2'.
    destruct (publish st upds) as [st' res] eqn:E. cbn [fst] in *.
    destruct res as [p| | | | |];
      try (rewrite (publish_not_ok_same cfg ck vrf_label st upds st' _ E ltac:(intros x; discriminate)); exact I3).
    destruct p as [e h]. pose proof (d2_inv cfg ck vrf_label _ I2) as I.
    destruct (publish_step cfg ck vrf_label Ce vrf_good vrf_inj st upds st' e h I E) as (I' & _ & _ & [->|(elems & news & Ed & Eep & Est & Pr)]); [exact I3|].
    pose proof I as [Itree Iep Iver Ilv Idist Ivle].
    assert (Hd : has_dup (map fst upds) = false).
    { unfold Directory.publish in E. destruct (has_dup (map fst upds)); [discriminate | reflexivity]. }
    destruct (derive_all_spec cfg ck vrf_label vrf_inj st upds elems news Iver Hd Ed) as (D1 & D2 & D3 & D4 & D5).
    assert (Hnews_ep : forall n, In n news -> vr_epoch n = d_epoch st + 1).
    { intros n Hn. destruct (D3 n Hn) as (l & v & nl & _ & ->). reflexivity. }
    destruct (derive_all_users cfg ck vrf_label st upds elems news Ed) as [_ Dstale].
    constructor; [exact I2'| |].
    - (* histories *)
      intros l. rewrite Est, Eep. rewrite (user_history_app (d_states st) news l (d_epoch st) Iep Hnews_ep).
      specialize (Ih l). set (old := user_history (d_states st) l (d_epoch st)) in *.
      assert (Hold : forall x, In x old -> vr_epoch x <= d_epoch st).
      { intros x Hx. apply in_user_history in Hx. apply Iep. apply Hx. }
      rewrite user_history_filter.
      assert (Ef : filter (fun s => bytes_eqb (vr_user s) l && (vr_epoch s <=? d_epoch st + 1)) news = filter (fun n => bytes_eqb (vr_user n) l) news).
      { apply filter_ext_in. intros n Hn. rewrite (Hnews_ep n Hn), N.leb_refl, andb_true_r. reflexivity. }
      rewrite Ef. pose proof (derive_all_one_per_user cfg ck vrf_label st upds elems news Hd Ed l) as Hone.
      destruct (filter (fun n => bytes_eqb (vr_user n) l) news) as [|n [|n2 r2]] eqn:Efl; [exact Ih| |cbn [length] in Hone; lia].
      cbn [fold_right insert_desc app].
      assert (Hn : In n news /\ vr_user n = l).
      { assert (Hx : In n (filter (fun n => bytes_eqb (vr_user n) l) news)) by (rewrite Efl; left; reflexivity).
        apply filter_In in Hx. destruct Hx as [Hx1 Hx2]. apply bytes_eqb_eq in Hx2. split; assumption. }
      destruct Hn as [Hn Hu]. destruct (D3 n Hn) as (l2 & v2 & nl & _ & En).
      assert (El2 : l2 = l) by (rewrite En in Hu; exact Hu). subst l2.
      destruct Ih as [Hv Hs]. split.
      + cbn [map length]. rewrite countdown_S. f_equal.
        * rewrite En. cbn [vr_version]. rewrite (ver_length st l I3). fold old. lia.
        * rewrite Hv. f_equal. lia.
      + apply (sdesc_cons_new n old (d_epoch st) Hold (Hnews_ep n Hn) Hs).
    - (* stale leaves *)
      intros s Hs Hv. rewrite Est in Hs. apply in_app_or in Hs. destruct Hs as [Hs|Hs].
      + destruct (Is s Hs Hv) as (nl & H1 & H2). exists nl. split; [exact H1|].
        apply (Permutation_in _ (Permutation_sym Pr)). apply in_or_app. left. exact H2.
      + destruct (Dstale s Hs Hv) as (sl & H1 & H2). exists sl. split; [exact H1|].
        apply (Permutation_in _ (Permutation_sym Pr)). apply in_or_app. right. rewrite (Hnews_ep s Hs).
        apply in_map_iff. exists (El sl (c_stale_value cfg)). split; [reflexivity | exact H2].
  Qed.

  Theorem inv3_reachable reqs : Inv3 (run_publishes cfg ck vrf_label dir_new reqs).
  Proof.
    assert (G : forall reqs st, Inv3 st -> Inv3 (run_publishes cfg ck vrf_label st reqs)).
    { induction reqs0 as [|r rest IH]; intros st I; [exact I|]. cbn [run_publishes]. apply IH. apply publish_keeps_inv3. exact I. }
    apply G. apply dir_new_inv3.
  Qed.

  (* ------------------------------------------------------------------ verification of the parts *)
  Notation root st := (root_hash cfg true (d_tree st)).
  Definition entry (s : vrec) : verify_result := VRes (vr_epoch s) (vr_version s) (vr_value s).

  Lemma tree_is_root st : Inv3 st -> tlabel (d_tree st) = nl_root /\ is_leaf (d_tree st) = false /\ canon_root (d_tree st).
  Proof.
    intros [I2 _ _]. pose proof (d2_inv cfg ck vrf_label _ I2) as [[Hc _] _ _ _ _ _].
    destruct (d_tree st) as [|l0 le mde a b]; [destruct Hc|]. pose proof Hc as (-> & _). split; [reflexivity|]. split; [reflexivity | exact Hc].
  Qed.

  (* a leaf known to be in the tree: the prover's membership proof for its label names it and verifies *)
  Lemma leaf_existence st l f v nl pr c e :
    Inv3 st -> vrf_label l f v = Some nl -> vrf_proof l f v = Some pr -> In (LF nl c e) (leaves (d_tree st)) ->
    verify_existence cfg vrf_check pk (root st) l f v pr (get_membership_proof cfg (d_tree st) nl) = true /\
    mp_hash_val (get_membership_proof cfg (d_tree st) nl) = c_leaf_hash cfg c e.
  Proof.
    intros I3 Hl Hp Hin. destruct (tree_is_root st I3) as (Hr & Hlf & Hc).
    destruct (vrf_good _ _ _ _ Hl) as (W & C & L).
    destruct (membership_proof_of_leaf cfg (d_tree st) (LF nl c e) Hc Hin W C) as [Lb Hv].
    { cbn [lf_label]. rewrite length_bits_of by exact W. rewrite L. reflexivity. }
    cbn [lf_label lf_value lf_epoch] in Lb, Hv. split; [|exact Hv].
    unfold verify_existence. rewrite Lb.
    rewrite (verify_label_ok cfg vrf_label vrf_proof vrf_check pk vrf_good vrf_complete l f v nl pr Hl Hp).
    apply gen_membership_verifies; assumption.
  Qed.

  Lemma single_update_ok st l s u am :
    Inv3 st -> In s (d_states st) -> vr_user s = l ->
    single_update_proof cfg ck vrf_label vrf_proof (d_tree st) l s = Some u ->
    verify_single_update cfg vrf_check pk (root st) l am u = Some (entry s) /\ up_epoch u = vr_epoch s /\ up_version u = vr_version s.
  Proof.
    intros I3 Hs Hu Hsp. pose proof I3 as [I2 _ Istale]. pose proof I2 as [I Ileaf Iv].
    unfold single_update_proof, opt_bind in Hsp.
    destruct (vrf_label l true (vr_version s)) as [el|] eqn:Eel; [|discriminate].
    destruct (vrf_proof l true (vr_version s)) as [ep|] eqn:Eep; [|discriminate].
    (* the fresh leaf *)
    destruct (Ileaf s Hs) as (y & Hy & Hin). unfold fresh_leaf in Hy. rewrite Hu, Eel in Hy. injection Hy as <-.
    destruct (leaf_existence st l true (vr_version s) el ep _ _ I3 Eel Eep Hin) as [Vex Hhash].
    assert (Ok1 : (if am && is_tombstone (vr_value s)
                   then verify_existence cfg vrf_check pk (root st) l true (vr_version s) ep (get_membership_proof cfg (d_tree st) el)
                   else verify_existence_with_val cfg vrf_check pk (root st) l (vr_value s) (vr_epoch s)
                          (c_commitment_nonce cfg ck (nl_to_bytes el) (vr_version s) (vr_value s)) true (vr_version s) ep
                          (get_membership_proof cfg (d_tree st) el)) = true).
    { destruct (am && is_tombstone (vr_value s)); [exact Vex|].
      unfold verify_existence_with_val. rewrite Vex, Hhash. unfold leaf_hash_with_value, fresh_value.
      rewrite (proj2 (bytes_eqb_eq _ _) eq_refl). reflexivity. }
    destruct (N.ltb_spec 1 (vr_version s)) as [Hv1|Hv1].
    - destruct (vrf_label l false (vr_version s - 1)) as [pl|] eqn:Epl; [|discriminate].
      destruct (vrf_proof l false (vr_version s - 1)) as [pp|] eqn:Epp; [|discriminate].
      injection Hsp as <-. unfold verify_single_update. cbn [up_value up_version up_existence_vrf up_existence up_epoch up_nonce up_prev up_prev_vrf fst snd].
      rewrite Ok1. cbn [negb].
      assert (E1 : (vr_version s <=? 1) = false) by (apply N.leb_gt; exact Hv1). rewrite E1.
      destruct (Istale s Hs Hv1) as (nl & Hnl & Hin2). rewrite Hu, Epl in Hnl. injection Hnl as <-.
      destruct (leaf_existence st l false (vr_version s - 1) pl pp _ _ I3 Epl Epp Hin2) as [Vst Hst].
      unfold verify_existence_with_commitment. rewrite Vst, Hst, (proj2 (bytes_eqb_eq _ _) eq_refl). cbn [andb].
      split; [reflexivity | split; reflexivity].
    - injection Hsp as <-. unfold verify_single_update. cbn [up_value up_version up_existence_vrf up_existence up_epoch up_nonce up_prev up_prev_vrf fst snd].
      rewrite Ok1. cbn [negb].
      assert (E1 : (vr_version s <=? 1) = true) by (apply N.leb_le; exact Hv1). rewrite E1.
      split; [reflexivity | split; reflexivity].
  Qed.

  Lemma sdesc_firstn : forall k h, sdesc h -> sdesc (firstn k h).
  Proof.
    induction k as [|k IH]; intros h H; [exact I|]. destruct h as [|a r]; [exact I|]. cbn [firstn sdesc]. destruct H as [H1 H2].
    split; [|apply IH; exact H2]. intros x Hx. apply H1. apply (in_firstn' x k). exact Hx.
  Qed.

  Lemma updates_ok st l am : Inv3 st -> forall data ups prev,
    (forall s, In s data -> In s (d_states st) /\ vr_user s = l) -> sdesc data ->
    (match prev, data with Some pe, d0 :: _ => vr_epoch d0 < pe | _, _ => True end) ->
    all_some (map (single_update_proof cfg ck vrf_label vrf_proof (d_tree st) l) data) = Some ups ->
    verify_updates cfg vrf_check pk (root st) l am prev ups = Some (map entry data) /\ map up_version ups = map vr_version data.
  Proof.
    intros I3. induction data as [|s data IH]; intros ups prev Hin Hsd Hprev H.
    - cbn in H. injection H as <-. split; reflexivity.
    - cbn [map all_some] in H.
      destruct (single_update_proof cfg ck vrf_label vrf_proof (d_tree st) l s) as [u|] eqn:Eu; [|discriminate].
      destruct (all_some (map (single_update_proof cfg ck vrf_label vrf_proof (d_tree st) l) data)) as [us|] eqn:Eus; [|discriminate].
      injection H as <-. destruct (Hin s (or_introl eq_refl)) as [Hs Hu].
      destruct (single_update_ok st l s u am I3 Hs Hu Eu) as (V1 & V2 & V3).
      cbn [sdesc] in Hsd. destruct Hsd as [Hlt Hsd'].
      destruct (IH us (Some (vr_epoch s)) (fun x Hx => Hin x (or_intror Hx)) Hsd'
                  ltac:(destruct data as [|d1 r]; [exact I | apply Hlt; left; reflexivity]) eq_refl) as [W1 W2].
      cbn [verify_updates map].
      assert (Ep : match prev with Some pe => pe <? up_epoch u | None => false end = false).
      { destruct prev as [pe|]; [|reflexivity]. rewrite V2. apply N.ltb_ge. lia. }
      rewrite Ep, V1, V2, W1, V3, W2. split; reflexivity.
  Qed.

  Lemma forall3_maps {X Y Z} (P : N -> X -> Z -> bool) (f1 : N -> option X) (f2 : N -> option Y) (g : Y -> Z) :
    forall vs xs ys, (forall v x y, In v vs -> f1 v = Some x -> f2 v = Some y -> P v x (g y) = true) ->
    all_some (map f1 vs) = Some xs -> all_some (map f2 vs) = Some ys -> forall3 P vs xs (map g ys) = true.
  Proof.
    induction vs as [|v vs IH]; intros xs ys H H1 H2; [reflexivity|].
    cbn [map all_some] in H1, H2.
    destruct (f1 v) as [x|] eqn:E1; [|discriminate]. destruct (all_some (map f1 vs)) as [xs'|] eqn:E1'; [|discriminate]. injection H1 as <-.
    destruct (f2 v) as [y|] eqn:E2; [|discriminate]. destruct (all_some (map f2 vs)) as [ys'|] eqn:E2'; [|discriminate]. injection H2 as <-.
    cbn [map forall3]. rewrite (H v x y (or_introl eq_refl) E1 E2). cbn [andb].
    apply IH; [intros v' x' y' Hv'; apply H; right; exact Hv' | reflexivity | reflexivity].
  Qed.

  Lemma all_some_fwd {A B} (f : A -> option B) : forall l r x y, all_some (map f l) = Some r -> In x l -> f x = Some y -> In y r.
  Proof.
    induction l as [|a l IH]; intros r x y H Hx Hy; [destruct Hx|]. cbn [map all_some] in H.
    destruct (f a) as [b|] eqn:E; [|discriminate]. destruct (all_some (map f l)) as [r'|] eqn:E'; [|discriminate]. injection H as <-.
    destruct Hx as [->|Hx]; [left; congruence | right; apply (IH r' x y eq_refl Hx Hy)].
  Qed.

  Definition hist_data (st : dstate) (l : bytes) (params : history_params) : list vrec :=
    let all := user_history (d_states st) l (d_epoch st) in
    match params with HComplete => all | HMostRecent n => firstn (N.to_nat n) all end.

  (* C03: the client accepts the history proof and obtains exactly the requested entries *)
  Theorem key_history_complete st l params am p eh :
    Inv3 st -> key_history cfg ck vrf_label vrf_proof st l params = DOk (p, eh) ->
    key_history_verify cfg vrf_check pk (snd eh) (fst eh) l p params am = Some (map entry (hist_data st l params)).
  Proof.
    intros I3 Hk. pose proof I3 as [I2 Ih Istale]. pose proof I2 as [I Ileaf Iv]. pose proof I as [Itree Iep Iver Ilv Idist Ivle].
    destruct (history_tree_parts_verify cfg ck vrf_label vrf_proof Ce vrf_good vrf_inj st l params p eh I Hk) as (Eeh & _ & _ & Ffut).
    destruct (tree_is_root st I3) as (Hr & Hlf & Hc).
    unfold Directory.key_history in Hk. fold (hist_data st l params) in Hk.
    set (all := user_history (d_states st) l (d_epoch st)) in *.
    set (data := hist_data st l params) in *.
    destruct data as [|d0 rest] eqn:Ed; [discriminate|]. rewrite <- Ed in *.
    set (start_s := fold_left (fun a s => N.min a (vr_version s)) data (vr_version d0)) in *.
    set (end_s := fold_left (fun a s => N.max a (vr_version s)) data (vr_version d0)) in *.
    destruct ((start_s =? 0) || (end_s =? 0)) eqn:Ez; [discriminate|].
    destruct (get_marker_versions start_s end_s (d_epoch st)) as [[past future]|] eqn:Em; [|discriminate].
    destruct (all_some (map (single_update_proof cfg ck vrf_label vrf_proof (d_tree st) l) data)) as [ups|] eqn:Eu; [|discriminate].
    destruct (all_some (map (fun v => vrf_proof l true v) past)) as [pvp|] eqn:Epvp; [|discriminate].
    destruct (all_some (map (fun v => vrf_label l true v) past)) as [pls|] eqn:Epls; [|discriminate].
    destruct (all_some (map (fun v => vrf_proof l true v) future)) as [fvp|] eqn:Efvp; [|discriminate].
    destruct (all_some (map (fun v => vrf_label l true v) future)) as [fls|] eqn:Efls; [|discriminate].
    injection Hk as <- <-. cbn [epoch_hash fst snd hp_future] in *.
    (* the shape of the data *)
    specialize (Ih l). fold all in Ih. destruct Ih as [Hvers Hsd].
    set (Nn := N.of_nat (length all)) in *.
    assert (Hdata_all : exists j, data = firstn j all /\ (j <= length all)%nat /\
              match params with HComplete => j = length all | HMostRecent r => j = Nat.min (N.to_nat r) (length all) end).
    { unfold data, hist_data. fold all. destruct params as [|r].
      - exists (length all). split; [symmetry; apply firstn_all | split; [lia | reflexivity]].
      - exists (Nat.min (N.to_nat r) (length all)). split; [|split; [lia | reflexivity]].
        destruct (Nat.le_ge_cases (N.to_nat r) (length all)) as [H|H].
        + rewrite Nat.min_l by exact H. reflexivity.
        + rewrite Nat.min_r by exact H. rewrite firstn_all. apply firstn_all2. exact H. }
    destruct Hdata_all as (j & Edj & Hj & Hpar).
    assert (Hlen : length data = j) by (rewrite Edj; apply firstn_length_le; exact Hj).
    assert (Hj1 : (1 <= j)%nat) by (rewrite <- Hlen, Ed; cbn [length]; lia).
    assert (Hvd : map vr_version data = countdown Nn j).
    { rewrite Edj, <- firstn_map, Hvers. apply countdown_firstn. exact Hj. }
    assert (Hd0 : vr_version d0 = Nn).
    { rewrite Ed in Hvd. cbn [map] in Hvd. destruct j as [|j']; [lia|]. rewrite countdown_S in Hvd. injection Hvd as Hvd _. exact Hvd. }
    assert (Hin_data : forall s, In s data -> In s (d_states st) /\ vr_user s = l).
    { intros s Hs. rewrite Edj in Hs. apply in_firstn' in Hs. apply in_user_history in Hs. destruct Hs as [H1 H2].
      apply andb_true_iff in H2. destruct H2 as [H2 _]. apply bytes_eqb_eq in H2. split; assumption. }
    assert (Hsd_data : sdesc data) by (rewrite Edj; apply sdesc_firstn; exact Hsd).
    destruct (updates_ok st l am I3 data ups None Hin_data Hsd_data Logic.I Eu) as [Vups Vvers].
    assert (HjN : N.of_nat j <= Nn) by (unfold Nn; lia).
    (* start and end as both sides compute them *)
    assert (Es : start_s = Nn + 1 - N.of_nat j).
    { unfold start_s. rewrite <- (fold_min_map vr_version), Hvd, Hd0, (countdown_min j Nn Nn ltac:(lia) HjN). lia. }
    assert (Ee : end_s = Nn).
    { unfold end_s. rewrite <- (fold_max_map vr_version), Hvd, Hd0. apply countdown_max. lia. }
    apply orb_false_iff in Ez. destruct Ez as [Ez1 Ez2].
    assert (HNe : Nn <= d_epoch st).
    { destruct (Hin_data d0 ltac:(rewrite Ed; left; reflexivity)) as [Hs0 _]. pose proof (Ivle d0 Hs0). pose proof (Iep d0 Hs0). lia. }
    assert (Hver : ver st l = Nn) by (apply ver_length; exact I3).
    (* the verifier *)
    unfold key_history_verify, verify_history_shape. cbn [hp_updates hp_past_vrf hp_past hp_future_vrf hp_future].
    rewrite Vvers, Hvd. destruct j as [|j']; [lia|]. rewrite countdown_S. rewrite <- countdown_S.
    rewrite (countdown_consecutive (S j') Nn HjN). cbn [negb].
    rewrite (countdown_min (S j') Nn Nn ltac:(lia) HjN), (countdown_max (S j') Nn Nn ltac:(lia)).
    replace (N.min Nn (Nn + 1 - N.of_nat (S j'))) with start_s by lia. rewrite Ez1.
    assert (E1 : (d_epoch st <? Nn) = false) by (apply N.ltb_ge; exact HNe). rewrite E1.
    rewrite countdown_length.
    assert (Epar : negb (match params with
                         | HComplete => start_s =? 1
                         | HMostRecent r => if r <? N.of_nat (S j') then false else if N.of_nat (S j') <? r then start_s =? 1 else true
                         end) = false).
    { apply negb_false_iff. destruct params as [|r].
      - apply N.eqb_eq. lia.
      - destruct (N.ltb_spec r (N.of_nat (S j'))) as [H|H]; [lia|].
        destruct (N.ltb_spec (N.of_nat (S j')) r) as [H2|H2]; [|reflexivity]. apply N.eqb_eq. lia. }
    rewrite Epar. rewrite <- Ee at 1. rewrite Em.
    assert (L1 : length pvp = length past) by (rewrite (all_some_length _ _ Epvp); apply map_length).
    assert (L2 : length pls = length past) by (rewrite (all_some_length _ _ Epls); apply map_length).
    assert (L3 : length fvp = length future) by (rewrite (all_some_length _ _ Efvp); apply map_length).
    assert (L4 : length fls = length future) by (rewrite (all_some_length _ _ Efls); apply map_length).
    rewrite !map_length, L1, L2, L3, L4, !Nat.eqb_refl.
    cbn [negb]. rewrite Vups.
    (* past markers *)
    assert (Fp : forall3 (fun v vp mp => verify_existence cfg vrf_check pk (root st) l true v vp mp) past pvp
                         (map (get_membership_proof cfg (d_tree st)) pls) = true).
    { apply (forall3_maps _ (fun v => vrf_proof l true v) (fun v => vrf_label l true v)); [|exact Epvp|exact Epls].
      intros v vp nl Hv Hvp Hnl.
      destruct (get_marker_versions_past start_s end_s (d_epoch st) past future ltac:(apply N.eqb_neq; exact Ez1) Em v Hv) as [B1 B2].
      destruct (Iv l v B1 ltac:(rewrite Hver; lia)) as (sm & Hsm & Hum & Hvm).
      destruct (Ileaf sm Hsm) as (y & Hy & Hin). unfold fresh_leaf in Hy. rewrite Hum, Hvm, Hnl in Hy. injection Hy as <-.
      apply (leaf_existence st l true v nl vp _ _ I3 Hnl Hvp Hin). }
    rewrite Fp. cbn [negb].
    (* future markers *)
    assert (Ff : forall3 (fun v vp np => verify_nonexistence cfg vrf_check pk (root st) l true v vp np) future fvp
                         (map (get_non_membership_proof cfg (d_tree st)) fls) = true).
    { apply (forall3_maps _ (fun v => vrf_proof l true v) (fun v => vrf_label l true v)); [|exact Efvp|exact Efls].
      intros v vp nl Hv Hvp Hnl. unfold verify_nonexistence.
      assert (Enpl : np_label (get_non_membership_proof cfg (d_tree st) nl) = nl).
      { unfold get_non_membership_proof. destruct (lcp_walk cfg walk_fuel (d_tree st) nl). reflexivity. }
      rewrite Enpl, (verify_label_ok cfg vrf_label vrf_proof vrf_check pk vrf_good vrf_complete l true v nl vp Hnl Hvp). cbn [andb].
      rewrite Forall_forall in Ffut. apply Ffut. apply in_map. apply (all_some_fwd _ _ _ v nl Efls Hv Hnl). }
    rewrite Ff. reflexivity.
  Qed.

  Theorem key_history_reachable reqs l params am p eh :
    let st := run_publishes cfg ck vrf_label dir_new reqs in
    key_history cfg ck vrf_label vrf_proof st l params = DOk (p, eh) ->
    key_history_verify cfg vrf_check pk (snd eh) (fst eh) l p params am = Some (map entry (hist_data st l params)).
  Proof. cbv zeta. apply key_history_complete. apply inv3_reachable. Qed.
End HistEnd.
