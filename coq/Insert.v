(* Tree-level model of Azks::batch_insert_nodes / recursive_batch_insert_nodes
   (append_only_zks.rs:336-530) and TreeNode::set_child (tree_node.rs:406-435).  Layer L3.
   The store-level details (parent field, previous-version shifting) are layer L4 (Store.v). *)
From Coq Require Import List Bool Arith NArith Lia.
From Akd Require Import Bits NodeLabel ElemSet Hashing Tree.
Import ListNotations.
Open Scope N_scope.

(* set_child: None = TreeNodeError::NoDirection.  A leaf is never given children by the
   directory or the auditor; the model treats that as an error. *)
Definition set_child (parent c : tree) : option tree :=
  match parent with
  | Leaf _ _ _ => None
  | Node l le mde a b =>
    let le' := N.max le (t_last_epoch c) in
    let mde' := if mde =? 0 then t_min_desc c else N.min mde (t_min_desc c) in
    match get_prefix_ordering l (tlabel c) with
    | None => None
    | Some false => Some (Node l le' mde' (Some c) b)
    | Some true => Some (Node l le' mde' a (Some c))
    end
  end.

Definition eset_is_empty (s : eset) : bool := match eset_list s with [] => true | _ => false end.

Section Insert.
  Variable empty : nlabel.    (* TC::empty_label() *)

  (* returns the (sub)tree root, whether it is new, and the number of nodes created *)
  Fixpoint ins (fuel : nat) (t : option tree) (s : eset) (epoch : N) : option (tree * bool * N) :=
    match fuel with
    | O => None
    | S f =>
      let cur : option (tree * bool * N) :=
        match t with
        | Some ex =>
          let set_lcp := eset_lcp empty s in
          let l := get_longest_common_prefix empty (tlabel ex) set_lcp in
          if llen l <? llen (tlabel ex) then
            (* case 1a: decompress *)
            match set_child (Node l epoch epoch None None) ex with
            | Some n => Some (n, true, 1)
            | None => None
            end
          else Some (ex, false, 0)               (* case 1b *)
        | None =>
          match eset_list s with
          | [x] => Some (Leaf (e_label x) (e_value x) epoch, true, 1)               (* case 2 *)
          | _ => Some (Node (eset_lcp empty s) epoch epoch None None, true, 1)     (* case 3 *)
          end
        end in
      match cur with
      | None => None
      | Some (cn, is_new, k) =>
        let '(L, R) := eset_partition s (tlabel cn) in
        let after_left : option (tree * N) :=
          if eset_is_empty L then Some (cn, k)
          else match ins f (child cn false) L epoch with
               | None => None
               | Some (c, _, k') =>
                 match set_child cn c with Some cn' => Some (cn', k + k') | None => None end
               end in
        match after_left with
        | None => None
        | Some (cn1, k1) =>
          if eset_is_empty R then Some (cn1, is_new, k1)
          else match ins f (child cn1 true) R epoch with
               | None => None
               | Some (c, _, k') =>
                 match set_child cn1 c with Some cn2 => Some (cn2, is_new, k1 + k') | None => None end
               end
        end
      end
    end.

  Definition ins_fuel : nat := 300.

  (* Azks::batch_insert_nodes on (root tree, latest_epoch, num_nodes); the epoch is incremented
     even for an empty set *)
  Definition batch_insert (st : tree * N * N) (elems : list elem) : option (tree * N * N) :=
    let '(root, latest, num) := st in
    let s := eset_from elems in
    let epoch := latest + 1 in
    if eset_is_empty s then Some (root, epoch, num)
    else match ins ins_fuel (Some root) s epoch with
         | Some (r, _, k) => Some (r, epoch, num + k)
         | None => None
         end.
End Insert.

(* Azks::new *)
Definition azks_new : tree * N * N := (empty_root, 0, 1).
