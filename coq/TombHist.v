(* C20, the history part: after the values of some states have been replaced by tombstones (any
   presentation map g that keeps user, epoch and version and changes a value only into the
   tombstone), in every reachable state:
   - with AllowMissingValues the history proof is accepted and reports the same versions and epochs,
     tombstoned values empty and the other values intact;
   - in Default mode it is accepted iff no requested entry was changed: if one was, verification
     fails (or the bad event of the configuration occurred).
   The tree is untouched, so the proof is the one of HistEnd.v with other value / nonce fields. *)
From Coq Require Import List Bool Arith NArith Lia Permutation.
From Akd Require HashingFacts.
From Akd Require Import Bits NodeLabel NodeLabelFacts BitsLabel ElemSet Hashing Tree TreeFacts TreeComplete Binding Insert Spec SpecFacts
     InsertRefine NonMemComplete MemComplete Marker MarkerFacts MarkerBounds Directory Verify DirFacts DirRefine HistComplete LookupComplete HistEnd.
Import ListNotations.
Open Scope N_scope.

Section Present.
  Variable g : vrec -> vrec.
  Hypothesis g_user : forall s, vr_user (g s) = vr_user s.
  Hypothesis g_epoch : forall s, vr_epoch (g s) = vr_epoch s.
  Hypothesis g_version : forall s, vr_version (g s) = vr_version s.

  Lemma insert_desc_map s : forall h, insert_desc (g s) (map g h) = map g (insert_desc s h).
  Proof.
    induction h as [|x h IH]; [reflexivity|]. cbn [map insert_desc]. rewrite !g_epoch.
    destruct (vr_epoch x <=? vr_epoch s); [reflexivity|]. cbn [map]. rewrite IH. reflexivity.
  Qed.

  Lemma user_history_map sts u e : user_history (map g sts) u e = map g (user_history sts u e).
  Proof.
    unfold user_history. induction sts as [|s sts IH]; [reflexivity|]. cbn [map fold_right]. rewrite IH, g_user, g_epoch.
    destruct (bytes_eqb (vr_user s) u && (vr_epoch s <=? e)); [apply insert_desc_map | reflexivity].
  Qed.

  Lemma sdesc_map h : sdesc h -> sdesc (map g h).
  Proof.
    induction h as [|a r IH]; [intros _; exact I|]. cbn [map sdesc]. intros [H1 H2]. split; [|apply IH; exact H2].
    intros x Hx. apply in_map_iff in Hx. destruct Hx as (y & <- & Hy). rewrite !g_epoch. apply H1. exact Hy.
  Qed.
End Present.

Section TombHist.
  Variable cfg : config.
  Variable ck : bytes.
  Variable vrf_label : bytes -> bool -> N -> option nlabel.
  Variable vrf_proof : bytes -> bool -> N -> option bytes.
  Variable vrf_check : bytes -> bytes -> bytes -> option bytes.
  Variable pk : bytes.
  Hypothesis Ce : canonical (c_empty_label cfg) = false.
  Hypothesis vrf_good : forall l f v nl, vrf_label l f v = Some nl -> WF nl /\ canonical nl = true /\ llen nl = 256.
  Hypothesis vrf_inj : forall l f v l' f' v' nl, vrf_label l f v = Some nl -> vrf_label l' f' v' = Some nl -> l = l' /\ f = f' /\ v = v'.
  Hypothesis vrf_complete : forall l f v nl pr, vrf_label l f v = Some nl -> vrf_proof l f v = Some pr ->
    vrf_check pk pr (label_input_hash cfg l f v) = Some (lval nl).

  Variable g : vrec -> vrec.
  Hypothesis g_user : forall s, vr_user (g s) = vr_user s.
  Hypothesis g_epoch : forall s, vr_epoch (g s) = vr_epoch s.
  Hypothesis g_version : forall s, vr_version (g s) = vr_version s.
  Hypothesis g_value : forall s, vr_value (g s) = vr_value s \/ vr_value (g s) = GenConsts.TOMBSTONE.

  Notation Inv3 := (Inv3 cfg ck vrf_label).
  Notation root st := (root_hash cfg true (d_tree st)).
  Definition present (st : dstate) : dstate := DS (d_tree st) (d_epoch st) (d_num st) (map g (d_states st)).

  (* one entry: accepted when missing values are allowed or the value is the stored one *)
  Lemma single_update_ok_g st l s u am :
    Inv3 st -> In s (d_states st) -> vr_user s = l ->
    single_update_proof cfg ck vrf_label vrf_proof (d_tree st) l (g s) = Some u ->
    (am = true \/ vr_value (g s) = vr_value s) ->
    verify_single_update cfg vrf_check pk (root st) l am u = Some (entry (g s)) /\ up_epoch u = vr_epoch s /\ up_version u = vr_version s.
  Proof.
    intros I3 Hs Hu Hsp Ham. pose proof I3 as [I2 _ Istale]. pose proof I2 as [I Ileaf Iv].
    unfold single_update_proof, opt_bind in Hsp. rewrite g_version in Hsp.
    destruct (vrf_label l true (vr_version s)) as [el|] eqn:Eel; [|discriminate].
    destruct (vrf_proof l true (vr_version s)) as [ep|] eqn:Eep; [|discriminate].
    destruct (Ileaf s Hs) as (y & Hy & Hin). unfold fresh_leaf in Hy. rewrite Hu, Eel in Hy. injection Hy as <-.
    destruct (leaf_existence cfg ck vrf_label vrf_proof vrf_check pk vrf_good vrf_complete st l true (vr_version s) el ep _ _ I3 Eel Eep Hin) as [Vex Hhash].
    assert (Ok1 : (if am && is_tombstone (vr_value (g s))
                   then verify_existence cfg vrf_check pk (root st) l true (vr_version s) ep (get_membership_proof cfg (d_tree st) el)
                   else verify_existence_with_val cfg vrf_check pk (root st) l (vr_value (g s)) (vr_epoch s)
                          (c_commitment_nonce cfg ck (nl_to_bytes el) (vr_version s) (vr_value (g s))) true (vr_version s) ep
                          (get_membership_proof cfg (d_tree st) el)) = true).
    { destruct (am && is_tombstone (vr_value (g s))) eqn:Eb; [exact Vex|].
      assert (Ev : vr_value (g s) = vr_value s).
      { destruct Ham as [->|Hv]; [|exact Hv]. cbn [andb] in Eb. destruct (g_value s) as [Hv|Hv]; [exact Hv|].
        unfold is_tombstone in Eb. rewrite Hv in Eb. rewrite (proj2 (NodeLabelFacts.bytes_eqb_eq _ _) eq_refl) in Eb. discriminate. }
      rewrite Ev. unfold verify_existence_with_val. rewrite Vex, Hhash. unfold leaf_hash_with_value, fresh_value.
      rewrite (proj2 (NodeLabelFacts.bytes_eqb_eq _ _) eq_refl). reflexivity. }
    unfold entry. rewrite g_epoch, g_version.
    destruct (N.ltb_spec 1 (vr_version s)) as [Hv1|Hv1].
    - destruct (vrf_label l false (vr_version s - 1)) as [pl|] eqn:Epl; [|discriminate].
      destruct (vrf_proof l false (vr_version s - 1)) as [pp|] eqn:Epp; [|discriminate].
      injection Hsp as <-. unfold verify_single_update. rewrite g_epoch. cbn [up_value up_version up_existence_vrf up_existence up_epoch up_nonce up_prev up_prev_vrf fst snd].
      rewrite Ok1. cbn [negb].
      assert (E1 : (vr_version s <=? 1) = false) by (apply N.leb_gt; exact Hv1). rewrite E1.
      destruct (Istale s Hs Hv1) as (nl & Hnl & Hin2). rewrite Hu, Epl in Hnl. injection Hnl as <-.
      destruct (leaf_existence cfg ck vrf_label vrf_proof vrf_check pk vrf_good vrf_complete st l false (vr_version s - 1) pl pp _ _ I3 Epl Epp Hin2) as [Vst Hst].
      unfold verify_existence_with_commitment. rewrite Vst, Hst, (proj2 (NodeLabelFacts.bytes_eqb_eq _ _) eq_refl). cbn [andb].
      split; [reflexivity | split; reflexivity].
    - injection Hsp as <-. unfold verify_single_update. rewrite g_epoch. cbn [up_value up_version up_existence_vrf up_existence up_epoch up_nonce up_prev up_prev_vrf fst snd].
      rewrite Ok1. cbn [negb].
      assert (E1 : (vr_version s <=? 1) = true) by (apply N.leb_le; exact Hv1). rewrite E1.
      split; [reflexivity | split; reflexivity].
  Qed.

  Lemma updates_ok_g st l am : Inv3 st -> forall data ups prev,
    (forall s, In s data -> In s (d_states st) /\ vr_user s = l) -> sdesc data ->
    (match prev, data with Some pe, d0 :: _ => vr_epoch d0 < pe | _, _ => True end) ->
    (am = true \/ forall s, In s data -> vr_value (g s) = vr_value s) ->
    all_some (map (single_update_proof cfg ck vrf_label vrf_proof (d_tree st) l) (map g data)) = Some ups ->
    verify_updates cfg vrf_check pk (root st) l am prev ups = Some (map entry (map g data)) /\ map up_version ups = map vr_version data.
  Proof.
    intros I3. induction data as [|s data IH]; intros ups prev Hin Hsd Hprev Ham H.
    - cbn in H. injection H as <-. split; reflexivity.
    - cbn [map all_some] in H.
      destruct (single_update_proof cfg ck vrf_label vrf_proof (d_tree st) l (g s)) as [u|] eqn:Eu; [|discriminate].
      destruct (all_some (map (single_update_proof cfg ck vrf_label vrf_proof (d_tree st) l) (map g data))) as [us|] eqn:Eus; [|discriminate].
      injection H as <-. destruct (Hin s (or_introl eq_refl)) as [Hs Hu].
      destruct (single_update_ok_g st l s u am I3 Hs Hu Eu ltac:(destruct Ham as [->|Hv]; [left; reflexivity | right; apply Hv; left; reflexivity])) as (V1 & V2 & V3).
      cbn [sdesc] in Hsd. destruct Hsd as [Hlt Hsd'].
      destruct (IH us (Some (vr_epoch s)) (fun x Hx => Hin x (or_intror Hx)) Hsd'
                  ltac:(destruct data as [|d1 r]; [exact I | apply Hlt; left; reflexivity])
                  ltac:(destruct Ham as [->|Hv]; [left; reflexivity | right; intros x Hx; apply Hv; right; exact Hx]) eq_refl) as [W1 W2].
      cbn [verify_updates map].
      assert (Ep : match prev with Some pe => pe <? up_epoch u | None => false end = false).
      { destruct prev as [pe|]; [|reflexivity]. rewrite V2. apply N.ltb_ge. lia. }
      rewrite Ep, V1, V2, W1, V3, W2. split; reflexivity.
  Qed.

  Lemma future_absent st l v nl : Inv3 st -> ver st l < v -> vrf_label l true v = Some nl ->
    verify_nonmembership cfg (root st) (get_non_membership_proof cfg (d_tree st) nl) = true.
  Proof.
    intros [I2 _ _] Hv Hlab. pose proof (d2_inv cfg ck vrf_label st I2) as [Itree Iep Iver Ilv Idist Ivle].
    destruct (vrf_good _ _ _ _ Hlab) as (Wn & Cn & Ln).
    apply (nonmembership_complete cfg Ce nl Wn Cn).
    - rewrite length_bits_of by exact Wn. rewrite Ln. reflexivity.
    - apply Itree.
    - apply (root_leaves_256 (d_epoch st)). exact Itree.
    - intros y Hy E0. destruct (Ilv y Hy) as (l' & f' & v' & Hv' & H1 & Hb'). rewrite E0 in Hv'.
      destruct (vrf_inj _ _ _ _ _ _ _ Hlab Hv') as (<- & <- & <-). cbn in Hb'. lia.
  Qed.

  Lemma hist_data_present st l params : hist_data (present st) l params = map g (hist_data st l params).
  Proof.
    unfold hist_data, present. cbn [d_states d_epoch]. rewrite (user_history_map g g_user g_epoch).
    destruct params as [|r]; [reflexivity|]. apply firstn_map.
  Qed.

  (* the history proof served from the presented states is accepted and reports them *)
  Theorem key_history_complete_g st l params am p eh :
    Inv3 st -> key_history cfg ck vrf_label vrf_proof (present st) l params = DOk (p, eh) ->
    (am = true \/ forall s, In s (hist_data st l params) -> vr_value (g s) = vr_value s) ->
    key_history_verify cfg vrf_check pk (snd eh) (fst eh) l p params am = Some (map entry (map g (hist_data st l params))).
  Proof.
    intros I3 Hk Ham. pose proof I3 as [I2 Ih Istale]. pose proof I2 as [I Ileaf Iv]. pose proof I as [Itree Iep Iver Ilv Idist Ivle].
    destruct (tree_is_root cfg ck vrf_label st I3) as (Hr & Hlf & Hc).
    unfold Directory.key_history in Hk. fold (hist_data (present st) l params) in Hk. rewrite hist_data_present in Hk.
    cbn [present d_tree d_epoch] in Hk.
    set (all := user_history (d_states st) l (d_epoch st)) in *.
    set (data := hist_data st l params) in *.
    destruct data as [|d0 rest] eqn:Ed; [discriminate|]. rewrite <- Ed in *.
    assert (Edg : map g data = g d0 :: map g rest) by (rewrite Ed; reflexivity).
    rewrite Edg in Hk. rewrite <- Edg in Hk.
    set (start_s := fold_left (fun a s => N.min a (vr_version s)) (map g data) (vr_version (g d0))) in *.
    set (end_s := fold_left (fun a s => N.max a (vr_version s)) (map g data) (vr_version (g d0))) in *.
    destruct ((start_s =? 0) || (end_s =? 0)) eqn:Ez; [discriminate|].
    destruct (get_marker_versions start_s end_s (d_epoch st)) as [[past future]|] eqn:Em; [|discriminate].
    destruct (all_some (map (single_update_proof cfg ck vrf_label vrf_proof (d_tree st) l) (map g data))) as [ups|] eqn:Eu; [|discriminate].
    destruct (all_some (map (fun v => vrf_proof l true v) past)) as [pvp|] eqn:Epvp; [|discriminate].
    destruct (all_some (map (fun v => vrf_label l true v) past)) as [pls|] eqn:Epls; [|discriminate].
    destruct (all_some (map (fun v => vrf_proof l true v) future)) as [fvp|] eqn:Efvp; [|discriminate].
    destruct (all_some (map (fun v => vrf_label l true v) future)) as [fls|] eqn:Efls; [|discriminate].
    injection Hk as <- <-. cbn [epoch_hash fst snd hp_future d_tree d_epoch] in *.
    (* the shape of the data *)
    specialize (Ih l). fold all in Ih. destruct Ih as [Hvers Hsd].
    set (Nn := N.of_nat (length all)) in *.
    assert (Hdata_all : exists j, data = firstn j all /\ (j <= length all)%nat /\
              match params with HComplete => j = length all | HMostRecent r => j = Nat.min (N.to_nat r) (length all) end).
    { unfold data, hist_data. fold all. destruct params as [|r].
      - exists (length all). split; [symmetry; apply firstn_all | split; [lia | reflexivity]].
      - exists (Nat.min (N.to_nat r) (length all)). split; [|split; [lia | reflexivity]].
        destruct (Nat.le_ge_cases (N.to_nat r) (length all)) as [H|H].
        + rewrite Nat.min_l by exact H. reflexivity.
        + rewrite Nat.min_r by exact H. rewrite firstn_all. apply firstn_all2. exact H. }
    destruct Hdata_all as (j & Edj & Hj & Hpar).
    assert (Hlen : length data = j) by (rewrite Edj; apply firstn_length_le; exact Hj).
    assert (Hj1 : (1 <= j)%nat) by (rewrite <- Hlen, Ed; cbn [length]; lia).
    assert (Hvd : map vr_version data = countdown Nn j).
    { rewrite Edj, <- firstn_map, Hvers. apply countdown_firstn. exact Hj. }
    assert (Hvdg : map vr_version (map g data) = countdown Nn j).
    { rewrite map_map. rewrite <- Hvd. apply map_ext. intros x. apply g_version. }
    assert (Hd0 : vr_version (g d0) = Nn).
    { rewrite g_version. rewrite Ed in Hvd. cbn [map] in Hvd. destruct j as [|j']; [lia|]. rewrite countdown_S in Hvd. injection Hvd as Hvd _. exact Hvd. }
    assert (Hin_data : forall s, In s data -> In s (d_states st) /\ vr_user s = l).
    { intros s Hs. rewrite Edj in Hs. apply in_firstn' in Hs. apply in_user_history in Hs. destruct Hs as [H1 H2].
      apply andb_true_iff in H2. destruct H2 as [H2 _]. apply NodeLabelFacts.bytes_eqb_eq in H2. split; assumption. }
    assert (Hsd_data : sdesc data) by (rewrite Edj; apply sdesc_firstn; exact Hsd).
    destruct (updates_ok_g st l am I3 data ups None Hin_data Hsd_data Logic.I Ham Eu) as [Vups Vvers].
    assert (HjN : N.of_nat j <= Nn) by (unfold Nn; lia).
    assert (Es : start_s = Nn + 1 - N.of_nat j).
    { unfold start_s. rewrite <- (fold_min_map vr_version), Hvdg, Hd0, (countdown_min j Nn Nn ltac:(lia) HjN). lia. }
    assert (Ee : end_s = Nn).
    { unfold end_s. rewrite <- (fold_max_map vr_version), Hvdg, Hd0. apply countdown_max. lia. }
    apply orb_false_iff in Ez. destruct Ez as [Ez1 Ez2].
    assert (HNe : Nn <= d_epoch st).
    { destruct (Hin_data d0 ltac:(rewrite Ed; left; reflexivity)) as [Hs0 _]. pose proof (Ivle d0 Hs0). pose proof (Iep d0 Hs0).
      rewrite g_version in Hd0. lia. }
    assert (Hver : ver st l = Nn) by (apply (ver_length cfg ck vrf_label vrf_proof vrf_good vrf_inj); exact I3).
    (* the verifier *)
    change (d_epoch (present st)) with (d_epoch st). change (d_tree (present st)) with (d_tree st).
    unfold key_history_verify, verify_history_shape. cbn [hp_updates hp_past_vrf hp_past hp_future_vrf hp_future].
    rewrite Vvers, Hvd. destruct j as [|j']; [lia|]. rewrite countdown_S. rewrite <- countdown_S.
    rewrite (countdown_consecutive (S j') Nn HjN). cbn [negb].
    rewrite (countdown_min (S j') Nn Nn ltac:(lia) HjN), (countdown_max (S j') Nn Nn ltac:(lia)).
    replace (N.min Nn (Nn + 1 - N.of_nat (S j'))) with start_s by lia. rewrite Ez1.
    assert (E1 : (d_epoch st <? Nn) = false) by (apply N.ltb_ge; exact HNe). rewrite E1.
    rewrite countdown_length.
    assert (Epar : negb (match params with
                         | HComplete => start_s =? 1
                         | HMostRecent r => if r <? N.of_nat (S j') then false else if N.of_nat (S j') <? r then start_s =? 1 else true
                         end) = false).
    { apply negb_false_iff. destruct params as [|r].
      - apply N.eqb_eq. lia.
      - destruct (N.ltb_spec r (N.of_nat (S j'))) as [H|H]; [lia|].
        destruct (N.ltb_spec (N.of_nat (S j')) r) as [H2|H2]; [|reflexivity]. apply N.eqb_eq. lia. }
    rewrite Epar. rewrite <- Ee at 1. rewrite Em.
    assert (L1 : length pvp = length past) by (rewrite (all_some_length _ _ Epvp); apply map_length).
    assert (L2 : length pls = length past) by (rewrite (all_some_length _ _ Epls); apply map_length).
    assert (L3 : length fvp = length future) by (rewrite (all_some_length _ _ Efvp); apply map_length).
    assert (L4 : length fls = length future) by (rewrite (all_some_length _ _ Efls); apply map_length).
    rewrite !map_length, L1, L2, L3, L4, !Nat.eqb_refl.
    cbn [negb]. rewrite Vups.
    assert (Fp : forall3 (fun v vp mp => verify_existence cfg vrf_check pk (root st) l true v vp mp) past pvp
                         (map (get_membership_proof cfg (d_tree st)) pls) = true).
    { apply (forall3_maps _ (fun v => vrf_proof l true v) (fun v => vrf_label l true v)); [|exact Epvp|exact Epls].
      intros v vp nl Hv Hvp Hnl.
      destruct (get_marker_versions_past start_s end_s (d_epoch st) past future ltac:(apply N.eqb_neq; exact Ez1) Em v Hv) as [B1 B2].
      destruct (Iv l v B1 ltac:(rewrite Hver; lia)) as (sm & Hsm & Hum & Hvm).
      destruct (Ileaf sm Hsm) as (y & Hy & Hin). unfold fresh_leaf in Hy. rewrite Hum, Hvm, Hnl in Hy. injection Hy as <-.
      apply (leaf_existence cfg ck vrf_label vrf_proof vrf_check pk vrf_good vrf_complete st l true v nl vp _ _ I3 Hnl Hvp Hin). }
    rewrite Fp. cbn [negb].
    assert (Ff : forall3 (fun v vp np => verify_nonexistence cfg vrf_check pk (root st) l true v vp np) future fvp
                         (map (get_non_membership_proof cfg (d_tree st)) fls) = true).
    { apply (forall3_maps _ (fun v => vrf_proof l true v) (fun v => vrf_label l true v)); [|exact Efvp|exact Efls].
      intros v vp nl Hv Hvp Hnl. unfold verify_nonexistence.
      assert (Enpl : np_label (get_non_membership_proof cfg (d_tree st) nl) = nl).
      { unfold get_non_membership_proof. destruct (lcp_walk cfg walk_fuel (d_tree st) nl). reflexivity. }
      rewrite Enpl, (verify_label_ok cfg vrf_label vrf_proof vrf_check pk vrf_good vrf_complete l true v nl vp Hnl Hvp). cbn [andb].
      destruct (get_marker_versions_future start_s end_s (d_epoch st) past future ltac:(apply N.eqb_neq; exact Ez2) ltac:(lia) Em v Hv) as [Hgt _].
      apply (future_absent st l v nl I3 ltac:(lia) Hnl). }
    rewrite Ff. reflexivity.
  Qed.

  Lemma key_history_updates st l params p eh :
    key_history cfg ck vrf_label vrf_proof (present st) l params = DOk (p, eh) ->
    all_some (map (single_update_proof cfg ck vrf_label vrf_proof (d_tree st) l) (map g (hist_data st l params))) = Some (hp_updates p) /\
    snd eh = root st.
  Proof.
    intros Hk. unfold Directory.key_history in Hk. fold (hist_data (present st) l params) in Hk. rewrite hist_data_present in Hk.
    cbn [present d_tree d_epoch] in Hk.
    destruct (map g (hist_data st l params)) as [|d0 rest] eqn:Ed; [discriminate|]. rewrite <- Ed in *.
    destruct (_ || _); [discriminate|].
    destruct (get_marker_versions _ _ _) as [[past future]|]; [|discriminate].
    destruct (all_some (map (single_update_proof cfg ck vrf_label vrf_proof (d_tree st) l) (map g (hist_data st l params)))) as [ups|]; [|discriminate].
    destruct (all_some (map (fun v => vrf_proof l true v) past)); [|discriminate].
    destruct (all_some (map (fun v => vrf_label l true v) past)); [|discriminate].
    destruct (all_some (map (fun v => vrf_proof l true v) future)); [|discriminate].
    destruct (all_some (map (fun v => vrf_label l true v) future)); [|discriminate].
    injection Hk as <- <-. split; reflexivity.
  Qed.

  Section Reject.
    Variable Bad : Prop.
    Hypothesis B : Binding cfg Bad.
    Hypothesis nonce_len : forall key lb ver value, Len64 (c_commitment_nonce cfg key lb ver value).

    Lemma single_update_reject_g st l s u :
      Inv3 st -> In s (d_states st) -> vr_user s = l ->
      single_update_proof cfg ck vrf_label vrf_proof (d_tree st) l (g s) = Some u ->
      vr_value (g s) <> vr_value s -> Len64 (vr_value s) -> Len64 (vr_value (g s)) -> vr_epoch s < 2 ^ 64 ->
      verify_single_update cfg vrf_check pk (root st) l false u = None \/ Bad.
    Proof.
      intros I3 Hs Hu Hsp Hne L1 L2 He. pose proof I3 as [I2 _ _]. pose proof I2 as [I Ileaf Iv].
      unfold single_update_proof, opt_bind in Hsp. rewrite g_version in Hsp.
      destruct (vrf_label l true (vr_version s)) as [el|] eqn:Eel; [|discriminate].
      destruct (vrf_proof l true (vr_version s)) as [ep|] eqn:Eep; [|discriminate].
      destruct (Ileaf s Hs) as (y & Hy & Hin). unfold fresh_leaf in Hy. rewrite Hu, Eel in Hy. injection Hy as <-.
      destruct (leaf_existence cfg ck vrf_label vrf_proof vrf_check pk vrf_good vrf_complete st l true (vr_version s) el ep _ _ I3 Eel Eep Hin) as [_ Hhash].
      assert (G : forall pr, u = UP (vr_epoch (g s)) (vr_version s) (vr_value (g s)) ep (get_membership_proof cfg (d_tree st) el) (fst pr) (snd pr)
                               (c_commitment_nonce cfg ck (nl_to_bytes el) (vr_version s) (vr_value (g s))) ->
                  verify_single_update cfg vrf_check pk (root st) l false u = None \/ Bad).
      { intros pr ->. unfold verify_single_update. cbn [andb up_value up_version up_existence_vrf up_existence up_epoch up_nonce].
        unfold verify_existence_with_val. rewrite Hhash, g_epoch.
        destruct (bytes_eqb (leaf_hash_with_value cfg (vr_value (g s)) (vr_epoch s) (c_commitment_nonce cfg ck (nl_to_bytes el) (vr_version s) (vr_value (g s))))
                            (c_leaf_hash cfg (fresh_value cfg ck el (vr_version s) (vr_value s)) (vr_epoch s))) eqn:Eb; [|left; reflexivity].
        right. apply NodeLabelFacts.bytes_eqb_eq in Eb. unfold leaf_hash_with_value, fresh_value in Eb.
        apply (b_leaf_inj _ _ B) in Eb; try exact He; try apply (b_commit_D32 _ _ B).
        destruct Eb as [[Ec _]|]; [|assumption].
        apply (b_commit_inj _ _ B) in Ec; try assumption; try apply nonce_len.
        destruct Ec as [[Ev _]|]; [|assumption]. exfalso. apply Hne. exact Ev. }
      destruct (1 <? vr_version s).
      - destruct (vrf_label l false (vr_version s - 1)) as [pl|]; [|discriminate].
        destruct (vrf_proof l false (vr_version s - 1)) as [pp|]; [|discriminate].
        injection Hsp as <-. apply (G (Some pp, Some (get_membership_proof cfg (d_tree st) pl))). reflexivity.
      - injection Hsp as <-. apply (G (None, None)). reflexivity.
    Qed.

    Lemma updates_reject_g st l : Inv3 st -> forall data ups prev,
      (forall s, In s data -> In s (d_states st) /\ vr_user s = l) -> sdesc data ->
      (forall s, In s data -> Len64 (vr_value s) /\ Len64 (vr_value (g s)) /\ vr_epoch s < 2 ^ 64) ->
      (exists s, In s data /\ vr_value (g s) <> vr_value s) ->
      all_some (map (single_update_proof cfg ck vrf_label vrf_proof (d_tree st) l) (map g data)) = Some ups ->
      verify_updates cfg vrf_check pk (root st) l false prev ups = None \/ Bad.
    Proof.
      intros I3. induction data as [|s data IH]; intros ups prev Hin Hsd Hlen [x [Hx Hne]] H; [destruct Hx|].
      cbn [map all_some] in H.
      destruct (single_update_proof cfg ck vrf_label vrf_proof (d_tree st) l (g s)) as [u|] eqn:Eu; [|discriminate].
      destruct (all_some (map (single_update_proof cfg ck vrf_label vrf_proof (d_tree st) l) (map g data))) as [us|] eqn:Eus; [|discriminate].
      injection H as <-. destruct (Hin s (or_introl eq_refl)) as [Hs Hu]. cbn [verify_updates].
      destruct (match prev with Some pe => pe <? up_epoch u | None => false end); [left; reflexivity|].
      destruct (HashingFacts.bytes_eq_dec (vr_value (g s)) (vr_value s)) as [Ev|Ev].
      - destruct (single_update_ok_g st l s u false I3 Hs Hu Eu (or_intror Ev)) as (V1 & V2 & V3). rewrite V1.
        cbn [sdesc] in Hsd. destruct Hsd as [_ Hsd'].
        destruct Hx as [->|Hx]; [congruence|].
        destruct (IH us (Some (up_epoch u)) (fun z Hz => Hin z (or_intror Hz)) Hsd' (fun z Hz => Hlen z (or_intror Hz)) (ex_intro _ x (conj Hx Hne)) eq_refl) as [->|]; [left; reflexivity | right; assumption].
      - destruct (Hlen s (or_introl eq_refl)) as (L1 & L2 & L3).
        destruct (single_update_reject_g st l s u I3 Hs Hu Eu Ev L1 L2 L3) as [->|]; [left; reflexivity | right; assumption].
    Qed.

    (* Default mode: as soon as one requested entry was changed, verification fails *)
    Theorem key_history_reject_g st l params p eh :
      Inv3 st -> key_history cfg ck vrf_label vrf_proof (present st) l params = DOk (p, eh) ->
      (forall s, In s (d_states st) -> Len64 (vr_value s) /\ Len64 (vr_value (g s))) -> d_epoch st < 2 ^ 64 ->
      (exists s, In s (hist_data st l params) /\ vr_value (g s) <> vr_value s) ->
      key_history_verify cfg vrf_check pk (snd eh) (fst eh) l p params false = None \/ Bad.
    Proof.
      intros I3 Hk Hlen He Hex. destruct (key_history_updates st l params p eh Hk) as [Eu Er]. rewrite Er.
      pose proof I3 as [I2 Ih _]. pose proof (d2_inv cfg ck vrf_label st I2) as I.
      assert (Hin_data : forall s, In s (hist_data st l params) -> In s (d_states st) /\ vr_user s = l).
      { intros s Hs. unfold hist_data in Hs. assert (Hs' : In s (user_history (d_states st) l (d_epoch st))) by (destruct params; [exact Hs | apply in_firstn' in Hs; exact Hs]).
        apply in_user_history in Hs'. destruct Hs' as [H1 H2]. apply andb_true_iff in H2. destruct H2 as [H2 _]. apply NodeLabelFacts.bytes_eqb_eq in H2. split; assumption. }
      assert (Hsd : sdesc (hist_data st l params)).
      { unfold hist_data. destruct (Ih l) as [_ Hs]. destruct params; [exact Hs | apply sdesc_firstn; exact Hs]. }
      assert (Hl : forall s, In s (hist_data st l params) -> Len64 (vr_value s) /\ Len64 (vr_value (g s)) /\ vr_epoch s < 2 ^ 64).
      { intros s Hs. destruct (Hin_data s Hs) as [H1 _]. destruct (Hlen s H1) as [A C]. split; [exact A|]. split; [exact C|].
        pose proof (di_epochs vrf_label st I s H1). lia. }
      destruct (updates_reject_g st l I3 (hist_data st l params) (hp_updates p) None Hin_data Hsd Hl Hex Eu) as [Hn|]; [|right; assumption].
      left. unfold key_history_verify. destruct (verify_history_shape (fst eh) p params) as [[past future]|]; [|reflexivity]. rewrite Hn. reflexivity.
    Qed.
  End Reject.
End TombHist.

(* ------------------------------------------------------------------ tombstoning, in every reachable state *)
Lemma tomb_value_cases l c s : vr_value (tomb_state l c s) = vr_value s \/ vr_value (tomb_state l c s) = GenConsts.TOMBSTONE.
Proof. unfold tomb_state. destruct (_ && _); [right; reflexivity | left; reflexivity]. Qed.
Lemma tomb_user' l c s : vr_user (tomb_state l c s) = vr_user s.
Proof. unfold tomb_state. destruct (_ && _); reflexivity. Qed.
Lemma tomb_epoch' l c s : vr_epoch (tomb_state l c s) = vr_epoch s.
Proof. unfold tomb_state. destruct (_ && _); reflexivity. Qed.
Lemma tomb_version' l c s : vr_version (tomb_state l c s) = vr_version s.
Proof. unfold tomb_state. destruct (_ && _); reflexivity. Qed.

Section TombReach.
  Variable cfg : config.
  Variable ck : bytes.
  Variable vrf_label : bytes -> bool -> N -> option nlabel.
  Variable vrf_proof : bytes -> bool -> N -> option bytes.
  Variable vrf_check : bytes -> bytes -> bytes -> option bytes.
  Variable pk : bytes.
  Hypothesis Ce : canonical (c_empty_label cfg) = false.
  Hypothesis vrf_good : forall l f v nl, vrf_label l f v = Some nl -> WF nl /\ canonical nl = true /\ llen nl = 256.
  Hypothesis vrf_inj : forall l f v l' f' v' nl, vrf_label l f v = Some nl -> vrf_label l' f' v' = Some nl -> l = l' /\ f = f' /\ v = v'.
  Hypothesis vrf_complete : forall l f v nl pr, vrf_label l f v = Some nl -> vrf_proof l f v = Some pr ->
    vrf_check pk pr (label_input_hash cfg l f v) = Some (lval nl).

  Variable reqs : list (list (bytes * bytes)).
  Let st := run_publishes cfg ck vrf_label dir_new reqs.
  Let I3 := inv3_reachable cfg ck vrf_label vrf_proof vrf_check pk Ce vrf_good vrf_inj vrf_complete reqs.

  (* with AllowMissingValues the history of any label still verifies after tombstoning, reporting the
     same versions and epochs, tombstoned values empty and the others intact; in Default mode it
     verifies as long as no requested entry was tombstoned *)
  Theorem tombstoned_history_verifies l c l' params am p eh :
    key_history cfg ck vrf_label vrf_proof (d_tombstone st l c) l' params = DOk (p, eh) ->
    (am = true \/ forall s, In s (hist_data st l' params) -> vr_value (tomb_state l c s) = vr_value s) ->
    key_history_verify cfg vrf_check pk (snd eh) (fst eh) l' p params am =
    Some (map entry (map (tomb_state l c) (hist_data st l' params))).
  Proof.
    apply (key_history_complete_g cfg ck vrf_label vrf_proof vrf_check pk Ce vrf_good vrf_inj vrf_complete
             (tomb_state l c) (tomb_user' l c) (tomb_epoch' l c) (tomb_version' l c) (tomb_value_cases l c) st l' params am p eh I3).
  Qed.

  (* ... and a verifier that does not allow missing values rejects every history that includes an
     entry whose value was replaced *)
  Theorem tombstoned_history_rejected (Bad : Prop) (B : Binding cfg Bad)
          (nonce_len : forall key lb ver value, Len64 (c_commitment_nonce cfg key lb ver value)) l c l' params p eh :
    key_history cfg ck vrf_label vrf_proof (d_tombstone st l c) l' params = DOk (p, eh) ->
    (forall s, In s (d_states st) -> Len64 (vr_value s)) -> d_epoch st < 2 ^ 64 ->
    (exists s, In s (hist_data st l' params) /\ vr_value (tomb_state l c s) <> vr_value s) ->
    key_history_verify cfg vrf_check pk (snd eh) (fst eh) l' p params false = None \/ Bad.
  Proof.
    intros Hk Hlen He Hex.
    apply (key_history_reject_g cfg ck vrf_label vrf_proof vrf_check pk vrf_good vrf_inj vrf_complete
             (tomb_state l c) (tomb_user' l c) (tomb_epoch' l c) (tomb_version' l c) (tomb_value_cases l c) Bad B nonce_len st l' params p eh I3 Hk); try assumption.
    intros s Hs. split; [apply Hlen; exact Hs|]. destruct (tomb_value_cases l c s) as [-> | ->]; [apply Hlen; exact Hs|].
    unfold Len64. cbn. lia.
  Qed.
End TombReach.
