(* Byte-level model of akd_core/src/types/node_label/mod.rs (layer L1).
   Executable; no proofs in this file. *)
From Coq Require Import List Bool Arith NArith Lia.
From Akd Require GenConsts.
Import ListNotations.
Open Scope N_scope.

(* NodeLabel { label_val: [u8; 32], label_len: u32 } *)
Record nlabel := NL { lval : list N; llen : N }.

Definition byte_at (v : list N) (i : nat) : N := nth i v 0.

Fixpoint bytes_eqb (a b : list N) : bool :=
  match a, b with
  | [], [] => true
  | x :: a', y :: b' => (x =? y) && bytes_eqb a' b'
  | _, _ => false
  end.

(* derived PartialEq: both fields *)
Definition nl_eqb (a b : nlabel) : bool := bytes_eqb (lval a) (lval b) && (llen a =? llen b).

(* get_bit_from_slice: None models Err *)
Definition get_bit_from_slice (v : list N) (index : N) : option bool :=
  if N.of_nat (length v) * 8 <=? index then None
  else
    let q := index / 8 in
    let r := index mod 8 in
    Some (negb (N.land (N.shiftr (byte_at v (N.to_nat q)) (7 - r)) 1 =? 0)).

Definition get_bit_at (l : nlabel) (index : N) : option bool :=
  if llen l <=? index then None else get_bit_from_slice (lval l) index.

Definition optb_eqb (a b : option bool) : bool :=
  match a, b with
  | Some x, Some y => Bool.eqb x y
  | None, None => true
  | _, _ => false
  end.

Definition Nseq (n : N) : list N := map N.of_nat (seq 0 (N.to_nat n)).

Definition is_prefix_of (a b : nlabel) : bool :=
  if llen b <? llen a then false
  else forallb (fun i => optb_eqb (get_bit_at a i) (get_bit_at b i)) (Nseq (llen a)).

Definition zeros (n : nat) : list N := repeat 0 n.

(* get_prefix *)
Definition get_prefix (a : nlabel) (len : N) : nlabel :=
  if 256 <=? len then a
  else if len =? 0 then NL (zeros 32) 0
  else
    let ulen := len - 1 in
    let r := ulen mod 8 in
    let d := N.to_nat (ulen / 8) in
    let b := byte_at (lval a) d in
    NL (firstn d (lval a) ++ [N.shiftl (N.shiftr b (7 - r)) (7 - r)] ++ zeros (32 - d - 1)) len.

(* the while loop of get_longest_common_prefix, on fuel *)
Fixpoint lcp_loop (fuel : nat) (a b : nlabel) (shorter p : N) : N :=
  match fuel with
  | O => p
  | S f =>
    if (p <? shorter) && optb_eqb (get_bit_at a p) (get_bit_at b p)
    then lcp_loop f a b shorter (p + 1) else p
  end.

(* [empty] is the configuration's empty_label() *)
Definition get_longest_common_prefix (empty : nlabel) (a b : nlabel) : nlabel :=
  if nl_eqb a empty || nl_eqb b empty then empty
  else
    let shorter := if llen a <? llen b then llen a else llen b in
    get_prefix a (lcp_loop 257 a b shorter 0).

(* PrefixOrdering: Some false = WithZero, Some true = WithOne, None = Invalid *)
Definition get_prefix_ordering (a b : nlabel) : option bool :=
  if llen b <=? llen a then None
  else if negb (nl_eqb (get_prefix b (llen a)) (get_prefix a (llen a))) then None
  else get_bit_at b (llen a).

(* Ord for [u8;32]: lexicographic on bytes *)
Fixpoint bytes_cmp (a b : list N) : comparison :=
  match a, b with
  | [], [] => Eq
  | [], _ => Lt
  | _, [] => Gt
  | x :: a', y :: b' => match x ?= y with Eq => bytes_cmp a' b' | c => c end
  end.

(* impl Ord for NodeLabel: label_len, then label_val *)
Definition nl_cmp (a b : nlabel) : comparison :=
  match llen a ?= llen b with
  | Eq => bytes_cmp (lval a) (lval b)
  | c => c
  end.

Definition nl_root : nlabel := NL (zeros 32) 0.
(* the two empty_label() constants, regenerated from the source into GenConsts.v *)
Definition empty_label_whatsapp : nlabel :=
  NL GenConsts.empty_label_whatsapp_val GenConsts.empty_label_whatsapp_len.
Definition empty_label_experimental : nlabel :=
  NL GenConsts.empty_label_experimental_val GenConsts.empty_label_experimental_len.

(* to_bytes: label_len.to_be_bytes() ++ label_val *)
Definition be_bytes (k : nat) (n : N) : list N :=
  map (fun i => N.land (N.shiftr n (8 * N.of_nat (k - 1 - i))) 255) (seq 0 k).
Definition nl_to_bytes (a : nlabel) : list N := be_bytes 4 (llen a) ++ lval a.

(* ------------------------------------------------------------------ *)
(* Meaning: the bit string of a label *)

Definition byte_bits (b : N) : list bool :=
  map (fun r => N.testbit b (7 - N.of_nat r)) (seq 0 8).
Definition val_bits (v : list N) : list bool := flat_map byte_bits v.
Definition bits_of (a : nlabel) : list bool := firstn (N.to_nat (llen a)) (val_bits (lval a)).

(* well-formed: 32 bytes, each < 256, len <= 256 *)
Definition wf_val (v : list N) : bool := (length v =? 32)%nat && forallb (fun b => b <? 256) v.
Definition wf_label (a : nlabel) : bool := wf_val (lval a) && (llen a <=? 256).
(* canonical: bits beyond len are zero *)
Definition canonical (a : nlabel) : bool :=
  forallb (fun b => negb b) (skipn (N.to_nat (llen a)) (val_bits (lval a))).

(* constructor from bits (canonical) *)
Fixpoint bits_to_byte (bs : list bool) (k : nat) : N :=
  match k with
  | O => 0
  | S k' => (match bs with b :: _ => if b then N.shiftl 1 (N.of_nat k') else 0 | [] => 0 end)
            + bits_to_byte (tl bs) k'
  end.
Fixpoint bits_to_bytes (bs : list bool) (n : nat) : list N :=
  match n with
  | O => []
  | S n' => bits_to_byte bs 8 :: bits_to_bytes (skipn 8 bs) n'
  end.
Definition nl_of_bits (bs : list bool) : nlabel := NL (bits_to_bytes bs 32) (N.of_nat (length bs)).
