(* Bit strings: the mathematical meaning of node labels (layer L0). *)
From Coq Require Import List Bool Arith Lia.
Import ListNotations.

Definition bits := list bool.

Fixpoint prefixb (a b : bits) : bool :=
  match a, b with
  | [], _ => true
  | x :: a', y :: b' => Bool.eqb x y && prefixb a' b'
  | _ :: _, [] => false
  end.

Fixpoint lcp (a b : bits) : bits :=
  match a, b with
  | x :: a', y :: b' => if Bool.eqb x y then x :: lcp a' b' else []
  | _, _ => []
  end.

Fixpoint bits_eqb (a b : bits) : bool :=
  match a, b with
  | [], [] => true
  | x :: a', y :: b' => Bool.eqb x y && bits_eqb a' b'
  | _, _ => false
  end.

(* lexicographic comparison, false < true, a proper prefix is smaller *)
Fixpoint lex_cmp (a b : bits) : comparison :=
  match a, b with
  | [], [] => Eq
  | [], _ :: _ => Lt
  | _ :: _, [] => Gt
  | x :: a', y :: b' =>
    match x, y with
    | false, true => Lt
    | true, false => Gt
    | _, _ => lex_cmp a' b'
    end
  end.

(* shortlex: shorter first, then lexicographic *)
Definition shortlex_cmp (a b : bits) : comparison :=
  match Nat.compare (length a) (length b) with
  | Eq => lex_cmp a b
  | c => c
  end.

(* direction of [b] below [a]: None = [b] is not a proper extension of [a] *)
Definition pord (a b : bits) : option bool :=
  if length b <=? length a then None
  else if prefixb a b then Some (nth (length a) b false) else None.

Definition Prefix (a b : bits) : Prop := exists c, b = a ++ c.

Lemma bits_eqb_eq a b : bits_eqb a b = true <-> a = b.
Proof.
  revert b; induction a as [|x a IH]; intros [|y b]; simpl; split; try congruence; auto.
  - rewrite andb_true_iff. intros [H1 H2]. apply eqb_prop in H1. apply IH in H2. congruence.
  - intros H; inversion H; subst. rewrite eqb_reflx. simpl. apply IH. reflexivity.
Qed.

Lemma bits_eqb_refl a : bits_eqb a a = true.
Proof. apply bits_eqb_eq. reflexivity. Qed.

Lemma prefixb_Prefix a b : prefixb a b = true <-> Prefix a b.
Proof.
  revert b; induction a as [|x a IH]; intros b; simpl.
  - split; auto. intros _. exists b. reflexivity.
  - destruct b as [|y b].
    + split; [discriminate|]. intros [c Hc]. discriminate.
    + rewrite andb_true_iff, IH. split.
      * intros [H1 [c Hc]]. apply eqb_prop in H1. subst. exists c. reflexivity.
      * intros [c Hc]. inversion Hc; subst. split; [apply eqb_reflx|]. exists c. reflexivity.
Qed.

Lemma prefixb_nth a b :
  prefixb a b = true <->
  length a <= length b /\ forall i, i < length a -> nth i a false = nth i b false.
Proof.
  revert b; induction a as [|x a IH]; intros b; simpl.
  - split; auto. intros _. split; [lia|]. intros i Hi; lia.
  - destruct b as [|y b]; simpl.
    + split; [discriminate|]. intros [H _]. lia.
    + rewrite andb_true_iff, IH. split.
      * intros [H1 [H2 H3]]. apply eqb_prop in H1. subst. split; [lia|].
        intros [|i] Hi; auto. apply H3. lia.
      * intros [H1 H2]. split.
        -- specialize (H2 0 ltac:(lia)). simpl in H2. subst. apply eqb_reflx.
        -- split; [lia|]. intros i Hi. apply (H2 (S i)). lia.
Qed.

Lemma prefixb_refl a : prefixb a a = true.
Proof. apply prefixb_Prefix. exists []. now rewrite app_nil_r. Qed.

Lemma prefixb_firstn n a : prefixb (firstn n a) a = true.
Proof. apply prefixb_Prefix. exists (skipn n a). symmetry. apply firstn_skipn. Qed.

Lemma prefixb_trans a b c : prefixb a b = true -> prefixb b c = true -> prefixb a c = true.
Proof.
  rewrite !prefixb_Prefix. intros [x Hx] [y Hy]. exists (x ++ y). subst. now rewrite app_assoc.
Qed.

Lemma prefixb_length a b : prefixb a b = true -> length a <= length b.
Proof. intros H. apply prefixb_nth in H. tauto. Qed.

Lemma prefixb_antisym a b : prefixb a b = true -> prefixb b a = true -> a = b.
Proof.
  rewrite !prefixb_Prefix. intros [x Hx] [y Hy]. subst b.
  rewrite <- app_assoc in Hy. rewrite <- (app_nil_r a) in Hy at 1.
  apply app_inv_head in Hy. symmetry in Hy. apply app_eq_nil in Hy. destruct Hy; subst.
  now rewrite app_nil_r.
Qed.

Lemma prefixb_app a c : prefixb a (a ++ c) = true.
Proof. apply prefixb_Prefix. now exists c. Qed.

(* two prefixes of one string are comparable *)
Lemma prefixb_total a b c :
  prefixb a c = true -> prefixb b c = true -> length a <= length b -> prefixb a b = true.
Proof.
  rewrite !prefixb_nth. intros [Ha1 Ha2] [Hb1 Hb2] Hl. split; [exact Hl|].
  intros i Hi. rewrite Ha2 by exact Hi. symmetry. apply Hb2. lia.
Qed.

Lemma lcp_prefix_l a b : prefixb (lcp a b) a = true.
Proof.
  revert b; induction a as [|x a IH]; intros [|y b]; simpl; auto.
  destruct (Bool.eqb x y) eqn:E; simpl; auto. rewrite eqb_reflx. simpl. apply IH.
Qed.

Lemma lcp_comm a b : lcp a b = lcp b a.
Proof.
  revert b; induction a as [|x a IH]; intros [|y b]; simpl; auto.
  destruct (Bool.eqb x y) eqn:E.
  - apply eqb_prop in E. subst. rewrite eqb_reflx. f_equal. apply IH.
  - destruct (Bool.eqb y x) eqn:E'; auto. apply eqb_prop in E'. subst.
    rewrite eqb_reflx in E. discriminate.
Qed.

Lemma lcp_prefix_r a b : prefixb (lcp a b) b = true.
Proof. rewrite lcp_comm. apply lcp_prefix_l. Qed.

Lemma lcp_greatest a b c : prefixb c a = true -> prefixb c b = true -> prefixb c (lcp a b) = true.
Proof.
  revert a b; induction c as [|z c IH]; intros a b Ha Hb; simpl; auto.
  destruct a as [|x a]; [discriminate|]. destruct b as [|y b]; [discriminate|].
  simpl in *. apply andb_true_iff in Ha, Hb. destruct Ha as [Ha1 Ha2], Hb as [Hb1 Hb2].
  apply eqb_prop in Ha1, Hb1. subst. rewrite eqb_reflx. simpl. rewrite eqb_reflx. simpl.
  now apply IH.
Qed.

Lemma lcp_idem a : lcp a a = a.
Proof. induction a as [|x a IH]; simpl; auto. rewrite eqb_reflx. now f_equal. Qed.

Lemma lcp_of_prefix a b : prefixb a b = true -> lcp a b = a.
Proof.
  intros H. apply prefixb_antisym; [apply lcp_prefix_l|].
  apply lcp_greatest; [apply prefixb_refl|exact H].
Qed.

(* characterisation used for the while loop of get_longest_common_prefix *)
Lemma lcp_firstn a b p :
  p <= length a -> p <= length b ->
  (forall i, i < p -> nth i a false = nth i b false) ->
  (p = length a \/ p = length b \/ nth p a false <> nth p b false) ->
  lcp a b = firstn p a.
Proof.
  revert b p; induction a as [|x a IH]; intros b p Ha Hb Hag Hstop.
  - simpl in *. assert (p = 0) by lia. subst. reflexivity.
  - destruct b as [|y b].
    + simpl in *. assert (p = 0) by lia. subst. reflexivity.
    + destruct p as [|p].
      * simpl. destruct Hstop as [H|[H|H]]; try (simpl in H; lia).
        simpl in H. destruct x, y; simpl; auto; congruence.
      * simpl. pose proof (Hag 0 ltac:(lia)) as H0. simpl in H0. subst y.
        rewrite eqb_reflx. f_equal. apply IH; simpl in *; try lia.
        -- intros i Hi. apply (Hag (S i)). lia.
        -- destruct Hstop as [H|[H|H]]; [left; lia|right; left; lia|right; right; exact H].
Qed.

Lemma lcp_assoc a b c : lcp (lcp a b) c = lcp a (lcp b c).
Proof.
  apply prefixb_antisym.
  - apply lcp_greatest.
    + eapply prefixb_trans; [apply lcp_prefix_l|apply lcp_prefix_l].
    + apply lcp_greatest.
      * eapply prefixb_trans; [apply lcp_prefix_l|apply lcp_prefix_r].
      * apply lcp_prefix_r.
  - apply lcp_greatest.
    + apply lcp_greatest; [apply lcp_prefix_l|].
      eapply prefixb_trans; [apply lcp_prefix_r|apply lcp_prefix_l].
    + eapply prefixb_trans; [apply lcp_prefix_r|apply lcp_prefix_r].
Qed.

Lemma pord_Some a b d :
  pord a b = Some d <-> Prefix (a ++ [d]) b.
Proof.
  unfold pord. destruct (Nat.leb_spec (length b) (length a)) as [Hl|Hl].
  - split; [discriminate|]. intros [c Hc]. subst. rewrite !app_length in Hl. simpl in Hl. lia.
  - destruct (prefixb a b) eqn:E.
    + apply prefixb_Prefix in E. destruct E as [c Hc]. subst b.
      rewrite app_length in Hl. destruct c as [|z c]; [simpl in Hl; lia|].
      rewrite app_nth2 by lia. rewrite Nat.sub_diag. simpl. split.
      * intros H; inversion H; subst. exists c. now rewrite <- app_assoc.
      * intros [c' Hc']. rewrite <- app_assoc in Hc'. apply app_inv_head in Hc'.
        simpl in Hc'. inversion Hc'. reflexivity.
    + split; [discriminate|]. intros [c Hc]. subst b. rewrite <- app_assoc in E.
      rewrite prefixb_app in E. discriminate.
Qed.

Lemma lex_cmp_refl a : lex_cmp a a = Eq.
Proof. induction a as [|[] a IH]; simpl; auto. Qed.

Lemma lex_cmp_eq a b : lex_cmp a b = Eq <-> a = b.
Proof.
  revert b; induction a as [|x a IH]; intros [|y b]; simpl; split; try congruence; auto.
  - destruct x, y; try discriminate; intros H; apply IH in H; congruence.
  - intros H; inversion H; subst. destruct y; apply IH; reflexivity.
Qed.
