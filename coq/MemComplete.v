(* The prover's walk finds every leaf of a canonical tree: the membership proof returned for the
   label of a present leaf is a proof for exactly that leaf (label and stored value). *)
From Coq Require Import List Bool Arith NArith Lia.
From Akd Require Import Bits NodeLabel NodeLabelFacts BitsLabel ElemSetFacts Hashing Tree TreeFacts TreeComplete Spec SpecFacts InsertRefine NonMemComplete.
Import ListNotations.
Open Scope N_scope.

Section MemFind.
  Variable cfg : config.

  Lemma leaves_of_child cur d c y : child cur d = Some c -> In y (leaves c) -> In y (leaves cur).
  Proof.
    destruct cur as [|l le mde a b]; [discriminate|]. cbn [child leaves]. intros Hc Hy. apply in_or_app.
    destruct d; [right | left]; rewrite Hc; exact Hy.
  Qed.

  (* the leaves below the other child continue with the other bit *)
  Lemma leaf_side cur d y :
    okc cur -> In y (leaves cur) -> pord (bits_of (tlabel cur)) (bits_of (lf_label y)) = Some d ->
    exists c, child cur d = Some c /\ In y (leaves c).
  Proof.
    destruct cur as [|l le mde a b]; [intros []|]. intros (Wl & Cl & Ha & Hb) Hy Hp. cbn [tlabel child leaves] in *.
    apply in_app_or in Hy. destruct Hy as [Hy|Hy].
    - destruct a as [ca|]; [|destruct Hy]. destruct (Ha ca eq_refl) as [Pa Ca].
      pose proof (leaves_prefix ca (wf_sub_wfg ca (proj1 Ca)) y Hy) as Hpre.
      pose proof (prefixb_trans _ _ _ (pord_prefix _ _ _ Pa) Hpre) as P1. apply prefix_pord in P1. rewrite P1 in Hp. injection Hp as <-.
      exists ca. split; [reflexivity | exact Hy].
    - destruct b as [cb|]; [|destruct Hy]. destruct (Hb cb eq_refl) as [Pb Cb].
      pose proof (leaves_prefix cb (wf_sub_wfg cb (proj1 Cb)) y Hy) as Hpre.
      pose proof (prefixb_trans _ _ _ (pord_prefix _ _ _ Pb) Hpre) as P1. apply prefix_pord in P1. rewrite P1 in Hp. injection Hp as <-.
      exists cb. split; [reflexivity | exact Hy].
  Qed.

  Lemma walk_finds : forall fuel cur y d,
    okc cur -> In y (leaves cur) -> WF (lf_label y) -> canonical (lf_label y) = true ->
    length (bits_of (lf_label y)) = 256%nat ->
    pord (bits_of (tlabel cur)) (bits_of (lf_label y)) = Some d ->
    (257 <= fuel + length (bits_of (tlabel cur)))%nat ->
    fst (lcp_walk cfg fuel cur (lf_label y)) = Leaf (lf_label y) (lf_value y) (lf_epoch y).
  Proof.
    induction fuel as [|f IH]; intros cur y d Hok Hy Wy Cy Ly Hp Hf.
    - exfalso. unfold pord in Hp. rewrite Ly in Hp.
      destruct (256 <=? length (bits_of (tlabel cur)))%nat eqn:E; [discriminate|]. apply Nat.leb_gt in E. lia.
    - cbn [lcp_walk]. set (x := lf_label y) in *.
      assert (Wc : WF (tlabel cur)) by (destruct cur; [destruct Hok | apply Hok]).
      assert (Hne : nl_eqb x (tlabel cur) = false).
      { destruct (nl_eqb x (tlabel cur)) eqn:E; [|reflexivity]. apply nl_eqb_eq in E. rewrite <- E in Hp.
        unfold pord in Hp. rewrite Nat.leb_refl in Hp. discriminate. }
      rewrite Hne. rewrite (get_prefix_ordering_spec _ _ Wc Wy), Hp.
      destruct (leaf_side cur d y Hok Hy Hp) as (c & Ec & Hyc). rewrite Ec.
      destruct (okc_child cur d c Hok Ec) as [Pc Cc].
      destruct (wfg_label c (wf_sub_wfg c (proj1 Cc))) as [Wlc Clc].
      pose proof (leaves_prefix c (wf_sub_wfg c (proj1 Cc)) y Hyc) as Hpre. fold x in Hpre.
      rewrite (get_prefix_ordering_spec _ _ Wlc Wy).
      destruct (nl_eqb x (tlabel c)) eqn:Ex.
      + (* the child is the leaf *)
        cbn [orb]. apply nl_eqb_eq in Ex.
        assert (Hleaf : is_leaf c = true) by (apply (canon_256_leaf cfg); [exact Cc | rewrite <- Ex; exact Ly]).
        destruct c as [lc vc ec|]; [|discriminate]. cbn [leaves] in Hyc. destruct Hyc as [<-|[]].
        destruct (child_elem cfg (child cur (negb d))) as [sl sv].
        destruct f as [|f']; cbn [lcp_walk fst tlabel lf_label lf_value lf_epoch]; [reflexivity|].
        cbn [lf_label] in x. unfold x. rewrite (proj2 (nl_eqb_eq lc lc) eq_refl). reflexivity.
      + cbn [orb].
        assert (Pcx : exists d', pord (bits_of (tlabel c)) (bits_of x) = Some d').
        { unfold pord. rewrite Hpre. destruct (length (bits_of x) <=? length (bits_of (tlabel c)))%nat eqn:E; [|eauto].
          exfalso. apply Nat.leb_le in E. pose proof (prefixb_length _ _ Hpre) as E2.
          assert (Eb : bits_of (tlabel c) = bits_of x).
          { apply prefixb_antisym; [exact Hpre|]. apply prefixb_Prefix in Hpre. destruct Hpre as [r Hr].
            rewrite Hr, app_length in E. destruct r; [|cbn [length] in E; lia]. rewrite Hr, app_nil_r. apply prefixb_refl. }
          assert (Hcx : tlabel c = x) by (apply bits_of_inj; assumption). rewrite Hcx in Ex.
          rewrite (proj2 (nl_eqb_eq x x) eq_refl) in Ex. discriminate. }
        destruct Pcx as [d' Pcx]. rewrite Pcx.
        destruct (child_elem cfg (child cur (negb d))) as [sl sv].
        assert (Hnl : is_leaf c = false).
        { destruct c as [lc vc ec|]; [|reflexivity]. exfalso. cbn [leaves] in Hyc. destruct Hyc as [<-|[]].
          cbn [tlabel lf_label] in Ex. unfold x in Ex. cbn [lf_label] in Ex. rewrite (proj2 (nl_eqb_eq lc lc) eq_refl) in Ex. discriminate. }
        specialize (IH c y d' (canon_okc c Cc Hnl) Hyc Wy Cy Ly Pcx).
        change (lf_label y) with x in IH. destruct (lcp_walk cfg f c x) as [n sibs] eqn:Ew. cbn [fst] in *. apply IH.
        unfold pord in Pc. destruct (length (bits_of (tlabel c)) <=? length (bits_of (tlabel cur)))%nat eqn:E; [discriminate|].
        apply Nat.leb_gt in E. lia.
  Qed.

  (* the membership proof generated for a present leaf's label names that leaf: its label and the
     value stored for it (the leaf hash with its epoch) *)
  Theorem membership_proof_of_leaf t y :
    canon_root t -> In y (leaves t) -> WF (lf_label y) -> canonical (lf_label y) = true ->
    length (bits_of (lf_label y)) = 256%nat ->
    mp_label (get_membership_proof cfg t (lf_label y)) = lf_label y /\
    mp_hash_val (get_membership_proof cfg t (lf_label y)) = c_leaf_hash cfg (lf_value y) (lf_epoch y).
  Proof.
    intros Hc Hy Wy Cy Ly.
    assert (Hroot : tlabel t = nl_root) by (destruct t; [destruct Hc | destruct Hc as (-> & _); reflexivity]).
    assert (Hp0 : exists d, pord (bits_of (tlabel t)) (bits_of (lf_label y)) = Some d).
    { rewrite Hroot, bits_of_root. unfold pord. rewrite Ly. cbn. eauto. }
    destruct Hp0 as [d0 Hp0].
    pose proof (walk_finds walk_fuel t y d0 (canon_root_okc t Hc) Hy Wy Cy Ly Hp0 ltac:(unfold walk_fuel; lia)) as Hw.
    unfold get_membership_proof. destruct (lcp_walk cfg walk_fuel t (lf_label y)) as [n sibs]. cbn [fst] in Hw. subst n.
    cbn [mp_label mp_hash_val tlabel node_value]. split; reflexivity.
  Qed.
End MemFind.
