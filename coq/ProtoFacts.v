(* Facts about the wire model: varint and field-list round trips, the minimal label encoding, and
   for every proof type  decode (encode p) = p  together with the well-formedness the decoders
   guarantee for anything they accept. *)
From Coq Require Import List Bool Arith NArith ZArith Lia ZifyBool ZifyNat ZifyN.
From Akd Require GenConsts.
From Akd Require Import NodeLabel Hashing ElemSet Tree Directory Verify Proto.
Import ListNotations.
Open Scope N_scope.
Ltac Zify.zify_post_hook ::= Z.div_mod_to_equations.

Arguments N.add : simpl never.
Arguments N.mul : simpl never.
Arguments N.div : simpl never.
Arguments N.modulo : simpl never.
Arguments N.ltb : simpl never.
Arguments N.leb : simpl never.
Arguments N.eqb : simpl never.
Arguments N.pow : simpl never.
Arguments N.of_nat : simpl never.
Arguments N.to_nat : simpl never.

(* ------------------------------------------------------------------ varints *)

Lemma varint_fuel_S f n :
  varint_fuel (S f) n = if n <? 128 then [n] else (n mod 128 + 128) :: varint_fuel f (n / 128).
Proof. reflexivity. Qed.

Lemma unvarint_varint_fuel rest : forall f n,
  n < 2 ^ N.of_nat f ->
  unvarint (varint_fuel (S f) n ++ rest) = Some (n, length (varint_fuel (S f) n), rest).
Proof.
  induction f as [|f IH]; intros n Hn.
  - change (2 ^ N.of_nat 0) with 1 in Hn. assert (n = 0) by lia. subst n. reflexivity.
  - rewrite (varint_fuel_S (S f)). destruct (n <? 128) eqn:E.
    + cbn [app unvarint length]. rewrite E. reflexivity.
    + apply N.ltb_ge in E.
      assert (Hq : n / 128 < 2 ^ N.of_nat f).
      { rewrite Nat2N.inj_succ, N.pow_succ_r' in Hn.
        apply N.div_lt_upper_bound; [lia|].
        assert (0 < 2 ^ N.of_nat f) by (apply N.neq_0_lt_0, N.pow_nonzero; lia).
        lia. }
      specialize (IH (n / 128) Hq).
      cbn [app unvarint length].
      assert (Eb : (n mod 128 + 128 <? 128) = false) by (apply N.ltb_ge; lia). rewrite Eb.
      rewrite IH.
      f_equal. f_equal. f_equal.
      pose proof (N.div_mod n 128 ltac:(lia)). lia.
Qed.

Lemma unvarint_varint n rest : unvarint (varint n ++ rest) = Some (n, length (varint n), rest).
Proof.
  unfold varint. apply unvarint_varint_fuel. rewrite N2Nat.id. apply N.size_gt.
Qed.

Lemma varint_fuel_length : forall f k n, n < 128 ^ N.of_nat k -> (1 <= k)%nat -> (length (varint_fuel f n) <= k)%nat.
Proof.
  induction f as [|f IH]; intros k n Hn Hk; [cbn [varint_fuel length]; lia|].
  rewrite varint_fuel_S. destruct (n <? 128) eqn:E; cbn [length]; [lia|].
  apply N.ltb_ge in E.
  destruct k as [|[|k]]; [lia| |].
  - change (128 ^ N.of_nat 1) with 128 in Hn. lia.
  - assert (Hq : n / 128 < 128 ^ N.of_nat (S k)).
    { rewrite (Nat2N.inj_succ (S k)), N.pow_succ_r' in Hn. apply N.div_lt_upper_bound; lia. }
    specialize (IH (S k) (n / 128) Hq ltac:(lia)). lia.
Qed.

Lemma varint_length n k : n < 128 ^ N.of_nat k -> (1 <= k)%nat -> (length (varint n) <= k)%nat.
Proof. intros; unfold varint; apply varint_fuel_length; assumption. Qed.

Lemma varint_cons n : exists b r, varint n = b :: r.
Proof. unfold varint. rewrite varint_fuel_S. destruct (n <? 128); eauto. Qed.

Lemma read_var_varint maxlen bound n rest :
  n < bound -> n < 128 ^ N.of_nat maxlen -> (1 <= maxlen)%nat ->
  read_var maxlen bound (varint n ++ rest) = POk (n, rest).
Proof.
  intros Hb Hm H1. unfold read_var. rewrite unvarint_varint.
  pose proof (varint_length n maxlen Hm H1) as Hl.
  assert (E1 : (maxlen <? length (varint n))%nat = false) by (apply Nat.ltb_ge; exact Hl).
  assert (E2 : (bound <=? n) = false) by (apply N.leb_gt; exact Hb).
  rewrite E1, E2. reflexivity.
Qed.

(* ------------------------------------------------------------------ field lists *)

Definition small (bs : bytes) : Prop := N.of_nat (length bs) < two64.

Definition field_pre (sch : schema) (fld : field) : Prop :=
  1 <= fst fld /\ fst fld < 536870912 /\
  match snd fld with
  | WVar n => (sch (fst fld) = Some KU32 /\ n < two32) \/ (sch (fst fld) = Some KU64 /\ n < two64)
  | WLen b => sch (fst fld) = Some KLen
  end.
Definition field_small (fld : field) : Prop :=
  match snd fld with WLen b => small b | WVar _ => True end.

Lemma tag_decomp f w : w < 8 -> (f * 8 + w) / 8 = f /\ (f * 8 + w) mod 8 = w.
Proof.
  intros Hw. split.
  - symmetry. apply (N.div_unique (f * 8 + w) 8 f w); lia.
  - symmetry. apply (N.mod_unique (f * 8 + w) 8 f w); lia.
Qed.

Lemma pow128_5 : 128 ^ N.of_nat 5 = 34359738368. Proof. reflexivity. Qed.
Lemma pow128_10 : 128 ^ N.of_nat 10 = 1180591620717411303424. Proof. reflexivity. Qed.

Lemma parse_one_enc sch fld rest :
  field_pre sch fld -> field_small fld -> parse_one sch (enc_field fld ++ rest) = POk (fld, rest).
Proof.
  destruct fld as [f v]. unfold field_pre, field_small, enc_field, parse_one. cbn [fst snd].
  intros (Hf1 & Hf2 & Hv) Hs.
  destruct v as [n|b].
  - rewrite <- app_assoc.
    replace (f * 8) with (f * 8 + 0) by lia.
    rewrite read_var_varint; [| unfold two32; lia | rewrite pow128_5; lia | lia].
    cbn [pbind fst snd].
    destruct (tag_decomp f 0 ltac:(lia)) as [Ed Em]. rewrite Ed, Em.
    destruct Hv as [[Hk Hn]|[Hk Hn]]; rewrite Hk.
    + change (0 =? 0) with true. cbv iota.
      rewrite read_var_varint; [| exact Hn | rewrite pow128_5; unfold two32 in Hn; lia | lia].
      reflexivity.
    + change (0 =? 0) with true. cbv iota.
      rewrite read_var_varint; [| exact Hn | rewrite pow128_10; unfold two64 in Hn; lia | lia].
      reflexivity.
  - rewrite <- app_assoc.
    rewrite read_var_varint; [| unfold two32; lia | rewrite pow128_5; lia | lia].
    cbn [pbind fst snd].
    destruct (tag_decomp f 2 ltac:(lia)) as [Ed Em]. rewrite Ed, Em, Hv.
    change (2 =? 2) with true. cbv iota.
    rewrite <- app_assoc.
    unfold small in Hs.
    rewrite read_var_varint; [| exact Hs | rewrite pow128_10; unfold two64 in Hs; lia | lia].
    cbn [pbind fst snd].
    assert (E : (N.of_nat (length (b ++ rest)) <? N.of_nat (length b)) = false).
    { apply N.ltb_ge. rewrite app_length. lia. }
    rewrite E. rewrite Nat2N.id.
    rewrite firstn_app, Nat.sub_diag, firstn_all, firstn_O, app_nil_r.
    rewrite skipn_app, Nat.sub_diag, skipn_all. reflexivity.
Qed.

Lemma enc_field_cons fld : exists b r, enc_field fld = b :: r.
Proof.
  destruct fld as [f [n|b]]; unfold enc_field; cbn [fst snd].
  - destruct (varint_cons (f * 8)) as (x & r & E). rewrite E. cbn [app]. eauto.
  - destruct (varint_cons (f * 8 + 2)) as (x & r & E). rewrite E. cbn [app]. eauto.
Qed.

Lemma parse_fields_S sch fuel bs : bs <> [] ->
  parse_fields sch (S fuel) bs =
  (fr <- parse_one sch bs ;; fs <- parse_fields sch fuel (snd fr) ;; POk (fst fr :: fs)).
Proof. destruct bs; [congruence | reflexivity]. Qed.

Lemma parse_fields_enc sch : forall fs fuel,
  Forall (field_pre sch) fs -> Forall field_small fs -> (length fs < fuel)%nat ->
  parse_fields sch fuel (enc_fields fs) = POk fs.
Proof.
  induction fs as [|fld fs IH]; intros fuel Hp Hs Hf.
  - destruct fuel; reflexivity.
  - inversion Hp as [|? ? Hp1 Hp2]; subst. inversion Hs as [|? ? Hs1 Hs2]; subst.
    cbn [enc_fields flat_map]. change (flat_map enc_field fs) with (enc_fields fs).
    destruct fuel as [|fuel]; [cbn [length] in Hf; lia|].
    rewrite parse_fields_S.
    + rewrite parse_one_enc by assumption. cbn [pbind fst snd].
      rewrite IH; [reflexivity | assumption | assumption | cbn [length] in Hf; lia].
    + destruct (enc_field_cons fld) as (b & r & E). rewrite E. discriminate.
Qed.

Lemma enc_fields_length fs : (length fs <= length (enc_fields fs))%nat.
Proof.
  induction fs as [|fld fs IH]; [cbn; lia|].
  cbn [enc_fields flat_map length]. rewrite app_length.
  destruct (enc_field_cons fld) as (b & r & E). rewrite E. cbn [length].
  change (flat_map enc_field fs) with (enc_fields fs). lia.
Qed.

Lemma small_le a b : (length a <= length b)%nat -> small b -> small a.
Proof. unfold small. intros. lia. Qed.

Lemma enc_fields_small fs : small (enc_fields fs) -> Forall field_small fs.
Proof.
  induction fs as [|fld fs IH]; intros Hs; constructor.
  - destruct fld as [f [n|b]]; unfold field_small; cbn [snd]; [exact I|].
    eapply small_le; [|exact Hs]. cbn [enc_fields flat_map]. unfold enc_field. cbn [fst snd].
    rewrite !app_length. lia.
  - apply IH. eapply small_le; [|exact Hs]. cbn [enc_fields flat_map]. rewrite app_length.
    change (flat_map enc_field fs) with (enc_fields fs). lia.
Qed.

Lemma parse_enc sch fs :
  Forall (field_pre sch) fs -> small (enc_fields fs) -> parse sch (enc_fields fs) = POk fs.
Proof.
  intros Hp Hs. unfold parse. apply parse_fields_enc; [assumption | apply enc_fields_small; assumption |].
  pose proof (enc_fields_length fs). lia.
Qed.

(* ------------------------------------------------------------------ occurrences / repeated fields *)

Lemma occurrences_cons f g v fs :
  occurrences f ((g, v) :: fs) = if g =? f then v :: occurrences f fs else occurrences f fs.
Proof. unfold occurrences. cbn [filter fst]. destruct (g =? f); reflexivity. Qed.
Lemma occurrences_nil f : occurrences f [] = []. Proof. reflexivity. Qed.
Lemma occurrences_app f a b : occurrences f (a ++ b) = occurrences f a ++ occurrences f b.
Proof. unfold occurrences. rewrite filter_app, map_app. reflexivity. Qed.
Lemma occurrences_rep f g l :
  occurrences f (rep_field g l) = if g =? f then map WLen l else [].
Proof.
  induction l as [|b l IH]; [destruct (g =? f); reflexivity|].
  cbn [rep_field map]. rewrite occurrences_cons. unfold rep_field in IH. rewrite IH.
  destruct (g =? f); reflexivity.
Qed.
Lemma occurrences_vrep f g l :
  occurrences f (rep_vfield g l) = if g =? f then map WVar l else [].
Proof.
  induction l as [|b l IH]; [destruct (g =? f); reflexivity|].
  cbn [rep_vfield map]. rewrite occurrences_cons. unfold rep_vfield in IH. rewrite IH.
  destruct (g =? f); reflexivity.
Qed.
Lemma occurrences_opt f g o :
  occurrences f (opt_field g o) = if g =? f then match o with Some b => [WLen b] | None => [] end else [].
Proof. destruct o; cbn [opt_field]; [rewrite occurrences_cons|]; destruct (g =? f); reflexivity. Qed.

Lemma pmap_len l : pmap (fun v => match v with WLen b => POk b | WVar _ => POutside end) (map WLen l) = POk l.
Proof. induction l as [|b l IH]; [reflexivity|]. cbn [map pmap pbind]. rewrite IH. reflexivity. Qed.
Lemma pmap_var l : pmap (fun v => match v with WVar n => POk n | WLen _ => POutside end) (map WVar l) = POk l.
Proof. induction l as [|b l IH]; [reflexivity|]. cbn [map pmap pbind]. rewrite IH. reflexivity. Qed.

Lemma pmap_roundtrip {A} (enc : A -> bytes) (dec : bytes -> pres A) l :
  (forall x, In x l -> dec (enc x) = POk x) -> pmap dec (map enc l) = POk l.
Proof.
  induction l as [|a l IH]; intros H; [reflexivity|].
  cbn [map pmap]. rewrite (H a (or_introl eq_refl)). cbn [pbind].
  rewrite IH by (intros x Hx; apply H; right; exact Hx). reflexivity.
Qed.

Lemma pmap_ok_Forall {A B} (f : A -> pres B) (P : B -> Prop) :
  (forall a b, f a = POk b -> P b) -> forall l r, pmap f l = POk r -> Forall P r.
Proof.
  intros Hf. induction l as [|a l IH]; intros r H.
  - cbn in H. injection H as <-. constructor.
  - cbn [pmap] in H. destruct (f a) as [b| |] eqn:E; cbn [pbind] in H; try discriminate.
    destruct (pmap f l) as [bs| |] eqn:E2; cbn [pbind] in H; try discriminate.
    injection H as <-. constructor; [eapply Hf; eassumption | apply IH; reflexivity].
Qed.

Lemma Forall_field_small_rep f l : Forall field_small (rep_field f l) -> Forall small l.
Proof.
  induction l as [|b l IH]; intros H; [constructor|].
  cbn [rep_field map] in H. inversion H; subst. constructor; [assumption| apply IH; assumption].
Qed.

(* ------------------------------------------------------------------ minimal label encoding *)

Lemma strip0_spec v : strip0 v ++ repeat 0 (length v - length (strip0 v))%nat = v.
Proof.
  induction v as [|b r IH]; [reflexivity|].
  cbn [strip0]. destruct (strip0 r) as [|x r'] eqn:E.
  - cbn [length app] in IH. rewrite Nat.sub_0_r in IH.
    destruct (b =? 0) eqn:Eb.
    + apply N.eqb_eq in Eb. subst b. cbn [length app]. rewrite Nat.sub_0_r. cbn [repeat]. rewrite IH. reflexivity.
    + cbn [length app]. replace (S (length r) - 1)%nat with (length r) by lia. rewrite IH. reflexivity.
  - cbn [length app] in IH |- *. change (S (length r) - S (length r'))%nat with (length r - length r')%nat.
    f_equal. exact IH.
Qed.
Lemma strip0_length v : (length (strip0 v) <= length v)%nat.
Proof.
  induction v as [|b r IH]; [cbn; lia|].
  cbn [strip0]. destruct (strip0 r) as [|x r'] eqn:E; [destruct (b =? 0)|]; cbn [length] in *; lia.
Qed.
Lemma pad32_strip0 v : length v = 32%nat -> pad32 (strip0 v) = v.
Proof. intros H. unfold pad32. rewrite <- H. apply strip0_spec. Qed.
Lemma pad32_length v : (length v <= 32)%nat -> length (pad32 v) = 32%nat.
Proof. intros H. unfold pad32. rewrite app_length, repeat_length. lia. Qed.

(* ------------------------------------------------------------------ well-formed values *)

Definition wf_label (l : nlabel) : Prop := length (lval l) = 32%nat /\ llen l <= 256.
Definition wf_digest (b : bytes) : Prop := length b = 32%nat.
Definition wf_elem (e : elem) : Prop := wf_label (e_label e) /\ wf_digest (e_value e).
Definition wf_sib (s : sibling_proof) : Prop :=
  wf_label (sp_label s) /\ wf_label (sp_sib_label s) /\ wf_digest (sp_sib_val s).
Definition wf_mp (p : membership_proof) : Prop :=
  wf_label (mp_label p) /\ wf_digest (mp_hash_val p) /\ Forall wf_sib (mp_sibs p).
Definition wf_nmp (p : nonmembership_proof) : Prop :=
  wf_label (np_label p) /\ wf_label (np_longest_prefix p) /\
  wf_label (fst (np_child0 p)) /\ wf_digest (snd (np_child0 p)) /\
  wf_label (fst (np_child1 p)) /\ wf_digest (snd (np_child1 p)) /\ wf_mp (np_mp p).
Definition wf_lookup (p : lookup_proof) : Prop :=
  lp_epoch p < two64 /\ lp_version p < two64 /\
  wf_mp (lp_existence p) /\ wf_mp (lp_marker p) /\ wf_nmp (lp_freshness p).
Definition wf_update (u : update_proof) : Prop :=
  up_epoch u < two64 /\ up_version u < two64 /\ wf_mp (up_existence u) /\
  match up_prev u with Some m => wf_mp m | None => True end.
Definition wf_history (h : history_proof) : Prop :=
  Forall wf_update (hp_updates h) /\ Forall wf_mp (hp_past h) /\ Forall wf_nmp (hp_future h).
Definition wf_single (s : list elem * list elem) : Prop := Forall wf_elem (fst s) /\ Forall wf_elem (snd s).
Definition wf_audit (a : audit_proof) : Prop :=
  Forall wf_single (ap_proofs a) /\ Forall (fun e => e < two64) (ap_epochs a).

(* closed side conditions about field numbers and schemas *)
Ltac closed_goal :=
  match goal with
  | |- _ <= _ => vm_compute; discriminate
  | |- _ < _ => reflexivity
  | |- _ = _ => reflexivity
  end.
Ltac pre_len := unfold field_pre; cbn [fst snd]; repeat split; closed_goal.
Ltac pre_u32 H := unfold field_pre; cbn [fst snd]; split; [closed_goal | split; [closed_goal | left; split; [reflexivity | exact H]]].
Ltac pre_u64 H := unfold field_pre; cbn [fst snd]; split; [closed_goal | split; [closed_goal | right; split; [reflexivity | exact H]]].

Lemma Forall_pre_rep sch f l :
  1 <= f -> f < 536870912 -> sch f = Some KLen -> Forall (field_pre sch) (rep_field f l).
Proof.
  intros H1 H2 H3. induction l as [|b l IH]; [constructor|].
  cbn [rep_field map]. constructor; [|exact IH]. unfold field_pre. cbn [fst snd]. auto.
Qed.
Lemma Forall_pre_vrep64 sch f l :
  1 <= f -> f < 536870912 -> sch f = Some KU64 -> Forall (fun e => e < two64) l -> Forall (field_pre sch) (rep_vfield f l).
Proof.
  intros H1 H2 H3 H. induction H as [|b l Hb Hl IH]; [constructor|].
  cbn [rep_vfield map]. constructor; [|exact IH]. unfold field_pre. cbn [fst snd]. auto.
Qed.
Lemma Forall_pre_opt sch f o :
  1 <= f -> f < 536870912 -> sch f = Some KLen -> Forall (field_pre sch) (opt_field f o).
Proof.
  intros H1 H2 H3. destruct o; cbn [opt_field]; repeat constructor; cbn [fst snd]; auto.
Qed.

Ltac eqb_closed :=
  repeat match goal with
         | |- context [?a =? ?b] =>
           let r := eval vm_compute in (a =? b) in
           match r with
           | true => change (a =? b) with true
           | false => change (a =? b) with false
           end
         end.
Ltac occ :=
  repeat (rewrite ?occurrences_cons, ?occurrences_nil, ?occurrences_app, ?occurrences_rep, ?occurrences_vrep, ?occurrences_opt);
  eqb_closed; cbv iota.

(* payload smallness extracted from the smallness of the whole encoding *)
Lemma small_payloads fs : small (enc_fields fs) -> forall f b, In (f, WLen b) fs -> small b.
Proof.
  intros Hs f b Hin. pose proof (enc_fields_small fs Hs) as HF.
  rewrite Forall_forall in HF. exact (HF _ Hin).
Qed.

(* ------------------------------------------------------------------ NodeLabel / AzksElement *)

Lemma dec_enc_label l : wf_label l -> small (enc_label l) -> dec_label (enc_label l) = POk l.
Proof.
  intros [Hv Hn] Hs. unfold dec_label, enc_label in *.
  rewrite parse_enc; [| | exact Hs].
  2:{ constructor; [pre_len|]. constructor; [|constructor].
      pre_u32 (N.le_lt_trans _ _ _ Hn (eq_refl : 256 < two32)). }
  cbn [pbind]. unfold req_var, req_len, get_opt. occ. cbn [pbind].
  pose proof (strip0_length (lval l)) as Hl.
  assert (E1 : (GenConsts.proto_label_val_max <? N.of_nat (length (strip0 (lval l)))) = false).
  { apply N.ltb_ge. change GenConsts.proto_label_val_max with 32. lia. }
  assert (E2 : (GenConsts.proto_label_len_max <? llen l) = false).
  { apply N.ltb_ge. exact Hn. }
  rewrite E1, E2. rewrite pad32_strip0 by exact Hv. destruct l; reflexivity.
Qed.

Lemma dec_label_wf bs l : dec_label bs = POk l -> wf_label l.
Proof.
  unfold dec_label. intros H.
  destruct (parse sch_label bs) as [fs| |]; cbn [pbind] in H; try discriminate.
  destruct (req_var _ fs) as [n| |]; cbn [pbind] in H; try discriminate.
  destruct (req_len _ fs) as [v| |]; cbn [pbind] in H; try discriminate.
  destruct (_ <? N.of_nat (length v)) eqn:E1; try discriminate.
  destruct (_ <? n) eqn:E2; try discriminate.
  injection H as <-. apply N.ltb_ge in E1, E2. change GenConsts.proto_label_val_max with 32 in E1.
  split; cbn [lval llen]; [apply pad32_length; lia | exact E2].
Qed.

Lemma dec_digest_ok b : wf_digest b -> dec_digest b = POk b.
Proof. unfold wf_digest, dec_digest. intros ->. reflexivity. Qed.
Lemma dec_digest_wf b d : dec_digest b = POk d -> wf_digest d.
Proof.
  unfold dec_digest, wf_digest. destruct (_ =? _) eqn:E; [|discriminate]. intros [= <-].
  apply N.eqb_eq in E. change GenConsts.DIGEST_BYTES with 32 in E. lia.
Qed.

Ltac all_len := repeat (apply Forall_cons; [pre_len|]); try apply Forall_nil.
Ltac bind_ok H :=
  repeat match type of H with
         | pbind ?x _ = POk _ =>
           let E := fresh "E" in destruct x eqn:E; cbn [pbind] in H; [|discriminate H|discriminate H]
         end.

Lemma dec_enc_elem e : wf_elem e -> small (enc_elem e) -> dec_elem (enc_elem e) = POk e.
Proof.
  intros [Hl Hd] Hs. unfold dec_elem, enc_elem in *.
  pose proof (small_payloads _ Hs) as Hp.
  rewrite parse_enc; [| all_len | exact Hs].
  cbn [pbind]. unfold req_len, get_opt. occ. cbn [pbind].
  rewrite dec_enc_label; [| exact Hl | eapply Hp; left; reflexivity].
  cbn [pbind]. rewrite dec_digest_ok by exact Hd. cbn [pbind]. destruct e; reflexivity.
Qed.

Lemma dec_elem_wf bs e : dec_elem bs = POk e -> wf_elem e.
Proof.
  unfold dec_elem. intros H. bind_ok H. injection H as <-.
  split; cbn [e_label e_value]; [eapply dec_label_wf; eassumption | eapply dec_digest_wf; eassumption].
Qed.

(* ------------------------------------------------------------------ SiblingProof / MembershipProof *)

Lemma dec_enc_sib s : wf_sib s -> small (enc_sib s) -> dec_sib (enc_sib s) = POk s.
Proof.
  intros (Hl & Hsl & Hsv) Hs. unfold dec_sib, enc_sib in *.
  pose proof (small_payloads _ Hs) as Hp.
  rewrite parse_enc; [| | exact Hs].
  2:{ apply Forall_cons; [pre_len|]. apply Forall_cons; [pre_len|]. apply Forall_cons; [|apply Forall_nil].
      assert (Hd : (if sp_dir s then 1 else 0) < two32) by (destruct (sp_dir s); reflexivity).
      pre_u32 Hd. }
  cbn [pbind]. unfold req_var, req_len, rep_len, get_opt. occ. cbn [pbind].
  rewrite dec_enc_label; [| exact Hl | eapply Hp; left; reflexivity]. cbn [pbind pmap].
  rewrite dec_enc_elem; [| split; assumption | eapply Hp; right; left; reflexivity].
  destruct s as [l sl sv d]. cbn [sp_dir sp_label sp_sib_label sp_sib_val e_label e_value pbind] in *.
  destruct d; reflexivity.
Qed.

Lemma dec_sib_wf bs s : dec_sib bs = POk s -> wf_sib s.
Proof.
  unfold dec_sib. intros H. bind_ok H.
  match type of H with match ?l with _ => _ end = _ => destruct l as [|sb rest]; [discriminate|] end.
  destruct (1 <? _); [discriminate|]. bind_ok H. injection H as <-.
  match goal with He : dec_elem _ = POk ?e |- _ => destruct (dec_elem_wf _ _ He) end.
  repeat split; cbn [sp_label sp_sib_label sp_sib_val]; try assumption;
    try (eapply dec_label_wf; eassumption); match goal with Hw : wf_label (e_label _) |- _ => apply Hw end.
Qed.

Lemma In_rep f b l : In b l -> In (f, WLen b) (rep_field f l).
Proof. intros H. unfold rep_field. apply in_map_iff. exists b. auto. Qed.

Lemma dec_enc_mp p : wf_mp p -> small (enc_mp p) -> dec_mp (enc_mp p) = POk p.
Proof.
  intros (Hl & Hh & Hsibs) Hs. unfold dec_mp, enc_mp in *.
  pose proof (small_payloads _ Hs) as Hp.
  rewrite parse_enc; [| | exact Hs].
  2:{ apply Forall_cons; [pre_len|]. apply Forall_cons; [pre_len|]. apply Forall_pre_rep; closed_goal. }
  cbn [pbind]. unfold req_len, rep_len, get_opt. occ. cbn [pbind].
  rewrite dec_enc_label; [| exact Hl | eapply Hp; left; reflexivity]. cbn [pbind].
  rewrite dec_digest_ok by exact Hh. cbn [pbind].
  rewrite pmap_len. cbn [pbind].
  rewrite pmap_roundtrip.
  - cbn [pbind]. destruct p; reflexivity.
  - intros s Hin. apply dec_enc_sib.
    + rewrite Forall_forall in Hsibs. apply Hsibs. exact Hin.
    + eapply Hp. right. right. apply In_rep. apply in_map. exact Hin.
Qed.

Lemma dec_mp_wf bs p : dec_mp bs = POk p -> wf_mp p.
Proof.
  unfold dec_mp. intros H. bind_ok H. injection H as <-.
  split; [|split]; cbn [mp_label mp_hash_val mp_sibs];
    [eapply dec_label_wf; eassumption | eapply dec_digest_wf; eassumption |].
  eapply pmap_ok_Forall; [|eassumption]. intros xa xb Hab. eapply dec_sib_wf; eassumption.
Qed.

(* ------------------------------------------------------------------ NonMembershipProof *)

Lemma dec_enc_nmp p : wf_nmp p -> small (enc_nmp p) -> dec_nmp (enc_nmp p) = POk p.
Proof.
  intros (Hl & Hlp & Hc0l & Hc0v & Hc1l & Hc1v & Hmp) Hs. unfold dec_nmp, enc_nmp in *.
  pose proof (small_payloads _ Hs) as Hp.
  rewrite parse_enc; [| all_len | exact Hs].
  cbn [pbind]. unfold req_len, rep_len, get_opt. occ. cbn [pbind].
  rewrite dec_enc_label; [| exact Hl | eapply Hp; left; reflexivity]. cbn [pbind].
  rewrite dec_enc_label; [| exact Hlp | eapply Hp; right; left; reflexivity]. cbn [pbind].
  rewrite dec_enc_mp; [| exact Hmp | eapply Hp; do 4 right; left; reflexivity]. cbn [pbind pmap].
  rewrite dec_enc_elem; [| split; assumption | eapply Hp; do 2 right; left; reflexivity]. cbn [pbind].
  rewrite dec_enc_elem; [| split; assumption | eapply Hp; do 3 right; left; reflexivity]. cbn [pbind].
  destruct p as [l lp [c0l c0v] [c1l c1v] mp]. reflexivity.
Qed.

Lemma dec_nmp_wf bs p : dec_nmp bs = POk p -> wf_nmp p.
Proof.
  unfold dec_nmp. intros H. bind_ok H.
  match type of H with match ?l with _ => _ end = _ => destruct l as [|c0 [|c1 [|c2 rest]]]; try discriminate end.
  injection H as <-.
  match goal with Hc : pmap dec_elem _ = POk [c0; c1] |- _ =>
    pose proof (pmap_ok_Forall dec_elem wf_elem dec_elem_wf _ _ Hc) as HF end.
  inversion HF as [|? ? [H0l H0v] HF']; subst. inversion HF' as [|? ? [H1l H1v] _]; subst.
  unfold wf_nmp. cbn [np_label np_longest_prefix np_child0 np_child1 np_mp fst snd].
  repeat match goal with |- _ /\ _ => split end; try assumption;
    try (eapply dec_label_wf; eassumption); eapply dec_mp_wf; eassumption.
Qed.

(* ------------------------------------------------------------------ LookupProof *)

Lemma dec_enc_lookup p : wf_lookup p -> small (enc_lookup p) -> dec_lookup (enc_lookup p) = POk p.
Proof.
  intros (He & Hv & Hex & Hmk & Hfr) Hs. unfold dec_lookup, enc_lookup in *.
  pose proof (small_payloads _ Hs) as Hp.
  rewrite parse_enc; [| | exact Hs].
  2:{ apply Forall_cons; [pre_u64 He|]. apply Forall_cons; [pre_len|]. apply Forall_cons; [pre_u64 Hv|]. all_len. }
  cbn [pbind]. unfold req_var, req_len, get_opt. occ. cbn [pbind].
  rewrite dec_enc_mp; [| exact Hex | eapply Hp; do 4 right; left; reflexivity]. cbn [pbind].
  rewrite dec_enc_mp; [| exact Hmk | eapply Hp; do 6 right; left; reflexivity]. cbn [pbind].
  rewrite dec_enc_nmp; [| exact Hfr | eapply Hp; do 8 right; left; reflexivity]. cbn [pbind].
  destruct p; reflexivity.
Qed.

Definition var_bounded (fld : field) : Prop := match snd fld with WVar n => n < two64 | WLen _ => True end.

Lemma read_var_bound ml bound bs n r : read_var ml bound bs = POk (n, r) -> n < bound.
Proof.
  unfold read_var. destruct (unvarint bs) as [[[x k] r']|]; [|discriminate].
  destruct ((ml <? k)%nat || (bound <=? x)) eqn:E; [discriminate|]. intros [= <- <-].
  apply orb_false_iff in E. destruct E as [_ E]. apply N.leb_gt in E. exact E.
Qed.

Lemma parse_one_var sch bs fld r : parse_one sch bs = POk (fld, r) -> var_bounded fld.
Proof.
  unfold parse_one. intros H.
  destruct (read_var 5 two32 bs) as [[tag r0]| |]; cbn [pbind fst snd] in H; try discriminate.
  destruct (sch (tag / 8)) as [[| |]|]; try discriminate.
  - destruct (tag mod 8 =? 0); [|discriminate].
    destruct (read_var 5 two32 r0) as [[v r1]| |] eqn:E; cbn [pbind fst snd] in H; try discriminate.
    injection H as <- <-. unfold var_bounded. cbn [snd]. apply read_var_bound in E.
    unfold two32, two64 in *. lia.
  - destruct (tag mod 8 =? 0); [|discriminate].
    destruct (read_var 10 two64 r0) as [[v r1]| |] eqn:E; cbn [pbind fst snd] in H; try discriminate.
    injection H as <- <-. unfold var_bounded. cbn [snd]. apply read_var_bound in E. exact E.
  - destruct (tag mod 8 =? 2); [|discriminate].
    destruct (read_var 10 two64 r0) as [[v r1]| |] eqn:E; cbn [pbind fst snd] in H; try discriminate.
    destruct (_ <? _); [discriminate|]. injection H as <- <-. exact I.
Qed.

Lemma parse_fields_vars sch : forall fuel bs fs, parse_fields sch fuel bs = POk fs -> Forall var_bounded fs.
Proof.
  induction fuel as [|fuel IH]; intros bs fs H.
  - destruct bs; cbn in H; [injection H as <-; constructor | discriminate].
  - destruct bs as [|b bs']; [cbn in H; injection H as <-; constructor|].
    rewrite parse_fields_S in H by discriminate.
    destruct (parse_one sch (b :: bs')) as [[fld r]| |] eqn:E; cbn [pbind fst snd] in H; try discriminate.
    destruct (parse_fields sch fuel r) as [fs'| |] eqn:E2; cbn [pbind] in H; try discriminate.
    injection H as <-. constructor; [eapply parse_one_var; eassumption | eapply IH; eassumption].
Qed.

Lemma occurrences_In f v fs : In v (occurrences f fs) -> In (f, v) fs.
Proof.
  unfold occurrences. rewrite in_map_iff. intros ([g w] & Hw & Hin). cbn [snd] in Hw. subst w.
  apply filter_In in Hin. destruct Hin as [Hin Hf]. cbn [fst] in Hf. apply N.eqb_eq in Hf. subst g. exact Hin.
Qed.

Lemma req_var_bounded sch bs fs f n : parse sch bs = POk fs -> req_var f fs = POk n -> n < two64.
Proof.
  intros Hp Hr. unfold req_var, get_opt in Hr.
  destruct (occurrences f fs) as [|v [|v2 rest]] eqn:E; cbn [pbind] in Hr; try discriminate.
  destruct v as [m|b]; try discriminate. injection Hr as <-.
  assert (Hin : In (f, WVar m) fs) by (apply occurrences_In; rewrite E; left; reflexivity).
  apply parse_fields_vars in Hp. rewrite Forall_forall in Hp. exact (Hp _ Hin).
Qed.

Lemma rep_var_bounded sch bs fs f l : parse sch bs = POk fs -> rep_var f fs = POk l -> Forall (fun e => e < two64) l.
Proof.
  intros Hp Hr. unfold rep_var in Hr.
  apply parse_fields_vars in Hp. rewrite Forall_forall in Hp.
  assert (Hin : forall v, In v (occurrences f fs) -> In (f, v) fs) by (intros; apply occurrences_In; assumption).
  revert l Hr Hin. generalize (occurrences f fs) as vs. induction vs as [|v vs IH]; intros l Hr Hin.
  - cbn in Hr. injection Hr as <-. constructor.
  - cbn [pmap] in Hr. destruct v as [m|b]; cbn [pbind] in Hr; try discriminate.
    destruct (pmap _ vs) as [ms| |] eqn:E; cbn [pbind] in Hr; try discriminate.
    injection Hr as <-. constructor.
    + exact (Hp _ (Hin _ (or_introl eq_refl))).
    + apply IH; [reflexivity | intros; apply Hin; right; assumption].
Qed.

Lemma dec_lookup_wf bs p : dec_lookup bs = POk p -> wf_lookup p.
Proof.
  unfold dec_lookup. intros H. bind_ok H. injection H as <-.
  unfold wf_lookup. cbn [lp_epoch lp_version lp_existence lp_marker lp_freshness].
  repeat match goal with |- _ /\ _ => split end;
    try (eapply dec_mp_wf; eassumption); try (eapply dec_nmp_wf; eassumption);
    eapply req_var_bounded; eassumption.
Qed.

(* ------------------------------------------------------------------ UpdateProof / HistoryProof *)

Lemma dec_enc_update u : wf_update u -> small (enc_update u) -> dec_update (enc_update u) = POk u.
Proof.
  intros (He & Hv & Hex & Hprev) Hs. unfold dec_update, enc_update in *.
  pose proof (small_payloads _ Hs) as Hp.
  rewrite parse_enc; [| | exact Hs].
  2:{ apply Forall_cons; [pre_u64 He|]. apply Forall_cons; [pre_len|]. apply Forall_cons; [pre_u64 Hv|].
      apply Forall_cons; [pre_len|]. apply Forall_cons; [pre_len|].
      apply Forall_app. split; [apply Forall_pre_opt; closed_goal|].
      apply Forall_app. split; [apply Forall_pre_opt; closed_goal|]. all_len. }
  cbn [pbind]. unfold req_var, req_len, opt_len, get_opt. occ. cbn [pbind].
  destruct u as [e ver v ev ex pv pm nonce].
  cbn [up_epoch up_version up_value up_existence_vrf up_existence up_prev_vrf up_prev up_nonce] in *.
  assert (Hex' : dec_mp (enc_mp ex) = POk ex).
  { apply dec_enc_mp; [exact Hex | eapply Hp; do 4 right; left; reflexivity]. }
  destruct pv as [pvb|]; destruct pm as [pmm|]; cbn [option_map app pbind];
    try (assert (Hpm' : dec_mp (enc_mp pmm) = POk pmm)
           by (apply dec_enc_mp; [exact Hprev | eapply Hp; cbn [opt_field option_map app]; cbn; auto 12]);
         rewrite Hpm'; cbn [pbind]);
    rewrite Hex'; reflexivity.
Qed.

Lemma dec_update_wf bs u : dec_update bs = POk u -> wf_update u.
Proof.
  unfold dec_update. intros H. bind_ok H. injection H as <-.
  unfold wf_update. cbn [up_epoch up_version up_existence up_prev].
  repeat match goal with |- _ /\ _ => split end;
    try (eapply dec_mp_wf; eassumption); try (eapply req_var_bounded; eassumption).
  match goal with Hm : match ?o with _ => _ end = POk ?r |- match ?r with _ => _ end =>
    destruct o as [b|]; [|injection Hm as <-; exact I] end.
  match goal with Hm : pbind (dec_mp ?b) _ = POk _ |- _ => destruct (dec_mp b) eqn:Em; cbn [pbind] in Hm; try discriminate;
    injection Hm as <-; eapply dec_mp_wf; eassumption end.
Qed.

Lemma In_app3 {A} (x : A) a b c : In x b -> In x (a ++ b ++ c).
Proof. intros. apply in_or_app. right. apply in_or_app. left. assumption. Qed.

Lemma dec_enc_history h : wf_history h -> small (enc_history h) -> dec_history (enc_history h) = POk h.
Proof.
  intros (Hu & Hpm & Hfm) Hs. unfold dec_history, enc_history in *.
  pose proof (small_payloads _ Hs) as Hp.
  rewrite parse_enc; [| | exact Hs].
  2:{ repeat (apply Forall_app; split); apply Forall_pre_rep; closed_goal. }
  cbn [pbind]. unfold rep_len. occ. rewrite ?app_nil_r. cbn [app]. rewrite !pmap_len. cbn [pbind].
  rewrite pmap_roundtrip.
  2:{ intros u Hin. apply dec_enc_update; [rewrite Forall_forall in Hu; apply Hu; exact Hin|].
      eapply Hp. apply in_or_app. left. apply In_rep, in_map, Hin. }
  cbn [pbind]. rewrite pmap_roundtrip.
  2:{ intros m Hin. apply dec_enc_mp; [rewrite Forall_forall in Hpm; apply Hpm; exact Hin|].
      eapply Hp. do 2 (apply in_or_app; right). apply in_or_app. left. apply In_rep, in_map, Hin. }
  cbn [pbind]. rewrite pmap_roundtrip.
  2:{ intros m Hin. apply dec_enc_nmp; [rewrite Forall_forall in Hfm; apply Hfm; exact Hin|].
      eapply Hp. do 4 (apply in_or_app; right). apply In_rep, in_map, Hin. }
  cbn [pbind]. destruct h; reflexivity.
Qed.

Lemma dec_history_wf bs h : dec_history bs = POk h -> wf_history h.
Proof.
  unfold dec_history. intros H. bind_ok H. injection H as <-.
  unfold wf_history. cbn [hp_updates hp_past hp_future].
  split; [|split]; (eapply pmap_ok_Forall; [|eassumption]).
  - intros xa xb Hab. eapply dec_update_wf; eassumption.
  - intros xa xb Hab. eapply dec_mp_wf; eassumption.
  - intros xa xb Hab. eapply dec_nmp_wf; eassumption.
Qed.

(* ------------------------------------------------------------------ append-only proofs *)

Lemma dec_enc_single s : wf_single s -> small (enc_single s) -> dec_single (enc_single s) = POk s.
Proof.
  intros (Hi & Hu) Hs. unfold dec_single, enc_single in *.
  pose proof (small_payloads _ Hs) as Hp.
  rewrite parse_enc; [| | exact Hs].
  2:{ apply Forall_app; split; apply Forall_pre_rep; closed_goal. }
  cbn [pbind]. unfold rep_len. occ. rewrite ?app_nil_r. cbn [app]. rewrite !pmap_len. cbn [pbind].
  rewrite pmap_roundtrip.
  2:{ intros e Hin. apply dec_enc_elem; [rewrite Forall_forall in Hi; apply Hi; exact Hin|].
      eapply Hp. apply in_or_app. left. apply In_rep, in_map, Hin. }
  cbn [pbind]. rewrite pmap_roundtrip.
  2:{ intros e Hin. apply dec_enc_elem; [rewrite Forall_forall in Hu; apply Hu; exact Hin|].
      eapply Hp. apply in_or_app. right. apply In_rep, in_map, Hin. }
  cbn [pbind]. destruct s; reflexivity.
Qed.

Lemma dec_single_wf bs s : dec_single bs = POk s -> wf_single s.
Proof.
  unfold dec_single. intros H. bind_ok H. injection H as <-.
  unfold wf_single. cbn [fst snd].
  split; (eapply pmap_ok_Forall; [|eassumption]); intros xa xb Hab; eapply dec_elem_wf; eassumption.
Qed.

Lemma dec_enc_audit a : wf_audit a -> small (enc_audit a) -> dec_audit (enc_audit a) = POk a.
Proof.
  intros (Hpr & He) Hs. unfold dec_audit, enc_audit in *.
  pose proof (small_payloads _ Hs) as Hp.
  rewrite parse_enc; [| | exact Hs].
  2:{ apply Forall_app; split; [apply Forall_pre_rep; closed_goal | apply Forall_pre_vrep64; try closed_goal; exact He]. }
  cbn [pbind]. unfold rep_len, rep_var. occ. rewrite ?app_nil_r. cbn [app]. rewrite pmap_len, pmap_var. cbn [pbind].
  rewrite pmap_roundtrip.
  2:{ intros s Hin. apply dec_enc_single; [rewrite Forall_forall in Hpr; apply Hpr; exact Hin|].
      eapply Hp. apply in_or_app. left. apply In_rep, in_map, Hin. }
  cbn [pbind]. destruct a; reflexivity.
Qed.

Lemma dec_audit_wf bs a : dec_audit bs = POk a -> wf_audit a.
Proof.
  unfold dec_audit. intros H. bind_ok H. injection H as <-.
  unfold wf_audit. cbn [ap_proofs ap_epochs]. split.
  - eapply pmap_ok_Forall; [|eassumption]. intros xa xb Hab. eapply dec_single_wf; eassumption.
  - eapply rep_var_bounded; eassumption.
Qed.

(* ------------------------------------------------------------------ audit blob names *)

Lemma unhex_hex n : n < 16 -> unhexdigit (hexdigit n) = Some n.
Proof.
  intros Hn. unfold hexdigit, unhexdigit. destruct (n <? 10) eqn:E.
  - assert (E1 : (48 <=? 48 + n) && (48 + n <=? 57) = true) by lia. rewrite E1. f_equal. lia.
  - assert (E1 : (48 <=? 87 + n) && (87 + n <=? 57) = false) by lia. rewrite E1.
    assert (E2 : (97 <=? 87 + n) && (87 + n <=? 102) = true) by lia. rewrite E2. f_equal. lia.
Qed.
Lemma hexdigit_range n : n < 16 -> (48 <= hexdigit n /\ hexdigit n <= 57) \/ (97 <= hexdigit n /\ hexdigit n <= 102).
Proof. intros Hn. unfold hexdigit. destruct (n <? 10) eqn:E; lia. Qed.

Lemma hex_dec_enc b : Forall (fun x => x < 256) b -> hex_dec (hex_enc b) = Some b.
Proof.
  induction 1 as [|x b Hx Hb IH]; [reflexivity|].
  cbn [hex_enc flat_map app]. change (flat_map _ b) with (hex_enc b).
  cbn [hex_dec]. rewrite !unhex_hex by lia. rewrite IH. f_equal. f_equal. lia.
Qed.

Definition no_sep (s : bytes) : Prop := Forall (fun c => c <> NAME_SEPARATOR) s.
Lemma hex_enc_no_sep b : Forall (fun x => x < 256) b -> no_sep (hex_enc b).
Proof.
  induction 1 as [|x b Hx Hb IH]; [constructor|].
  cbn [hex_enc flat_map app]. change (flat_map _ b) with (hex_enc b).
  unfold NAME_SEPARATOR. cbv beta in Hx. constructor; [|constructor; [|exact IH]].
  - pose proof (hexdigit_range (x / 16) ltac:(lia)) as Hr. set (h := hexdigit _) in *. clearbody h. clear - Hr. unfold NAME_SEPARATOR. lia.
  - pose proof (hexdigit_range (x mod 16) ltac:(lia)) as Hr. set (h := hexdigit _) in *. clearbody h. clear - Hr. unfold NAME_SEPARATOR. lia.
Qed.

Lemma split_no_sep s : no_sep s -> split NAME_SEPARATOR s = [s].
Proof.
  induction 1 as [|c s Hc Hs IH]; [reflexivity|].
  cbn [split]. apply N.eqb_neq in Hc. rewrite Hc, IH. reflexivity.
Qed.
Lemma split_app a b : no_sep a -> split NAME_SEPARATOR (a ++ NAME_SEPARATOR :: b) = a :: split NAME_SEPARATOR b.
Proof.
  induction 1 as [|c s Hc Hs IH].
  - cbn [app split]. rewrite N.eqb_refl. reflexivity.
  - cbn [app split]. apply N.eqb_neq in Hc. rewrite Hc, IH. reflexivity.
Qed.

Definition digits (s : bytes) : Prop := Forall (fun c => 48 <= c /\ c <= 57) s.
Lemma dec_fuel_digits : forall f n, digits (dec_fuel f n).
Proof.
  induction f as [|f IH]; intros n; [constructor|].
  cbn [dec_fuel]. destruct (n <? 10) eqn:E.
  - constructor; [lia|constructor].
  - apply Forall_app. split; [apply IH|]. constructor; [lia|constructor].
Qed.
Lemma fold_dec_digits : forall s a, digits s -> exists v, fold_left dec_step s (Some a) = Some v.
Proof.
  induction s as [|c s IH]; intros a H; [eexists; reflexivity|].
  inversion H as [|? ? Hc Hs]; subst. cbn [fold_left dec_step].
  assert (E : (48 <=? c) && (c <=? 57) = true) by lia. rewrite E. apply IH. exact Hs.
Qed.
Lemma dec_fuel_S f n :
  dec_fuel (S f) n = if n <? 10 then [48 + n] else dec_fuel f (n / 10) ++ [48 + n mod 10].
Proof. reflexivity. Qed.
Lemma dec_fuel_value : forall f n a, n < 10 ^ N.of_nat (S f) ->
  fold_left dec_step (dec_fuel (S f) n) (Some a) = Some (a * 10 ^ N.of_nat (length (dec_fuel (S f) n)) + n) /\
  (1 <= length (dec_fuel (S f) n))%nat.
Proof.
  induction f as [|f IH]; intros n a Hn.
  - change (10 ^ N.of_nat 1) with 10 in Hn. rewrite dec_fuel_S.
    assert (E : (n <? 10) = true) by lia. rewrite E. cbn [fold_left dec_step length].
    assert (E1 : (48 <=? 48 + n) && (48 + n <=? 57) = true) by lia. rewrite E1.
    change (10 ^ N.of_nat 1) with 10. split; [f_equal; lia | lia].
  - rewrite (dec_fuel_S (S f)). destruct (n <? 10) eqn:E.
    + cbn [fold_left dec_step length].
      assert (E1 : (48 <=? 48 + n) && (48 + n <=? 57) = true) by lia. rewrite E1.
      change (10 ^ N.of_nat 1) with 10. split; [f_equal; lia | lia].
    + assert (Hq : n / 10 < 10 ^ N.of_nat (S f)).
      { rewrite (Nat2N.inj_succ (S f)), N.pow_succ_r' in Hn. apply N.div_lt_upper_bound; lia. }
      destruct (IH (n / 10) a Hq) as [Hv Hl].
      rewrite fold_left_app, Hv. cbn [fold_left dec_step].
      assert (E1 : (48 <=? 48 + n mod 10) && (48 + n mod 10 <=? 57) = true) by lia. rewrite E1.
      rewrite app_length. cbn [length]. rewrite Nat.add_1_r, Nat2N.inj_succ, N.pow_succ_r'.
      split; [|lia]. f_equal.
      set (k := 10 ^ N.of_nat (length (dec_fuel (S f) (n / 10)))).
      pose proof (N.div_mod n 10 ltac:(lia)). nia.
Qed.

Lemma dec_parse_print n : n < two64 -> dec_parse (dec_print n) = Some n.
Proof.
  intros Hn. unfold dec_print, dec_parse.
  destruct (dec_fuel_value 19 n 0) as [Hv Hl].
  { unfold two64 in Hn. change (10 ^ N.of_nat 20) with 100000000000000000000. lia. }
  destruct (dec_fuel 20 n) as [|c s] eqn:E; [cbn [length] in Hl; lia|].
  rewrite Hv. f_equal; try lia.
Qed.

Lemma digits_no_sep s : digits s -> no_sep s.
Proof. unfold digits, no_sep, NAME_SEPARATOR. apply Forall_impl. intros c Hc. lia. Qed.

Lemma blob_name_roundtrip e p c :
  e < two64 -> length p = 32%nat -> length c = 32%nat ->
  Forall (fun x => x < 256) p -> Forall (fun x => x < 256) c ->
  parse_blob_name (blob_name e p c) = POk (e, p, c).
Proof.
  intros He Hp Hc Bp Bc. unfold parse_blob_name, blob_name. cbn [app].
  pose proof (dec_fuel_digits 20 e) as Hd. fold (dec_print e) in Hd.
  rewrite split_app by (apply digits_no_sep; exact Hd).
  rewrite split_app by (apply hex_enc_no_sep; exact Bp).
  rewrite split_no_sep by (apply hex_enc_no_sep; exact Bc).
  rewrite dec_parse_print by exact He.
  assert (E : (two64 <=? e) = false) by lia. rewrite E.
  rewrite !hex_dec_enc by assumption. rewrite Hp, Hc.
  destruct (dec_print e) as [|d ds] eqn:Ed; [reflexivity|].
  inversion Hd as [|? ? Hd1 Hd2]; subst.
  destruct d as [|q]; [lia|].
  assert (Hne : N.pos q <> 43) by lia.
  repeat (destruct q as [q|q|]; try reflexivity; try lia).
Qed.

(* ------------------------------------------------------------------ corollaries *)

Lemma verify_after_decode cfg vc pk root e l hp allow p h :
  wf_lookup p -> small (enc_lookup p) -> wf_history h -> small (enc_history h) ->
  (forall q, dec_lookup (enc_lookup p) = POk q -> lookup_verify cfg vc pk root e l q = lookup_verify cfg vc pk root e l p) /\
  (forall g, dec_history (enc_history h) = POk g ->
             key_history_verify cfg vc pk root e l g hp allow = key_history_verify cfg vc pk root e l h hp allow).
Proof.
  intros Wp Sp Wh Sh. split.
  - intros q Hq. rewrite dec_enc_lookup in Hq by assumption. injection Hq as <-. reflexivity.
  - intros g Hg. rewrite dec_enc_history in Hg by assumption. injection Hg as <-. reflexivity.
Qed.

Lemma enc_lookup_inj p p' : wf_lookup p -> wf_lookup p' -> small (enc_lookup p) ->
  enc_lookup p = enc_lookup p' -> p = p'.
Proof.
  intros W W' S E. pose proof (dec_enc_lookup p W S) as H1.
  assert (S' : small (enc_lookup p')) by (rewrite <- E; exact S).
  pose proof (dec_enc_lookup p' W' S') as H2. rewrite E in H1. congruence.
Qed.

Definition ex_label (b : N) (n : N) : nlabel := NL (b :: repeat 0 31) n.
Definition ex_digest (b : N) : bytes := repeat b 32.
Definition ex_mp : membership_proof :=
  MP (ex_label 200 256) (ex_digest 7) [SP (ex_label 128 1) (ex_label 64 2) (ex_digest 9) true; SP (ex_label 0 0) (ex_label 1 0) (ex_digest 3) false].
Definition ex_lookup : lookup_proof :=
  LP 5 [1; 2; 3] 2 (repeat 17 80) ex_mp (repeat 18 80) ex_mp (repeat 19 80)
     (NMP (ex_label 77 256) (ex_label 64 2) (ex_label 64 3, ex_digest 1) (ex_label 96 3, ex_digest 2) ex_mp) [4; 5].

Lemma example_lookup_roundtrip : exists p, wf_lookup p /\ small (enc_lookup p) /\ mp_sibs (lp_existence p) <> [] /\
  dec_lookup (enc_lookup p) = POk p.
Proof.
  exists ex_lookup.
  assert (Wl : forall b n, n <= 256 -> wf_label (ex_label b n)) by (intros b n Hn; split; [reflexivity | exact Hn]).
  assert (Wmp : wf_mp ex_mp).
  { split; [apply Wl; vm_compute; discriminate | split; [reflexivity|]].
    repeat constructor; try reflexivity; cbn [llen sp_label sp_sib_label ex_label]; vm_compute; discriminate. }
  assert (W : wf_lookup ex_lookup).
  { unfold wf_lookup. cbn [lp_epoch lp_version lp_existence lp_marker lp_freshness ex_lookup].
    split; [reflexivity | split; [reflexivity | split; [exact Wmp | split; [exact Wmp |]]]].
    unfold wf_nmp. cbn [np_label np_longest_prefix np_child0 np_child1 np_mp fst snd].
    repeat split; try reflexivity; try exact Wmp; try (apply Wl; vm_compute; discriminate);
      cbn [llen ex_label]; try (vm_compute; discriminate); apply (proj2 (proj2 Wmp)). }
  assert (S : small (enc_lookup ex_lookup)) by (unfold small; vm_compute; reflexivity).
  split; [exact W | split; [exact S | split; [discriminate | apply dec_enc_lookup; assumption]]].
Qed.
