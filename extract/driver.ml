(* Correspondence driver: reads the harness trace on stdin ("query = answer" per line), recomputes
   every answer with the extracted Coq model and prints "query = model-answer".  Lines it does not
   know are copied with the answer "?" so that the diff flags them. *)
open Model

let rec pos_of_int (i : int) : positive =
  if i = 1 then XH else if i land 1 = 1 then XI (pos_of_int (i lsr 1)) else XO (pos_of_int (i lsr 1))
let n_of_int (i : int) : n = if i = 0 then N0 else Npos (pos_of_int i)
let rec int_of_pos = function XH -> 1 | XO p -> 2 * int_of_pos p | XI p -> 2 * int_of_pos p + 1
let int_of_n = function N0 -> 0 | Npos p -> int_of_pos p
let rec nat_of_int (i : int) : nat = if i = 0 then O else S (nat_of_int (i - 1))
let rec int_of_nat = function O -> 0 | S k -> 1 + int_of_nat k

(* u64 as decimal string -> n *)
let n_of_dec (s : string) : n =
  (* build via Z-free repeated doubling on int64-unsafe range: use arbitrary precision by hand *)
  let digits = List.init (String.length s) (fun i -> Char.code s.[i] - 48) in
  (* convert decimal digit list to binary (list of bits, lsb first) *)
  let rec div2 ds carry acc = match ds with
    | [] -> (List.rev acc, carry)
    | d :: r -> let v = carry * 10 + d in div2 r (v mod 2) ((v / 2) :: acc) in
  let rec strip = function 0 :: r -> strip r | l -> l in
  let rec bits ds = match strip ds with
    | [] -> []
    | ds -> let (q, r) = div2 ds 0 [] in r :: bits q in
  let bs = bits digits in
  let rec mk = function
    | [] -> None
    | b :: r -> (match mk r with
        | None -> if b = 1 then Some XH else None
        | Some p -> Some (if b = 1 then XI p else XO p)) in
  match mk bs with None -> N0 | Some p -> Npos p

let dec_of_n (x : n) : string =
  (* n -> decimal string; values < 2^64 may exceed OCaml int, so do it on digit lists *)
  let rec bits_of_pos = function XH -> [1] | XO p -> 0 :: bits_of_pos p | XI p -> 1 :: bits_of_pos p in
  match x with
  | N0 -> "0"
  | Npos p ->
    let bs = List.rev (bits_of_pos p) in (* msb first *)
    let dbl_add ds b = (* ds: decimal digits lsb first *)
      let rec go ds carry = match ds with
        | [] -> if carry = 0 then [] else [carry]
        | d :: r -> let v = 2 * d + carry in (v mod 10) :: go r (v / 10) in
      go ds b in
    let ds = List.fold_left dbl_add [] bs in
    String.concat "" (List.rev_map string_of_int ds)

let bytes_of_hex (s : string) : n list =
  List.init (String.length s / 2) (fun i -> n_of_int (int_of_string ("0x" ^ String.sub s (2 * i) 2)))
let hex_of_bytes (l : n list) : string =
  String.concat "" (List.map (fun b -> Printf.sprintf "%02x" (int_of_n b)) l)

let label hexs lens = { lval = bytes_of_hex hexs; llen = n_of_int (int_of_string lens) }
let fmt_label l = Printf.sprintf "%s %d" (hex_of_bytes l.lval) (int_of_n l.llen)
let cfg_empty = function "w" -> empty_label_whatsapp | _ -> empty_label_experimental

let fmt_nlist l = "[" ^ String.concat "," (List.map dec_of_n l) ^ "]"

(* token cursor *)
type cur = { toks : string array; mutable i : int }
let next c = let t = c.toks.(c.i) in c.i <- c.i + 1; t
let next_label c = let h = next c in let l = next c in label h l
let next_elems c =
  let k = int_of_string (next c) in
  List.init k (fun _ -> let l = next_label c in let v = int_of_string (next c) in { e_label = l; e_value = [n_of_int v] })
let fmt_elems es =
  String.concat " " (string_of_int (List.length es) ::
    List.map (fun e -> Printf.sprintf "%s %d" (fmt_label e.e_label) (int_of_n (List.hd e.e_value))) es)
let cmp_int c = match c with Lt -> -1 | Eq -> 0 | Gt -> 1
let sort_canon es =
  List.sort (fun a b ->
      let c = cmp_int (nl_cmp a.e_label b.e_label) in
      if c <> 0 then c else compare (int_of_n (List.hd a.e_value)) (int_of_n (List.hd b.e_value))) es
let mk_set bs es = if bs = "1" then BinarySearchable es else Unsorted es
let set_list = function BinarySearchable l -> l | Unsorted l -> l

(* ---- tree layer ---- *)
(* memoised extracted BLAKE3 (same function, cached by input) *)
let b3_tbl : (string, n list) Hashtbl.t = Hashtbl.create 100000
let blake3_memo (bs : n list) : n list =
  let b = Buffer.create 64 in
  List.iter (fun x -> Buffer.add_char b (Char.chr (int_of_n x))) bs;
  let k = Buffer.contents b in
  match Hashtbl.find_opt b3_tbl k with
  | Some r -> r
  | None -> let r = blake3 bs in Hashtbl.add b3_tbl k r; r
let cfg_w = whatsapp blake3_memo
let cfg_e = experimental blake3_memo (List.map n_of_int [69;120;97;109;112;108;101;76;97;98;101;108])
let cfg_of = function "w" -> cfg_w | _ -> cfg_e
let cur_tree : (config * ((tree * n) * n)) ref = ref (cfg_w, azks_new)
(* child_check of verify_nonmembership: the code as it is now (after fix F1) *)
let child_check = ref true

let next_bytes c = bytes_of_hex (next c)
let next_velems c =
  let k = int_of_string (next c) in
  List.init k (fun _ -> let l = next_label c in let v = next_bytes c in { e_label = l; e_value = v })
let rec ser_tree cfg is_root t =
  match t with
  | Leaf (l, v, e) -> Printf.sprintf "L %s %s %s " (fmt_label l) (hex_of_bytes v) (dec_of_n e)
  | Node (l, le, mde, a, b) ->
    let sub = function None -> "- " | Some c -> ser_tree cfg false c in
    Printf.sprintf "%s %s %s %s %s %s%s" (if is_root then "R" else "I") (fmt_label l) (dec_of_n le) (dec_of_n mde)
      (hex_of_bytes (hashval cfg true t)) (sub a) (sub b)
let ser_mp p =
  String.concat " " ([fmt_label p.mp_label; hex_of_bytes p.mp_hash_val; string_of_int (List.length p.mp_sibs)] @
    List.map (fun sp -> Printf.sprintf "%s %s %s %d" (fmt_label sp.sp_label) (fmt_label sp.sp_sib_label) (hex_of_bytes sp.sp_sib_val) (if sp.sp_dir then 1 else 0)) p.mp_sibs)
let ser_nmp p =
  Printf.sprintf "%s %s %s %s %s %s %s" (fmt_label p.np_label) (fmt_label p.np_longest_prefix)
    (fmt_label (fst p.np_child0)) (hex_of_bytes (snd p.np_child0)) (fmt_label (fst p.np_child1)) (hex_of_bytes (snd p.np_child1)) (ser_mp p.np_mp)
let next_mp c =
  let l = next_label c in let h = next_bytes c in let k = int_of_string (next c) in
  let sibs = List.init k (fun _ -> let pl = next_label c in let sl = next_label c in let sv = next_bytes c in let d = next c in
                           { sp_label = pl; sp_sib_label = sl; sp_sib_val = sv; sp_dir = (d = "1") }) in
  { mp_label = l; mp_hash_val = h; mp_sibs = sibs }
let next_nmp c =
  let x = next_label c in let lp = next_label c in
  let l0 = next_label c in let v0 = next_bytes c in let l1 = next_label c in let v1 = next_bytes c in
  let mp = next_mp c in
  { np_label = x; np_longest_prefix = lp; np_child0 = (l0, v0); np_child1 = (l1, v1); np_mp = mp }

(* ---- storage manager ---- *)
let mst : mstate ref = ref (init_state false)
let count_ops = ref false
let split_colon s = String.split_on_char ':' s
let parse_rec s = match split_colon s with
  | ["A"; e; n] -> RAzks (n_of_dec e, n_of_dec n)
  | ["N"; l; p] -> RNode (n_of_dec l, n_of_dec p)
  | ["V"; u; e; ver; v] -> RVal { vs_user = n_of_dec u; vs_epoch = n_of_dec e; vs_version = n_of_dec ver; vs_value = n_of_dec v }
  | _ -> failwith "rec"
let parse_key s = match split_colon s with
  | ["A"] -> KAzks
  | ["N"; l] -> KNode (n_of_dec l)
  | ["V"; u; e] -> KVal (n_of_dec u, n_of_dec e)
  | _ -> failwith "key"
let parse_flag s = match split_colon s with
  | ["sv"; v] -> SpecificVersion (n_of_dec v)
  | ["se"; e] -> SpecificEpoch (n_of_dec e)
  | ["le"; e] -> LeqEpoch (n_of_dec e)
  | ["max"] -> MaxEpoch
  | _ -> MinEpoch
let fmt_vs v = Printf.sprintf "V:%s:%s:%s:%s" (dec_of_n v.vs_user) (dec_of_n v.vs_epoch) (dec_of_n v.vs_version) (dec_of_n v.vs_value)
let fmt_rec = function
  | RAzks (e, n) -> Printf.sprintf "A:%s:%s" (dec_of_n e) (dec_of_n n)
  | RNode (l, p) -> Printf.sprintf "N:%s:%s" (dec_of_n l) (dec_of_n p)
  | RVal v -> fmt_vs v
let fmt_err = function ENotFound -> "err N" | ETransaction -> "err T" | EOther -> "err O"
let sorted_strs l = "[" ^ String.concat "," (List.sort compare l) ^ "]"
let with_ops (before : mstate) (a : string) : string =
  if !count_ops then Printf.sprintf "%s ops=%d" a (int_of_n (!mst).m_ops - int_of_n before.m_ops) else a
let bool_of s = (s = "1")

(* ---- directory layer ---- *)
let hb_of s = if s = "-" then [] else bytes_of_hex s
let fmt_hb b = if b = [] then "-" else hex_of_bytes b
let dir_cfg = ref cfg_w
let dir_ck : n list ref = ref []
let dir_pk : n list ref = ref []
let dst : dstate ref = ref dir_new
(* VRF table: (label hex, fresh, version) -> (node label, proof bytes); and the reverse map used to
   model verification of honestly generated proofs: proof hex -> (alpha = H(label,f,v), output) *)
let vrf_tbl : (string * bool * string, nlabel * n list) Hashtbl.t = Hashtbl.create 4096
let vrf_rev : (string, n list * n list) Hashtbl.t = Hashtbl.create 4096
(* explicit verification outcomes supplied by the implementation's primitive for altered inputs *)
let vchk_tbl : (string * string * string, n list option) Hashtbl.t = Hashtbl.create 1024
let missing_vrf = ref false
let vrf_label_f (l : n list) (f : bool) (v : n) : nlabel option =
  match Hashtbl.find_opt vrf_tbl (fmt_hb l, f, dec_of_n v) with Some (nl, _) -> Some nl | None -> missing_vrf := true; None
let vrf_proof_f (l : n list) (f : bool) (v : n) : n list option =
  match Hashtbl.find_opt vrf_tbl (fmt_hb l, f, dec_of_n v) with Some (_, p) -> Some p | None -> missing_vrf := true; None
let vrf_check_f (pk : n list) (proof : n list) (alpha : n list) : n list option =
  match Hashtbl.find_opt vchk_tbl (hex_of_bytes pk, hex_of_bytes proof, hex_of_bytes alpha) with
  | Some r -> r
  | None ->
    (match Hashtbl.find_opt vrf_rev (hex_of_bytes proof) with
     | Some (a, out) -> if a = alpha && pk = !dir_pk then Some out else None
     | None -> None)

let ser_lookup p =
  String.concat " " [dec_of_n p.lp_epoch; fmt_hb p.lp_value; dec_of_n p.lp_version; fmt_hb p.lp_existence_vrf; ser_mp p.lp_existence;
                     fmt_hb p.lp_marker_vrf; ser_mp p.lp_marker; fmt_hb p.lp_freshness_vrf; ser_nmp p.lp_freshness; fmt_hb p.lp_nonce]
let next_lookup c =
  let e = n_of_dec (next c) in let v = hb_of (next c) in let ver = n_of_dec (next c) in
  let ev = hb_of (next c) in let em = next_mp c in let mv = hb_of (next c) in let mm = next_mp c in
  let fv = hb_of (next c) in let fm = next_nmp c in let nonce = hb_of (next c) in
  { lp_epoch = e; lp_value = v; lp_version = ver; lp_existence_vrf = ev; lp_existence = em; lp_marker_vrf = mv; lp_marker = mm;
    lp_freshness_vrf = fv; lp_freshness = fm; lp_nonce = nonce }
let ser_update u =
  let prev = match u.up_prev_vrf, u.up_prev with
    | Some v, Some m -> "P " ^ fmt_hb v ^ " " ^ ser_mp m
    | None, None -> "N"
    | Some v, None -> "V " ^ fmt_hb v
    | None, Some m -> "M " ^ ser_mp m in
  String.concat " " [dec_of_n u.up_epoch; dec_of_n u.up_version; fmt_hb u.up_value; fmt_hb u.up_existence_vrf; ser_mp u.up_existence; prev; fmt_hb u.up_nonce]
let next_update c =
  let e = n_of_dec (next c) in let ver = n_of_dec (next c) in let v = hb_of (next c) in let ev = hb_of (next c) in let em = next_mp c in
  let (pv, pm) = (match next c with
      | "P" -> let v = hb_of (next c) in let m = next_mp c in (Some v, Some m)
      | "N" -> (None, None)
      | "V" -> let v = hb_of (next c) in (Some v, None)
      | _ -> let m = next_mp c in (None, Some m)) in
  let nonce = hb_of (next c) in
  { up_epoch = e; up_version = ver; up_value = v; up_existence_vrf = ev; up_existence = em; up_prev_vrf = pv; up_prev = pm; up_nonce = nonce }
let ser_list f l = String.concat " " (string_of_int (List.length l) :: List.map f l)
let ser_history p =
  String.concat " " [ser_list ser_update p.hp_updates; ser_list fmt_hb p.hp_past_vrf; ser_list ser_mp p.hp_past;
                     ser_list fmt_hb p.hp_future_vrf; ser_list ser_nmp p.hp_future]
let next_list c f = let k = int_of_string (next c) in List.init k (fun _ -> f c)
let next_history c =
  let ups = next_list c next_update in let pv = next_list c (fun c -> hb_of (next c)) in let pm = next_list c next_mp in
  let fv = next_list c (fun c -> hb_of (next c)) in let fm = next_list c next_nmp in
  { hp_updates = ups; hp_past_vrf = pv; hp_past = pm; hp_future_vrf = fv; hp_future = fm }
let fmt_velems es = String.concat " " (string_of_int (List.length es) :: List.map (fun e -> Printf.sprintf "%s %s" (fmt_label e.e_label) (hex_of_bytes e.e_value)) es)
let sort_velems es = List.sort (fun a b -> let c = cmp_int (nl_cmp a.e_label b.e_label) in if c <> 0 then c else compare (hex_of_bytes a.e_value) (hex_of_bytes b.e_value)) es
let ser_audit p =
  String.concat " " ([string_of_int (List.length p.ap_proofs)] @
                     List.map (fun (ins, unch) -> fmt_velems (sort_velems ins) ^ " " ^ fmt_velems (sort_velems unch)) p.ap_proofs @
                     [ser_list dec_of_n p.ap_epochs])
let next_audit c =
  let proofs = next_list c (fun c -> let ins = next_velems c in let unch = next_velems c in (ins, unch)) in
  let eps = next_list c (fun c -> n_of_dec (next c)) in
  { ap_proofs = proofs; ap_epochs = eps }
let ser_audit_raw p =
  String.concat " " ([string_of_int (List.length p.ap_proofs)] @
                     List.map (fun (ins, unch) -> fmt_velems ins ^ " " ^ fmt_velems unch) p.ap_proofs @
                     [ser_list dec_of_n p.ap_epochs])
let pres_str r f = match r with POk a -> "ok " ^ f a | PReject -> "err" | POutside -> "OUTSIDE"
let parse_hparams s = if s = "c" then HComplete else HMostRecent (n_of_dec (String.sub s 1 (String.length s - 1)))
let fmt_res r = Printf.sprintf "%s %s %s" (dec_of_n r.r_epoch) (dec_of_n r.r_version) (fmt_hb r.r_value)
let ser_state (st : dstate) =
  let sts = List.sort (fun a b -> let c = compare (hex_of_bytes a.vr_user) (hex_of_bytes b.vr_user) in
                         if c <> 0 then c else compare (int_of_n a.vr_epoch) (int_of_n b.vr_epoch)) st.d_states in
  (* usernames are compared as byte strings by the harness: hex of equal-length prefixes orders the same way *)
  Printf.sprintf "%s %s %s|%s" (dec_of_n st.d_epoch) (dec_of_n st.d_num) (String.trim (ser_tree !dir_cfg true st.d_tree))
    (String.concat "" (List.map (fun s -> Printf.sprintf " %s:%s:%s:%s:%s" (fmt_hb s.vr_user) (dec_of_n s.vr_epoch) (dec_of_n s.vr_version)
                                   (fmt_hb s.vr_value) (hex_of_bytes s.vr_label.lval ^ "/" ^ dec_of_n s.vr_label.llen)) sts))
let rec bits_of_bytes (bs : n list) : bool list =
  List.concat_map (fun b -> let x = int_of_n b in List.init 8 (fun i -> (x lsr (7 - i)) land 1 = 1)) bs
(* audit verification as the code does it now; flipped by --no-prefix-free-check *)
let pf_check = ref true

(* ---- store level ---- *)
let parse_olabel s = if s = "-" then None else
    (match String.split_on_char '/' s with [h; l] -> Some (label h l) | _ -> failwith "olabel")
let next_snode c =
  let le = n_of_dec (next c) in let mde = n_of_dec (next c) in let ty = next c in
  let l = parse_olabel (next c) in let r = parse_olabel (next c) in let h = next_bytes c in
  { sn_le = le; sn_mde = mde; sn_leaf = (ty = "L"); sn_left = l; sn_right = r; sn_hash = h }
let next_srec c =
  let lab = next_label c in let latest = next_snode c in
  let prev = (match next c with "P" -> Some (next_snode c) | _ -> None) in
  { sr_label = lab; sr_latest = latest; sr_prev = prev }
let next_srecs c = let k = int_of_string (next c) in List.init k (fun _ -> next_srec c)
(* prints the stored fields of the nodes the model's version selection hands out *)
let rec ser_view get e l is_root =
  match node_at get l e with
  | SNotFound -> "- "
  | SOther -> "ERR "
  | SOk n ->
    if n.sn_leaf then Printf.sprintf "L %s %s %s " (fmt_label l) (hex_of_bytes n.sn_hash) (dec_of_n n.sn_le)
    else
      let sub = function None -> "- " | Some cl -> ser_view get e cl false in
      Printf.sprintf "%s %s %s %s %s %s%s" (if is_root then "R" else "I") (fmt_label l) (dec_of_n n.sn_le) (dec_of_n n.sn_mde)
        (hex_of_bytes n.sn_hash) (sub n.sn_left) (sub n.sn_right)
let contains_sub s sub =
  let n = String.length s and m = String.length sub in
  let rec go i = i + m <= n && (String.sub s i m = sub || go (i + 1)) in go 0

let answer (c : cur) : string =
  match next c with
  | "is_prefix" -> let a = next_label c in let b = next_label c in if is_prefix_of a b then "1" else "0"
  | "get_prefix" -> let a = next_label c in let k = n_of_int (int_of_string (next c)) in fmt_label (get_prefix a k)
  | "lcp" -> let e = cfg_empty (next c) in let a = next_label c in let b = next_label c in
    fmt_label (get_longest_common_prefix e a b)
  | "pord" -> let a = next_label c in let b = next_label c in
    (match get_prefix_ordering a b with Some false -> "Z" | Some true -> "O" | None -> "I")
  | "cmp" -> let a = next_label c in let b = next_label c in
    (match nl_cmp a b with Lt -> "L" | Eq -> "E" | Gt -> "G")
  | "set_from" -> let es = next_elems c in
    (match eset_from es with
     | BinarySearchable l -> "1 " ^ fmt_elems (sort_canon l)
     | Unsorted l -> "0 " ^ fmt_elems (sort_canon l))
  | "set_lcp" -> let e = cfg_empty (next c) in let bs = next c in let es = next_elems c in
    fmt_label (eset_lcp e (mk_set bs es))
  | "set_part" -> let bs = next c in let es = next_elems c in let p = next_label c in
    let (l, r) = eset_partition (mk_set bs es) p in
    fmt_elems (sort_canon (set_list l)) ^ " " ^ fmt_elems (sort_canon (set_list r))
  | "set_cp" -> let bs = next c in let es = next_elems c in let p = next_label c in
    if eset_contains_prefix (mk_set bs es) p then "1" else "0"
  | "markers" -> let s = n_of_dec (next c) in let n = n_of_dec (next c) in let e = n_of_dec (next c) in
    (match get_marker_versions s n e with
     | None -> "PANIC"
     | Some (p, f) -> fmt_nlist p ^ " " ^ fmt_nlist f)
  | "kf_K1" -> let e = n_of_dec (next c) in let n = n_of_dec (next c) in let m = n_of_dec (next c) in
    if k1_class e n m then "1" else "0"
  | "ins" -> let cfg = cfg_of (next c) in let _mode = next c in let nb = int_of_string (next c) in
    let rec go st i = if i = 0 then Some st else
        let es = next_velems c in
        (match batch_insert cfg.c_empty_label st es with None -> None | Some st' -> go st' (i - 1)) in
    (match go azks_new nb with
     | None -> "ERR"
     | Some (((t, ep), num) as st) ->
       cur_tree := (cfg, st);
       String.trim (Printf.sprintf "%s %s %s %s" (hex_of_bytes (root_hash cfg true t)) (dec_of_n ep) (dec_of_n num) (ser_tree cfg true t)))
  | "gmp" -> let x = next_label c in let (cfg, ((t, _), _)) = !cur_tree in ser_mp (get_membership_proof cfg t x)
  | "gnmp" -> let x = next_label c in let (cfg, ((t, _), _)) = !cur_tree in ser_nmp (get_non_membership_proof cfg t x)
  | "vmp" -> let cfg = cfg_of (next c) in let root = next_bytes c in let p = next_mp c in
    if verify_membership cfg root p then "1" else "0"
  | "vnmp" -> let cfg = cfg_of (next c) in let root = next_bytes c in let p = next_nmp c in
    if verify_nonmembership_gen cfg !child_check root p then "1" else "0"
  | "mgr" -> let cached = bool_of (next c) in count_ops := cached; mst := init_state cached; "ok"
  | "begin" -> let b = !mst in let (s, r) = begin_transaction b in mst := s; with_ops b (if r then "1" else "0")
  | "active" -> let b = !mst in with_ops b (if b.m_active then "1" else "0")
  | "flush" -> let b = !mst in mst := flush b; with_ops b "ok"
  | "commit" -> let f = bool_of (next c) in let b = !mst in let (s, r) = commit_transaction b f in mst := s;
    with_ops b (match r with Ok n -> "ok " ^ dec_of_n n | Err e -> fmt_err e)
  | "rollback" -> let b = !mst in let (s, r) = rollback_transaction b in mst := s;
    with_ops b (match r with Ok _ -> "ok" | Err e -> fmt_err e)
  | "set" -> let r = parse_rec (next c) in let f = bool_of (next c) in let b = !mst in
    let (s, res) = set_record b r f in mst := s; with_ops b (match res with Ok _ -> "ok" | Err e -> fmt_err e)
  | "bset" -> let k = int_of_string (next c) in let rs = List.init k (fun _ -> parse_rec (next c)) in let f = bool_of (next c) in
    let b = !mst in let (s, res) = batch_set b rs f in mst := s; with_ops b (match res with Ok _ -> "ok" | Err e -> fmt_err e)
  | "get" -> let k = parse_key (next c) in let f = bool_of (next c) in let b = !mst in
    let (s, res) = get_record b k f in mst := s; with_ops b (match res with Ok r -> fmt_rec r | Err e -> fmt_err e)
  | "getc" -> let k = parse_key (next c) in let f = bool_of (next c) in let b = !mst in
    let (s, res) = get_committed b k f in mst := s; with_ops b (match res with Ok r -> fmt_rec r | Err e -> fmt_err e)
  | "bget" -> let k = int_of_string (next c) in let ks = List.init k (fun _ -> parse_key (next c)) in let f = bool_of (next c) in
    let b = !mst in let (s, res) = batch_get b ks f in mst := s;
    with_ops b (match res with Ok rs -> sorted_strs (List.map fmt_rec rs) | Err e -> fmt_err e)
  | "ustate" -> let u = n_of_dec (next c) in let fl = parse_flag (next c) in let f = bool_of (next c) in let b = !mst in
    let (s, res) = get_user_state b u fl f in mst := s; with_ops b (match res with Ok v -> fmt_vs v | Err e -> fmt_err e)
  | "udata" -> let u = n_of_dec (next c) in let f = bool_of (next c) in let b = !mst in
    let (s, res) = get_user_data b u f in mst := s;
    with_ops b (match res with Ok vs -> sorted_strs (List.map fmt_vs vs) | Err e -> fmt_err e)
  | "uvers" -> let k = int_of_string (next c) in let us = List.init k (fun _ -> n_of_dec (next c)) in
    let fl = parse_flag (next c) in let f = bool_of (next c) in let b = !mst in
    (* the code collects the answers in a map keyed by user *)
    let rec dedup = function [] -> [] | x :: r -> if List.mem x r then dedup r else x :: dedup r in
    let (s, res) = get_user_state_versions b (dedup us) fl f in mst := s;
    with_ops b (match res with
        | Ok l -> sorted_strs (List.map (fun (u, (ver, v)) -> Printf.sprintf "%s:%s:%s" (dec_of_n u) (dec_of_n ver) (dec_of_n v)) l)
        | Err e -> fmt_err e)
  | "tomb" -> let u = n_of_dec (next c) in let e = n_of_dec (next c) in let fr = bool_of (next c) in let fw = bool_of (next c) in
    let b = !mst in let (s, res) = tombstone b u e fr fw in mst := s; with_ops b (match res with Ok _ -> "ok" | Err e -> fmt_err e)
  | "dump" -> sorted_strs (List.map (fun (_, r) -> fmt_rec r) (!mst).m_db)
  | "dir" -> let cfg = cfg_of (next c) in dir_cfg := cfg; dir_ck := next_bytes c; dir_pk := next_bytes c; dst := dir_new;
    Hashtbl.reset vrf_tbl; Hashtbl.reset vrf_rev; Hashtbl.reset vchk_tbl; "ok"
  | "vrf" -> let l = next c in let f = bool_of (next c) in let v = next c in
    let _eq = next c in let nlh = next c in let ph = next c in
    let nl = { lval = bytes_of_hex nlh; llen = n_of_int 256 } in
    Hashtbl.replace vrf_tbl (l, f, v) (nl, bytes_of_hex ph);
    Hashtbl.replace vrf_rev ph (label_input_hash !dir_cfg (hb_of l) f (n_of_dec v), bytes_of_hex nlh);
    nlh ^ " " ^ ph
  | "vchk" -> let pkh = next c in let ph = next c in let ah = next c in let _eq = next c in let r = next c in
    Hashtbl.replace vchk_tbl (pkh, ph, ah) (if r = "ERR" then None else Some (bytes_of_hex r)); r
  | "pub" -> let k = int_of_string (next c) in
    let upds = List.init k (fun _ -> let l = hb_of (next c) in let v = hb_of (next c) in (l, v)) in
    missing_vrf := false;
    let (st, r) = publish !dir_cfg !dir_ck vrf_label_f !dst upds in dst := st;
    (match r with
     | DOk (e, h) -> Printf.sprintf "ok %s %s" (dec_of_n e) (hex_of_bytes h)
     | DErrDuplicate -> "err D"
     | DMissingVrf -> "MISSING-VRF"
     | _ -> "err O")
  | "dtomb" -> let l = hb_of (next c) in let cut = n_of_dec (next c) in dst := d_tombstone !dst l cut; "ok"
  | "state" -> ser_state !dst
  | "specroot" -> let cfg = cfg_of (next c) in let k = int_of_string (next c) in
    let ls = List.init k (fun _ -> let l = next_bytes c in let v = next_bytes c in let e = n_of_dec (next c) in
                           { sl_bits = bits_of_bytes l; sl_value = v; sl_epoch = e }) in
    hex_of_bytes (spec_root_hash cfg ls)
  | "lookup" -> let l = hb_of (next c) in
    (match lookup !dir_cfg !dir_ck vrf_label_f vrf_proof_f !dst l with
     | DOk (p, (e, h)) -> Printf.sprintf "ok %s %s %s" (dec_of_n e) (hex_of_bytes h) (ser_lookup p)
     | DMissingVrf -> "MISSING-VRF"
     | _ -> "err")
  | "vlookup" -> let cfg = cfg_of (next c) in let pk = next_bytes c in let root = next_bytes c in let e = n_of_dec (next c) in
    let l = hb_of (next c) in let p = next_lookup c in
    (match lookup_verify cfg vrf_check_f pk root e l p with Some r -> "ok " ^ fmt_res r | None -> "err")
  | "hist" -> let l = hb_of (next c) in let hp = parse_hparams (next c) in
    (match key_history !dir_cfg !dir_ck vrf_label_f vrf_proof_f !dst l hp with
     | DOk (p, (e, h)) -> Printf.sprintf "ok %s %s %s" (dec_of_n e) (hex_of_bytes h) (ser_history p)
     | DMissingVrf -> "MISSING-VRF"
     | _ -> "err")
  | "vhist" -> let cfg = cfg_of (next c) in let pk = next_bytes c in let root = next_bytes c in let e = n_of_dec (next c) in
    let l = hb_of (next c) in let hp = parse_hparams (next c) in let allow = bool_of (next c) in let p = next_history c in
    (match key_history_verify cfg vrf_check_f pk root e l p hp allow with
     | Some rs -> String.concat " " ("ok" :: string_of_int (List.length rs) :: List.map fmt_res rs)
     | None -> "err")
  | "audit" -> let s0 = n_of_dec (next c) in let e0 = n_of_dec (next c) in
    (match audit !dir_cfg !dst s0 e0 with DOk p -> "ok " ^ ser_audit p | _ -> "err")
  | "vaudit" -> let cfg = cfg_of (next c) in let k = int_of_string (next c) in let hs = List.init k (fun _ -> next_bytes c) in
    let p = next_audit c in if audit_verify_gen cfg !pf_check hs p then "1" else "0"
  | "cshape" -> let e = n_of_dec (next c) in let base = next_srecs c in let batch = next_srecs c in
    let get = of_list base in if List.for_all (fun r -> commit_shape get e r) batch then "1" else "0"
  | "viewtree" -> let e = n_of_dec (next c) in let recs = next_srecs c in
    let get = of_list recs in
    let root = { lval = List.init 32 (fun _ -> N0); llen = N0 } in
    let s = ser_view get e root true in
    let verr = (match view (nat_of_int 300) get e root with VErr -> true | VTree _ -> false) in
    if contains_sub s "ERR" || verr then (if contains_sub s "ERR" && verr then "ERR" else "ERR-MISMATCH") else String.trim s
  | "c12" -> let nt = int_of_string (next c) in let e0 = n_of_dec (next c) in let sch = next c in
    let sched = List.init (String.length sch) (fun i -> nat_of_int (Char.code sch.[i] - 48)) in
    (* all tasks reach the mutex in spawn order before the schedule starts *)
    let pre = List.init nt nat_of_int in
    let s = Model.run true e0 (pre @ sched @ List.concat (List.init 8 (fun _ -> pre))) in
    String.concat " " (List.map dec_of_n (Model.results s (nat_of_int nt)))
  | "proto" | "protoc" -> let d = nat_of_int (int_of_string (next c)) in
    let rs = (let s = next c in if s = "-" then [] else List.init (String.length s) (fun i -> s.[i] = '1')) in
    let ws = (let s = next c in if s = "-" then [] else List.map (fun x -> nat_of_int (int_of_string x)) (String.split_on_char ',' s)) in
    let tasks = List.map (fun t -> List.map (fun o -> let k = nat_of_int (int_of_string (String.sub o 1 (String.length o - 1))) in
                                                   if o.[0] = 'r' then OpR k else OpW k) (String.split_on_char ',' t))
                  (String.split_on_char '|' (next c)) in
    let sch = next c in
    let sched = List.init (String.length sch) (fun i -> nat_of_int (Char.code sch.[i] - 48)) in
    let (s, _) = trun TicketLocked d rs ws tasks sched in
    Printf.sprintf "%d %s [%s]" (int_of_nat s.p_db) (match s.p_cache with Some v -> string_of_int (int_of_nat v) | None -> "-")
      (String.concat "," (List.map (function Some v -> string_of_int (int_of_nat v) | None -> "?") (returned s)))
  | "rebuild" -> let cfg = cfg_of (next c) in let le = n_of_dec (next c) in let es = next_velems c in
    (match rebuild_root cfg es le with Some h -> hex_of_bytes h | None -> "ERR")
  | "vaudit1" -> let cfg = cfg_of (next c) in let h1 = next_bytes c in let h2 = next_bytes c in let ep = n_of_dec (next c) in
    let ins = next_velems c in let unch = next_velems c in
    if verify_consecutive cfg !pf_check (ins, unch) h1 h2 ep then "1" else "0"
  | "wire_lookup" -> let p = next_lookup c in hex_of_bytes (enc_lookup p)
  | "wire_history" -> let p = next_history c in hex_of_bytes (enc_history p)
  | "wire_audit" -> let p = next_audit c in hex_of_bytes (enc_audit p)
  | "wire_single" -> let ins = next_velems c in let unch = next_velems c in fmt_hb (enc_single (ins, unch))
  | "wdec_lookup" -> pres_str (dec_lookup (hb_of (next c))) ser_lookup
  | "wdec_history" -> pres_str (dec_history (hb_of (next c))) ser_history
  | "wdec_audit" -> pres_str (dec_audit (hb_of (next c))) ser_audit_raw
  | "wdec_single" -> pres_str (dec_single (hb_of (next c))) (fun (i, u) -> fmt_velems i ^ " " ^ fmt_velems u)
  | "wdec_label" -> pres_str (dec_label (hb_of (next c))) fmt_label
  | "wdec_elem" -> pres_str (dec_elem (hb_of (next c))) (fun e -> fmt_label e.e_label ^ " " ^ hex_of_bytes e.e_value)
  | "wdec_sib" -> pres_str (dec_sib (hb_of (next c)))
                    (fun s -> Printf.sprintf "%s %s %s %d" (fmt_label s.sp_label) (fmt_label s.sp_sib_label) (hex_of_bytes s.sp_sib_val) (if s.sp_dir then 1 else 0))
  | "blobname" -> let e = n_of_dec (next c) in let p = next_bytes c in let q = next_bytes c in
    String.concat "" (List.map (fun x -> String.make 1 (Char.chr (int_of_n x))) (blob_name e p q))
  | "blobparse" -> pres_str (parse_blob_name (hb_of (next c)))
                     (fun ((e, p), q) -> Printf.sprintf "%s %s %s" (dec_of_n e) (hex_of_bytes p) (hex_of_bytes q))
  | "vrfinput" -> let cfg = cfg_of (next c) in let l = hb_of (next c) in let f = bool_of (next c) in let v = n_of_dec (next c) in
    hex_of_bytes (label_input_hash cfg l f v)
  | "freshval" -> let cfg = cfg_of (next c) in let ck = next_bytes c in let nl = { lval = next_bytes c; llen = n_of_int 256 } in
    let v = n_of_dec (next c) in let value = hb_of (next c) in hex_of_bytes (fresh_value cfg ck nl v value)
  | _ -> "?"

let () =
  if Array.exists (fun a -> a = "--no-prefix-free-check") Sys.argv then pf_check := false;
  if Array.length Sys.argv > 1 && Sys.argv.(1) = "--no-child-check" then child_check := false;
  try
    while true do
      let line = input_line stdin in
      match String.index_opt line '=' with
      | None -> ()
      | Some _ ->
        (* split at " = " (first occurrence) *)
        let rec find i = if i + 2 >= String.length line then -1
          else if line.[i] = ' ' && line.[i+1] = '=' && line.[i+2] = ' ' then i else find (i + 1) in
        let k = find 0 in
        if k < 0 then () else begin
          let q = String.sub line 0 k in
          (* table lines (vrf, vchk) carry environment data in their answer part *)
          let is_table = String.length q > 3 && (String.sub q 0 4 = "vrf " || (String.length q > 4 && String.sub q 0 5 = "vchk ")) in
          let toks = Array.of_list (String.split_on_char ' ' (if is_table then line else q)) in
          let a = (try answer { toks; i = 0 } with _ -> "EXN") in
          print_string q; print_string " = "; print_endline a
        end
    done
  with End_of_file -> ()
