(* Correspondence driver: reads the harness trace on stdin ("query = answer" per line), recomputes
   every answer with the extracted Coq model and prints "query = model-answer".  Lines it does not
   know are copied with the answer "?" so that the diff flags them. *)
open Model

let rec pos_of_int (i : int) : positive =
  if i = 1 then XH else if i land 1 = 1 then XI (pos_of_int (i lsr 1)) else XO (pos_of_int (i lsr 1))
let n_of_int (i : int) : n = if i = 0 then N0 else Npos (pos_of_int i)
let rec int_of_pos = function XH -> 1 | XO p -> 2 * int_of_pos p | XI p -> 2 * int_of_pos p + 1
let int_of_n = function N0 -> 0 | Npos p -> int_of_pos p
let rec nat_of_int (i : int) : nat = if i = 0 then O else S (nat_of_int (i - 1))
let rec int_of_nat = function O -> 0 | S k -> 1 + int_of_nat k

(* u64 as decimal string -> n *)
let n_of_dec (s : string) : n =
  (* build via Z-free repeated doubling on int64-unsafe range: use arbitrary precision by hand *)
  let digits = List.init (String.length s) (fun i -> Char.code s.[i] - 48) in
  (* convert decimal digit list to binary (list of bits, lsb first) *)
  let rec div2 ds carry acc = match ds with
    | [] -> (List.rev acc, carry)
    | d :: r -> let v = carry * 10 + d in div2 r (v mod 2) ((v / 2) :: acc) in
  let rec strip = function 0 :: r -> strip r | l -> l in
  let rec bits ds = match strip ds with
    | [] -> []
    | ds -> let (q, r) = div2 ds 0 [] in r :: bits q in
  let bs = bits digits in
  let rec mk = function
    | [] -> None
    | b :: r -> (match mk r with
        | None -> if b = 1 then Some XH else None
        | Some p -> Some (if b = 1 then XI p else XO p)) in
  match mk bs with None -> N0 | Some p -> Npos p

let dec_of_n (x : n) : string =
  (* n -> decimal string; values < 2^64 may exceed OCaml int, so do it on digit lists *)
  let rec bits_of_pos = function XH -> [1] | XO p -> 0 :: bits_of_pos p | XI p -> 1 :: bits_of_pos p in
  match x with
  | N0 -> "0"
  | Npos p ->
    let bs = List.rev (bits_of_pos p) in (* msb first *)
    let dbl_add ds b = (* ds: decimal digits lsb first *)
      let rec go ds carry = match ds with
        | [] -> if carry = 0 then [] else [carry]
        | d :: r -> let v = 2 * d + carry in (v mod 10) :: go r (v / 10) in
      go ds b in
    let ds = List.fold_left dbl_add [] bs in
    String.concat "" (List.rev_map string_of_int ds)

let bytes_of_hex (s : string) : n list =
  List.init (String.length s / 2) (fun i -> n_of_int (int_of_string ("0x" ^ String.sub s (2 * i) 2)))
let hex_of_bytes (l : n list) : string =
  String.concat "" (List.map (fun b -> Printf.sprintf "%02x" (int_of_n b)) l)

let label hexs lens = { lval = bytes_of_hex hexs; llen = n_of_int (int_of_string lens) }
let fmt_label l = Printf.sprintf "%s %d" (hex_of_bytes l.lval) (int_of_n l.llen)
let cfg_empty = function "w" -> empty_label_whatsapp | _ -> empty_label_experimental

let fmt_nlist l = "[" ^ String.concat "," (List.map dec_of_n l) ^ "]"

(* token cursor *)
type cur = { toks : string array; mutable i : int }
let next c = let t = c.toks.(c.i) in c.i <- c.i + 1; t
let next_label c = let h = next c in let l = next c in label h l
let next_elems c =
  let k = int_of_string (next c) in
  List.init k (fun _ -> let l = next_label c in let v = int_of_string (next c) in { e_label = l; e_value = [n_of_int v] })
let fmt_elems es =
  String.concat " " (string_of_int (List.length es) ::
    List.map (fun e -> Printf.sprintf "%s %d" (fmt_label e.e_label) (int_of_n (List.hd e.e_value))) es)
let cmp_int c = match c with Lt -> -1 | Eq -> 0 | Gt -> 1
let sort_canon es =
  List.sort (fun a b ->
      let c = cmp_int (nl_cmp a.e_label b.e_label) in
      if c <> 0 then c else compare (int_of_n (List.hd a.e_value)) (int_of_n (List.hd b.e_value))) es
let mk_set bs es = if bs = "1" then BinarySearchable es else Unsorted es
let set_list = function BinarySearchable l -> l | Unsorted l -> l

let answer (c : cur) : string =
  match next c with
  | "is_prefix" -> let a = next_label c in let b = next_label c in if is_prefix_of a b then "1" else "0"
  | "get_prefix" -> let a = next_label c in let k = n_of_int (int_of_string (next c)) in fmt_label (get_prefix a k)
  | "lcp" -> let e = cfg_empty (next c) in let a = next_label c in let b = next_label c in
    fmt_label (get_longest_common_prefix e a b)
  | "pord" -> let a = next_label c in let b = next_label c in
    (match get_prefix_ordering a b with Some false -> "Z" | Some true -> "O" | None -> "I")
  | "cmp" -> let a = next_label c in let b = next_label c in
    (match nl_cmp a b with Lt -> "L" | Eq -> "E" | Gt -> "G")
  | "set_from" -> let es = next_elems c in
    (match eset_from es with
     | BinarySearchable l -> "1 " ^ fmt_elems (sort_canon l)
     | Unsorted l -> "0 " ^ fmt_elems (sort_canon l))
  | "set_lcp" -> let e = cfg_empty (next c) in let bs = next c in let es = next_elems c in
    fmt_label (eset_lcp e (mk_set bs es))
  | "set_part" -> let bs = next c in let es = next_elems c in let p = next_label c in
    let (l, r) = eset_partition (mk_set bs es) p in
    fmt_elems (sort_canon (set_list l)) ^ " " ^ fmt_elems (sort_canon (set_list r))
  | "set_cp" -> let bs = next c in let es = next_elems c in let p = next_label c in
    if eset_contains_prefix (mk_set bs es) p then "1" else "0"
  | "markers" -> let s = n_of_dec (next c) in let n = n_of_dec (next c) in let e = n_of_dec (next c) in
    (match get_marker_versions s n e with
     | None -> "PANIC"
     | Some (p, f) -> fmt_nlist p ^ " " ^ fmt_nlist f)
  | "kf_K1" -> let e = n_of_dec (next c) in let n = n_of_dec (next c) in let m = n_of_dec (next c) in
    if k1_class e n m then "1" else "0"
  | _ -> "?"

let () =
  try
    while true do
      let line = input_line stdin in
      match String.index_opt line '=' with
      | None -> ()
      | Some _ ->
        (* split at " = " (first occurrence) *)
        let rec find i = if i + 2 >= String.length line then -1
          else if line.[i] = ' ' && line.[i+1] = '=' && line.[i+2] = ' ' then i else find (i + 1) in
        let k = find 0 in
        if k < 0 then () else begin
          let q = String.sub line 0 k in
          let toks = Array.of_list (String.split_on_char ' ' q) in
          let a = (try answer { toks; i = 0 } with _ -> "EXN") in
          print_string q; print_string " = "; print_endline a
        end
    done
  with End_of_file -> ()
