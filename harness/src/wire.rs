//! C19 (X-wire): every proof survives protobuf encoding; malformed input is rejected cleanly.
//! C18 (X-vrfenc): VRF input encoding, proof (de)serialisation, binding of node label to
//! (key, label, freshness, version).
use crate::dirs::*;
use crate::rng::Rng;
use crate::treeutil::*;
use akd::client::{key_history_verify, lookup_verify};
use akd::ecvrf::{HardCodedAkdVRF, VRFKeyStorage, VRFPublicKey};
use akd::local_auditing::{generate_audit_blobs, AuditBlob, AuditBlobName};
use akd::{AkdLabel, AkdValue, AppendOnlyProof, HistoryParams, HistoryProof, HistoryVerificationParams, LookupProof, VersionFreshness};
use akd_core::configuration::Configuration;
use akd_core::ecvrf::{Proof, VrfError};
use akd_core::proto::specs::types as pb;
use protobuf::Message;
use std::convert::TryFrom;
use std::fmt::Write as _;
use std::panic::{catch_unwind, AssertUnwindSafe};

fn hexs(b: &[u8]) -> String {
    if b.is_empty() { "-".into() } else { hex::encode(b) }
}

/// mutations of an encoded message
fn mutations(r: &mut Rng, bytes: &[u8]) -> Vec<(&'static str, Vec<u8>)> {
    let mut out: Vec<(&'static str, Vec<u8>)> = vec![];
    if bytes.is_empty() {
        return out;
    }
    for _ in 0..6 {
        let mut b = bytes.to_vec();
        let i = r.below(b.len() as u64) as usize;
        b[i] ^= 1 << r.below(8);
        out.push(("bit flip", b));
    }
    for _ in 0..4 {
        let k = r.below(bytes.len() as u64) as usize;
        out.push(("truncated", bytes[..k].to_vec()));
    }
    for _ in 0..3 {
        // delete a byte range (often removes a field or corrupts a length)
        let i = r.below(bytes.len() as u64) as usize;
        let k = 1 + r.below(12.min(bytes.len() - i) as u64) as usize;
        let mut b = bytes[..i].to_vec();
        b.extend_from_slice(&bytes[(i + k).min(bytes.len())..]);
        out.push(("range deleted", b));
    }
    for _ in 0..2 {
        let mut b = bytes.to_vec();
        let i = r.below(b.len() as u64) as usize;
        b.insert(i, r.next() as u8);
        out.push(("byte inserted", b));
    }
    let n = 1 + r.below(200) as usize;
    out.push(("random", r.bytes(n)));
    out.push(("empty", vec![]));
    let mut b = bytes.to_vec();
    b.extend_from_slice(bytes);
    out.push(("doubled", b));
    out
}

fn enc<M: Message>(m: &M) -> Vec<u8> {
    m.write_to_bytes().unwrap()
}
fn mp_mutations(tag: &'static str, get: &dyn Fn(&mut pb::LookupProof) -> &mut pb::MembershipProof, base: &pb::LookupProof, out: &mut Vec<(&'static str, Vec<u8>)>) {
    let mut apply = |f: &dyn Fn(&mut pb::MembershipProof)| {
        let mut m = base.clone();
        f(get(&mut m));
        out.push((tag, enc(&m)));
    };
    apply(&|p| p.label.clear());
    apply(&|p| p.hash_val = None);
    apply(&|p| p.hash_val = Some(vec![7; 31]));
    apply(&|p| p.hash_val = Some(vec![7; 33]));
    apply(&|p| p.hash_val = Some(vec![]));
    apply(&|p| p.label.mut_or_insert_default().label_len = Some(257));
    apply(&|p| p.label.mut_or_insert_default().label_len = Some(u32::MAX));
    apply(&|p| p.label.mut_or_insert_default().label_len = None);
    apply(&|p| p.label.mut_or_insert_default().label_val = None);
    apply(&|p| p.label.mut_or_insert_default().label_val = Some(vec![1; 33]));
    apply(&|p| p.label.mut_or_insert_default().label_val = Some(vec![]));
    apply(&|p| { let v = p.label.mut_or_insert_default().label_val.get_or_insert_with(Vec::new); v.push(0); });
    apply(&|p| { p.sibling_proofs.pop(); });
    apply(&|p| { if let Some(s) = p.sibling_proofs.first_mut() { s.direction = None; } });
    for d in [2u32, 15, 16, 17, 18, 255, 256, 257, u32::MAX] {
        apply(&|p| { if let Some(s) = p.sibling_proofs.first_mut() { s.direction = Some(d); } });
    }
    apply(&|p| { if let Some(s) = p.sibling_proofs.first_mut() { s.siblings.clear(); } });
    apply(&|p| { if let Some(s) = p.sibling_proofs.first_mut() { let e = s.siblings[0].clone(); s.siblings.push(e); } });
    apply(&|p| { if let Some(s) = p.sibling_proofs.first_mut() { let mut e = s.siblings[0].clone(); e.value = Some(vec![9; 32]); s.siblings.insert(0, e); } });
    apply(&|p| { if let Some(s) = p.sibling_proofs.first_mut() { s.label.clear(); } });
    apply(&|p| { if let Some(s) = p.sibling_proofs.last_mut() { s.siblings[0].value = Some(vec![1; 16]); } });
    apply(&|p| { if let Some(s) = p.sibling_proofs.last_mut() { s.siblings[0].label.clear(); } });
    apply(&|p| { if let Some(s) = p.sibling_proofs.last_mut() { s.siblings[0].value = None; } });
}
fn lookup_field_mutations(base: &pb::LookupProof) -> Vec<(&'static str, Vec<u8>)> {
    let mut out: Vec<(&'static str, Vec<u8>)> = vec![];
    let mut apply = |f: &dyn Fn(&mut pb::LookupProof)| {
        let mut m = base.clone();
        f(&mut m);
        out.push(("field-level altered", enc(&m)));
    };
    apply(&|m| m.epoch = None);
    apply(&|m| m.value = None);
    apply(&|m| m.version = None);
    apply(&|m| m.existence_vrf_proof = None);
    apply(&|m| m.existence_proof.clear());
    apply(&|m| m.marker_vrf_proof = None);
    apply(&|m| m.marker_proof.clear());
    apply(&|m| m.freshness_vrf_proof = None);
    apply(&|m| m.freshness_proof.clear());
    apply(&|m| m.commitment_nonce = None);
    apply(&|m| m.epoch = Some(u64::MAX));
    apply(&|m| m.version = Some(u64::MAX));
    apply(&|m| m.value = Some(vec![]));
    apply(&|m| m.freshness_proof.mut_or_insert_default().longest_prefix_children.clear());
    apply(&|m| { m.freshness_proof.mut_or_insert_default().longest_prefix_children.pop(); });
    apply(&|m| { let c = m.freshness_proof.mut_or_insert_default(); let e = c.longest_prefix_children[0].clone(); c.longest_prefix_children.push(e); });
    apply(&|m| m.freshness_proof.mut_or_insert_default().label.clear());
    apply(&|m| m.freshness_proof.mut_or_insert_default().longest_prefix.clear());
    apply(&|m| m.freshness_proof.mut_or_insert_default().longest_prefix_membership_proof.clear());
    apply(&|m| m.freshness_proof.mut_or_insert_default().longest_prefix_children[1].value = Some(vec![0; 5]));
    apply(&|m| m.freshness_proof.mut_or_insert_default().longest_prefix.mut_or_insert_default().label_len = Some(300));
    mp_mutations("field-level altered (existence)", &|m| m.existence_proof.mut_or_insert_default(), base, &mut out);
    mp_mutations("field-level altered (marker)", &|m| m.marker_proof.mut_or_insert_default(), base, &mut out);
    mp_mutations("field-level altered (freshness path)", &|m| m.freshness_proof.mut_or_insert_default().longest_prefix_membership_proof.mut_or_insert_default(), base, &mut out);
    out
}
fn history_field_mutations(base: &pb::HistoryProof) -> Vec<(&'static str, Vec<u8>)> {
    let mut out: Vec<(&'static str, Vec<u8>)> = vec![];
    let mut apply = |f: &dyn Fn(&mut pb::HistoryProof)| {
        let mut m = base.clone();
        f(&mut m);
        out.push(("field-level altered", enc(&m)));
    };
    apply(&|m| { m.update_proofs.pop(); });
    apply(&|m| m.update_proofs.clear());
    apply(&|m| { if let Some(u) = m.update_proofs.first_mut() { u.epoch = None; } });
    apply(&|m| { if let Some(u) = m.update_proofs.first_mut() { u.version = None; } });
    apply(&|m| { if let Some(u) = m.update_proofs.first_mut() { u.value = None; } });
    apply(&|m| { if let Some(u) = m.update_proofs.last_mut() { u.value = None; } });
    apply(&|m| { for u in m.update_proofs.iter_mut() { u.value = None; } });
    apply(&|m| { if let Some(u) = m.update_proofs.last_mut() { u.commitment_nonce = None; } });
    apply(&|m| { if let Some(u) = m.update_proofs.first_mut() { u.existence_vrf_proof = None; } });
    apply(&|m| { if let Some(u) = m.update_proofs.first_mut() { u.existence_proof.clear(); } });
    apply(&|m| { if let Some(u) = m.update_proofs.first_mut() { u.commitment_nonce = None; } });
    apply(&|m| { if let Some(u) = m.update_proofs.first_mut() { u.previous_version_vrf_proof = None; } });
    apply(&|m| { if let Some(u) = m.update_proofs.first_mut() { u.previous_version_proof.clear(); } });
    apply(&|m| { if let Some(u) = m.update_proofs.last_mut() { u.previous_version_vrf_proof = Some(vec![1; 80]); } });
    apply(&|m| { if let Some(u) = m.update_proofs.last_mut() { let e = u.existence_proof.clone(); u.previous_version_proof = e; } });
    apply(&|m| { if let Some(u) = m.update_proofs.first_mut() { u.version = Some(u64::MAX); } });
    apply(&|m| { if let Some(u) = m.update_proofs.first_mut() { u.epoch = Some(u64::MAX); } });
    apply(&|m| { if let Some(u) = m.update_proofs.first_mut() { u.existence_proof.mut_or_insert_default().hash_val = Some(vec![1; 31]); } });
    apply(&|m| { if let Some(u) = m.update_proofs.first_mut() { u.existence_proof.mut_or_insert_default().label.mut_or_insert_default().label_len = Some(257); } });
    apply(&|m| { m.past_marker_vrf_proofs.pop(); });
    apply(&|m| { m.existence_of_past_marker_proofs.pop(); });
    apply(&|m| { m.future_marker_vrf_proofs.pop(); });
    apply(&|m| { m.non_existence_of_future_marker_proofs.pop(); });
    apply(&|m| m.past_marker_vrf_proofs.push(vec![]));
    apply(&|m| { if let Some(p) = m.non_existence_of_future_marker_proofs.first_mut() { p.longest_prefix_children.pop(); } });
    apply(&|m| { if let Some(p) = m.non_existence_of_future_marker_proofs.first_mut() { p.longest_prefix.clear(); } });
    apply(&|m| { if let Some(p) = m.existence_of_past_marker_proofs.first_mut() { p.hash_val = None; } });
    out
}
fn audit_field_mutations(base: &pb::AppendOnlyProof) -> Vec<(&'static str, Vec<u8>)> {
    let mut out: Vec<(&'static str, Vec<u8>)> = vec![];
    let mut apply = |f: &dyn Fn(&mut pb::AppendOnlyProof)| {
        let mut m = base.clone();
        f(&mut m);
        out.push(("field-level altered", enc(&m)));
    };
    apply(&|m| { m.epochs.pop(); });
    apply(&|m| m.epochs.clear());
    apply(&|m| m.epochs.push(u64::MAX));
    apply(&|m| { m.proofs.pop(); });
    apply(&|m| m.proofs.clear());
    apply(&|m| { if let Some(p) = m.proofs.first_mut() { p.inserted.clear(); } });
    apply(&|m| { if let Some(p) = m.proofs.first_mut() { p.unchanged_nodes.clear(); } });
    apply(&|m| { if let Some(p) = m.proofs.first_mut() { if let Some(e) = p.inserted.first_mut() { e.value = Some(vec![1; 31]); } } });
    apply(&|m| { if let Some(p) = m.proofs.first_mut() { if let Some(e) = p.inserted.first_mut() { e.value = None; } } });
    apply(&|m| { if let Some(p) = m.proofs.first_mut() { if let Some(e) = p.inserted.first_mut() { e.label.clear(); } } });
    apply(&|m| { if let Some(p) = m.proofs.first_mut() { if let Some(e) = p.inserted.first_mut() { e.label.mut_or_insert_default().label_len = Some(257); } } });
    apply(&|m| { if let Some(p) = m.proofs.first_mut() { if let Some(e) = p.inserted.first_mut() { e.label.mut_or_insert_default().label_val = Some(vec![3; 40]); } } });
    apply(&|m| { if let Some(p) = m.proofs.last_mut() { if let Some(e) = p.unchanged_nodes.last_mut() { e.label.mut_or_insert_default().label_len = None; } } });
    apply(&|m| { if let Some(p) = m.proofs.last_mut() { let e = p.inserted.clone(); p.unchanged_nodes.extend(e); } });
    out
}

fn panic_msg(e: Box<dyn std::any::Any + Send>) -> String {
    e.downcast_ref::<String>().cloned().or_else(|| e.downcast_ref::<&str>().map(|s| s.to_string())).unwrap_or("?".into())
}

pub async fn wire_history<TC: Configuration>(cx: &mut Cx, r: &mut Rng, epochs: usize, nlabels: usize) {
    let cfg = cfg_name::<TC>();
    let db = Db::new();
    let dir = new_dir::<TC>(&db, false, false).await;
    let labels = label_universe(r, nlabels);
    let pk = HardCodedAkdVRF {}.get_vrf_public_key().await.unwrap().as_bytes().to_vec();
    let mut hashes = vec![dir.get_epoch_hash().await.unwrap().1];
    for e in 0..epochs {
        let mut b = vec![];
        for (i, l) in labels.iter().enumerate() {
            if i == 0 || r.chance(1, 2) {
                b.push((AkdLabel(l.clone()), AkdValue(gen_value(r))));
            }
        }
        if let Ok(eh) = dir.publish(b).await {
            if eh.0 as usize == hashes.len() {
                hashes.push(eh.1);
            }
        }
        let _ = e;
    }
    let epoch = hashes.len() as u64 - 1;
    for l in &labels {
        let al = AkdLabel(l.clone());
        // ---- lookup proofs
        if let Ok((p, eh)) = dir.lookup(al.clone()).await {
            let msg = pb::LookupProof::from(&p);
            let bytes = msg.write_to_bytes().unwrap();
            cx.emit(format!("wire_lookup {}", ser_lookup(&p)), hex::encode(&bytes));
            let back = pb::LookupProof::parse_from_bytes(&bytes).map_err(|e| e.to_string()).and_then(|m| LookupProof::try_from(&m).map_err(|e| e.to_string()));
            cx.note(format!("C19 lookup proof of {} bytes", bytes.len()));
            let orig = lookup_verify::<TC>(&pk, eh.1, eh.0, al.clone(), p.clone()).map(|x| (x.epoch, x.version, x.value.0));
            match back {
                Ok(q) => {
                    if q != p {
                        cx.fail(format!("C19 [cfg {}]: lookup proof changed by protobuf round trip", cfg));
                    }
                    let again = lookup_verify::<TC>(&pk, eh.1, eh.0, al.clone(), q).map(|x| (x.epoch, x.version, x.value.0));
                    if again.is_ok() != orig.is_ok() || again.as_ref().ok() != orig.as_ref().ok() {
                        cx.fail(format!("C19 [cfg {}]: verifying the decoded lookup proof gives another result", cfg));
                    }
                }
                Err(e) => cx.fail(format!("C19 [cfg {}]: lookup proof does not decode after encoding: {}", cfg, e)),
            }
            let mut muts = mutations(r, &bytes);
            muts.extend(lookup_field_mutations(&msg));
            muts.push(("honest", bytes.clone()));
            for (what, mb) in muts {
                cx.stat("malformed_lookup");
                let res = catch_unwind(AssertUnwindSafe(|| {
                    let m = pb::LookupProof::parse_from_bytes(&mb).map_err(|_| ())?;
                    LookupProof::try_from(&m).map_err(|_| ())
                }));
                match res {
                    Err(e) => cx.fail(format!("C19 [cfg {}]: PANIC decoding a {} lookup encoding ({}): {}", cfg, what, hexs(&mb[..mb.len().min(64)]), panic_msg(e))),
                    Ok(dec) => {
                        cx.emit(format!("wdec_lookup {}", hexs(&mb)), match &dec { Ok(q) => format!("ok {}", ser_lookup(q)), Err(()) => "err".into() });
                        if let Ok(q) = dec {
                            match catch_unwind(AssertUnwindSafe(|| lookup_verify::<TC>(&pk, eh.1, eh.0, al.clone(), q).map(|x| (x.epoch, x.version, x.value.0)).map_err(|_| ()))) {
                                Err(e) => cx.fail(format!("C19 [cfg {}]: PANIC verifying a decoded {} lookup encoding: {}", cfg, what, panic_msg(e))),
                                Ok(Ok(v)) => {
                                    if Some(&v) != orig.as_ref().ok() {
                                        cx.fail(format!("C19 [cfg {}]: a {} lookup encoding decodes to a proof verifying to another result {:?}", cfg, what, (v.0, v.1)));
                                    }
                                }
                                _ => {}
                            }
                        }
                    }
                }
            }
        }
        // ---- history proofs
        for hp in [HistoryParams::Complete, HistoryParams::MostRecent(2)] {
            if let Ok((p, eh)) = dir.key_history(&al, hp).await {
                let msg = pb::HistoryProof::from(&p);
                let bytes = msg.write_to_bytes().unwrap();
                cx.emit(format!("wire_history {}", ser_history(&p)), hex::encode(&bytes));
                cx.note(format!("C19 history proof of {} bytes", bytes.len()));
                let vp = HistoryVerificationParams::Default { history_params: hp };
                let orig = key_history_verify::<TC>(&pk, eh.1, eh.0, al.clone(), p.clone(), vp).map(|rs| rs.iter().map(|x| (x.epoch, x.version, x.value.0.clone())).collect::<Vec<_>>());
                let orig_missing = key_history_verify::<TC>(&pk, eh.1, eh.0, al.clone(), p.clone(), HistoryVerificationParams::AllowMissingValues { history_params: hp }).map(|rs| rs.iter().map(|x| (x.epoch, x.version, x.value.0.clone())).collect::<Vec<_>>());
                match pb::HistoryProof::parse_from_bytes(&bytes).map_err(|e| e.to_string()).and_then(|m| HistoryProof::try_from(&m).map_err(|e| e.to_string())) {
                    Ok(q) => {
                        if q != p {
                            cx.fail(format!("C19 [cfg {}]: history proof changed by protobuf round trip", cfg));
                        }
                        let again = key_history_verify::<TC>(&pk, eh.1, eh.0, al.clone(), q, vp).map(|rs| rs.iter().map(|x| (x.epoch, x.version, x.value.0.clone())).collect::<Vec<_>>());
                        if again.as_ref().ok() != orig.as_ref().ok() || again.is_ok() != orig.is_ok() {
                            cx.fail(format!("C19 [cfg {}]: verifying the decoded history proof gives another result", cfg));
                        }
                    }
                    Err(e) => cx.fail(format!("C19 [cfg {}]: history proof does not decode after encoding: {}", cfg, e)),
                }
                let mut muts = mutations(r, &bytes);
                muts.extend(history_field_mutations(&msg));
                muts.push(("honest", bytes.clone()));
                for (what, mb) in muts {
                    cx.stat("malformed_history");
                    let res = catch_unwind(AssertUnwindSafe(|| {
                        let m = pb::HistoryProof::parse_from_bytes(&mb).map_err(|_| ())?;
                        HistoryProof::try_from(&m).map_err(|_| ())
                    }));
                    match res {
                        Err(e) => cx.fail(format!("C19 [cfg {}]: PANIC decoding a {} history encoding: {}", cfg, what, panic_msg(e))),
                        Ok(dec) => {
                            cx.emit(format!("wdec_history {}", hexs(&mb)), match &dec { Ok(q) => format!("ok {}", ser_history(q)), Err(()) => "err".into() });
                            if let Ok(q) = dec {
                                // a client that tolerates tombstoned values must not be told another story either
                                let vpm = HistoryVerificationParams::AllowMissingValues { history_params: hp };
                                match catch_unwind(AssertUnwindSafe(|| key_history_verify::<TC>(&pk, eh.1, eh.0, al.clone(), q.clone(), vpm).map(|rs| rs.iter().map(|x| (x.epoch, x.version, x.value.0.clone())).collect::<Vec<_>>()).map_err(|_| ()))) {
                                    Err(e) => cx.fail(format!("C19 [cfg {}]: PANIC verifying (missing values allowed) a decoded {} history encoding: {}", cfg, what, panic_msg(e))),
                                    Ok(Ok(v)) => {
                                        // the opted-in tombstone (an empty value standing for the true one) is the verifier's
                                        // documented behaviour (C07), and K2 is C07's known finding; anything else is the wire's doing
                                        match orig_missing.as_ref().ok() {
                                            None => cx.fail(format!("C19 [cfg {}]: a {} history encoding decodes to a proof verifying (missing values allowed) although the original does not", cfg, what)),
                                            Some(o) => {
                                                let same_mod_tomb = v.len() == o.len() && v.iter().zip(o.iter()).all(|(g, w)| g.0 == w.0 && g.1 == w.1 && (g.2 == w.2 || g.2.is_empty()));
                                                let k2 = v.len() == o.len() && v.iter().zip(o.iter()).all(|(g, w)| g.1 == w.1 && (g.0 == w.0 || (g.1 == 1 && g.2.is_empty())) && (g.2 == w.2 || g.2.is_empty()));
                                                if same_mod_tomb {
                                                    cx.stat("missing_allowed_same");
                                                } else if k2 {
                                                    writeln!(cx.out, "KNOWN K2 a {} history encoding accepted under AllowMissingValues with the epoch of tombstoned version 1 altered", what).unwrap();
                                                    cx.stat("K2_hits");
                                                } else {
                                                    cx.fail(format!("C19 [cfg {}]: a {} history encoding decodes to a proof verifying (missing values allowed) to another result", cfg, what));
                                                }
                                            }
                                        }
                                    }
                                    _ => {}
                                }
                                match catch_unwind(AssertUnwindSafe(|| key_history_verify::<TC>(&pk, eh.1, eh.0, al.clone(), q, vp).map(|rs| rs.iter().map(|x| (x.epoch, x.version, x.value.0.clone())).collect::<Vec<_>>()).map_err(|_| ()))) {
                                    Err(e) => cx.fail(format!("C19 [cfg {}]: PANIC verifying a decoded {} history encoding: {}", cfg, what, panic_msg(e))),
                                    Ok(Ok(v)) => {
                                        if Some(&v) != orig.as_ref().ok() {
                                            cx.fail(format!("C19 [cfg {}]: a {} history encoding decodes to a proof verifying to another result", cfg, what));
                                        }
                                    }
                                    _ => {}
                                }
                            }
                        }
                    }
                }
            }
        }
    }
    // ---- append-only proofs and audit blobs
    if epoch >= 2 {
        let p = dir.audit(0, epoch).await.unwrap();
        let msg = pb::AppendOnlyProof::from(&p);
        let bytes = msg.write_to_bytes().unwrap();
        cx.emit(format!("wire_audit {}", ser_audit_raw(&p)), hex::encode(&bytes));
        cx.note(format!("C19 append-only proof of {} bytes", bytes.len()));
        match pb::AppendOnlyProof::parse_from_bytes(&bytes).map_err(|e| e.to_string()).and_then(|m| AppendOnlyProof::try_from(&m).map_err(|e| e.to_string())) {
            Ok(q) => {
                if q != p {
                    cx.fail(format!("C19 [cfg {}]: append-only proof changed by protobuf round trip", cfg));
                }
                if akd::auditor::audit_verify::<TC>(hashes.clone(), q).await.is_err() {
                    cx.fail(format!("C19 [cfg {}]: the decoded append-only proof does not verify", cfg));
                }
            }
            Err(e) => cx.fail(format!("C19 [cfg {}]: append-only proof does not decode after encoding: {}", cfg, e)),
        }
        let mut muts = mutations(r, &bytes);
        muts.extend(audit_field_mutations(&msg));
        muts.push(("honest", bytes.clone()));
        for (what, mb) in muts {
            cx.stat("malformed_audit");
            let hs = hashes.clone();
            let parsed = catch_unwind(AssertUnwindSafe(|| pb::AppendOnlyProof::parse_from_bytes(&mb).map_err(|_| ()).and_then(|m| AppendOnlyProof::try_from(&m).map_err(|_| ()))));
            match parsed {
                Err(e) => cx.fail(format!("C19 [cfg {}]: PANIC decoding a {} append-only encoding: {}", cfg, what, panic_msg(e))),
                Ok(dec) => {
                    cx.emit(format!("wdec_audit {}", hexs(&mb)), match &dec { Ok(q) => format!("ok {}", ser_audit_raw(q)), Err(()) => "err".into() });
                    if let Ok(q) = dec {
                        // verification of a decoded proof must not panic either
                        let h = tokio::spawn(async move { akd::auditor::audit_verify::<TC>(hs, q).await.is_ok() });
                        if let Err(e) = h.await {
                            if e.is_panic() {
                                cx.fail(format!("C19 [cfg {}]: PANIC verifying a decoded {} append-only encoding: {}", cfg, what, panic_msg(e.into_panic())));
                            }
                        }
                    }
                }
            }
        }
        // blobs: names print / parse, data decodes to the single proofs
        match generate_audit_blobs(hashes.clone(), p.clone()) {
            Ok(blobs) => {
                for (i, b) in blobs.iter().enumerate() {
                    let name = b.name.to_string();
                    cx.emit(format!("blobname {} {} {}", b.name.epoch, hx(&b.name.previous_hash), hx(&b.name.current_hash)), name.clone());
                    match AuditBlobName::try_from(name.as_str()) {
                        Ok(n2) => {
                            if n2 != b.name {
                                cx.fail(format!("C19 [cfg {}]: audit blob name does not survive print / parse: {}", cfg, name));
                            }
                        }
                        Err(e) => cx.fail(format!("C19 [cfg {}]: audit blob name {} does not parse: {:?}", cfg, name, e)),
                    }
                    match b.decode() {
                        Ok((e, ph, ch, sp)) => {
                            if e != p.epochs[i] || ph != hashes[i] || ch != hashes[i + 1] || sp != p.proofs[i] {
                                cx.fail(format!("C19 [cfg {}]: audit blob {} decodes to something else", cfg, i));
                            }
                        }
                        Err(e) => cx.fail(format!("C19 [cfg {}]: audit blob does not decode: {:?}", cfg, e)),
                    }
                    cx.emit(format!("wire_single {} {}", ser_elems(&p.proofs[i].inserted), ser_elems(&p.proofs[i].unchanged_nodes)), hexs(&b.data));
                    let mut muts = mutations(r, &b.data);
                    muts.truncate(8);
                    muts.push(("honest", b.data.clone()));
                    for (what, mb) in muts {
                        let bb = AuditBlob { name: b.name, data: mb.clone() };
                        match catch_unwind(AssertUnwindSafe(|| bb.decode().ok())) {
                            Err(e) => cx.fail(format!("C19 [cfg {}]: PANIC decoding a {} audit blob: {}", cfg, what, panic_msg(e))),
                            Ok(dec) => cx.emit(format!("wdec_single {}", hexs(&mb)), match &dec {
                                Some((_, _, _, sp)) => format!("ok {} {}", ser_elems(&sp.inserted), ser_elems(&sp.unchanged_nodes)),
                                None => "err".into(),
                            }),
                        }
                    }
                }
                let good = blobs[0].name.to_string();
                let mut names: Vec<String> = ["", "1", "1/zz/00", "x/00/00", "1/00", "18446744073709551616/00/00", "1/0101/0101", "1//", "//", "+1/00/00"].iter().map(|x| x.to_string()).collect();
                names.push(good.clone());
                names.push(good.to_uppercase());
                names.push(format!("{}/extra", good));
                names.push(format!("0{}", good));
                names.push(format!("+{}", good));
                names.push(format!("18446744073709551615{}", &good[good.find('/').unwrap()..]));
                names.push(format!("18446744073709551616{}", &good[good.find('/').unwrap()..]));
                names.push(good[..good.len() - 1].to_string());
                names.push(good.replace('/', "\\"));
                for _ in 0..6 {
                    let mut b = good.clone().into_bytes();
                    let i = r.below(b.len() as u64) as usize;
                    b[i] = 32 + r.below(95) as u8;
                    names.push(String::from_utf8(b).unwrap());
                }
                for bad in names {
                    match catch_unwind(|| AuditBlobName::try_from(bad.as_str()).ok()) {
                        Err(e) => cx.fail(format!("C19: PANIC parsing the blob name {:?}: {}", bad, panic_msg(e))),
                        Ok(res) => cx.emit(format!("blobparse {}", hexs(bad.as_bytes())), match res { Some(n) => format!("ok {} {} {}", n.epoch, hx(&n.previous_hash), hx(&n.current_hash)), None => "err".into() }),
                    }
                }
            }
            Err(e) => cx.fail(format!("C19 [cfg {}]: generate_audit_blobs failed: {:?}", cfg, e)),
        }
    }
}

/// hand-made messages: missing required fields, over-long labels, wrong-size digests, bad directions,
/// and arithmetic on attacker-chosen u64 values
pub async fn wire_structural<TC: Configuration>(cx: &mut Cx) {
    let cfg = cfg_name::<TC>();
    let mk_label = |len: u32, val: Vec<u8>| { let mut l = pb::NodeLabel::new(); l.set_label_len(len); l.set_label_val(val); l };
    let cases: Vec<(&str, pb::NodeLabel, bool)> = vec![
        ("label_len 257", mk_label(257, vec![1]), false),
        ("label value 33 bytes", mk_label(8, vec![1; 33]), false),
        ("missing label_len", { let mut l = pb::NodeLabel::new(); l.set_label_val(vec![1]); l }, false),
        ("missing label_val", { let mut l = pb::NodeLabel::new(); l.set_label_len(3); l }, false),
        ("ok 256", mk_label(256, vec![0xFF; 32]), true),
        ("ok empty value", mk_label(0, vec![]), true),
    ];
    for (what, m, want) in cases {
        let res = catch_unwind(AssertUnwindSafe(|| akd::NodeLabel::try_from(&m).ok()));
        cx.stat("structural");
        match res {
            Err(e) => cx.fail(format!("C19 [cfg {}]: PANIC converting a NodeLabel message with {}: {}", cfg, what, panic_msg(e))),
            Ok(dec) => {
                cx.emit(format!("wdec_label {}", hexs(&enc(&m))), match &dec { Some(l) => format!("ok {}", fmt_nl(l)), None => "err".into() });
                let ok = dec.is_some();
                if ok != want {
                    cx.fail(format!("C19 [cfg {}]: NodeLabel message with {} was {}", cfg, what, if ok { "accepted" } else { "rejected" }));
                }
            }
        }
    }
    // digests of the wrong size
    for n in [0usize, 31, 33, 64] {
        let mut e = pb::AzksElement::new();
        e.label = protobuf::MessageField::some(mk_label(8, vec![1]));
        e.set_value(vec![7; n]);
        let res = catch_unwind(AssertUnwindSafe(|| akd::AzksElement::try_from(&e).ok()));
        cx.stat("structural");
        match res {
            Err(e2) => cx.fail(format!("C19 [cfg {}]: PANIC converting an AzksElement with a {}-byte value: {}", cfg, n, panic_msg(e2))),
            Ok(dec) => {
                cx.emit(format!("wdec_elem {}", hexs(&enc(&e))), match &dec { Some(x) => format!("ok {} {}", fmt_nl(&x.label), hx(&x.value.0)), None => "err".into() });
                if dec.is_some() {
                    cx.fail(format!("C19 [cfg {}]: AzksElement with a {}-byte value accepted", cfg, n));
                }
            }
        }
    }
    // directions
    for d in [0u32, 1, 2, 3, 255, 256, 257, u32::MAX] {
        let mut s = pb::SiblingProof::new();
        s.label = protobuf::MessageField::some(mk_label(8, vec![1]));
        let mut e = pb::AzksElement::new();
        e.label = protobuf::MessageField::some(mk_label(9, vec![1, 128]));
        e.set_value(vec![7; 32]);
        s.siblings.push(e);
        s.set_direction(d);
        cx.stat("structural");
        match catch_unwind(AssertUnwindSafe(|| akd::SiblingProof::try_from(&s).ok())) {
            Err(e2) => cx.fail(format!("C19 [cfg {}]: PANIC converting a SiblingProof with direction {}: {}", cfg, d, panic_msg(e2))),
            Ok(dec) => cx.emit(format!("wdec_sib {}", hexs(&enc(&s))), match &dec {
                Some(x) => format!("ok {} {} {} {}", fmt_nl(&x.label), fmt_nl(&x.siblings[0].label), hx(&x.siblings[0].value.0), match x.direction { akd::Direction::Left => 0, akd::Direction::Right => 1 }),
                None => "err".into(),
            }),
        }
    }
    // arithmetic on attacker-supplied numbers: versions / epochs at the top of the u64 range
    let pk = HardCodedAkdVRF {}.get_vrf_public_key().await.unwrap().as_bytes().to_vec();
    let dummy_mp = akd::MembershipProof { label: akd::NodeLabel::new([0u8; 32], 256), hash_val: akd::AzksValue([0u8; 32]), sibling_proofs: vec![] };
    for (v0, v1) in [(u64::MAX, u64::MAX - 1), (0u64, u64::MAX), (u64::MAX, u64::MAX), (1, 0), (u64::MAX, 0)] {
        let up = |v: u64| akd::UpdateProof { epoch: v, version: v, value: AkdValue(vec![1]), existence_vrf_proof: vec![0; 80], existence_proof: dummy_mp.clone(), previous_version_vrf_proof: None, previous_version_proof: None, commitment_nonce: vec![] };
        let hp = HistoryProof { update_proofs: vec![up(v0), up(v1)], past_marker_vrf_proofs: vec![], existence_of_past_marker_proofs: vec![], future_marker_vrf_proofs: vec![], non_existence_of_future_marker_proofs: vec![] };
        cx.stat("overflow_probes");
        for ce in [u64::MAX, 5] {
            let h2 = hp.clone();
            let res = catch_unwind(AssertUnwindSafe(|| key_history_verify::<TC>(&pk, [0u8; 32], ce, AkdLabel(vec![1]), h2, HistoryVerificationParams::default()).is_ok()));
            match res {
                Err(e) => cx.fail(format!("C19 [cfg {}]: PANIC in key_history_verify on update versions ({}, {}) at epoch {}: {}", cfg, v0, v1, ce, panic_msg(e))),
                Ok(true) => cx.fail(format!("C19 [cfg {}]: key_history_verify accepted a dummy proof with versions ({}, {})", cfg, v0, v1)),
                _ => {}
            }
        }
        let lp = LookupProof { epoch: v0, value: AkdValue(vec![1]), version: v0, existence_vrf_proof: vec![0; 80], existence_proof: dummy_mp.clone(), marker_vrf_proof: vec![0; 80], marker_proof: dummy_mp.clone(), freshness_vrf_proof: vec![0; 80], freshness_proof: akd::NonMembershipProof { label: dummy_mp.label, longest_prefix: akd::NodeLabel::root(), longest_prefix_children: [akd::AzksElement { label: dummy_mp.label, value: akd::AzksValue([0; 32]) }; 2], longest_prefix_membership_proof: dummy_mp.clone() }, commitment_nonce: vec![] };
        if let Err(e) = catch_unwind(AssertUnwindSafe(|| lookup_verify::<TC>(&pk, [0u8; 32], u64::MAX, AkdLabel(vec![1]), lp).is_ok())) {
            cx.fail(format!("C19 [cfg {}]: PANIC in lookup_verify on version {}: {}", cfg, v0, panic_msg(e)));
        }
    }
    for v in [u64::MAX, u64::MAX - 1, 1u64 << 63, (1u64 << 63) + 1, (1u64 << 63) - 1, 1, 0] {
        for ce in [u64::MAX, 1u64 << 63, v] {
            for hp in [HistoryParams::Complete, HistoryParams::MostRecent(1), HistoryParams::MostRecent(usize::MAX)] {
                let up = akd::UpdateProof { epoch: v, version: v, value: AkdValue(vec![1]), existence_vrf_proof: vec![0; 80], existence_proof: dummy_mp.clone(), previous_version_vrf_proof: None, previous_version_proof: None, commitment_nonce: vec![] };
                let h = HistoryProof { update_proofs: vec![up], past_marker_vrf_proofs: vec![], existence_of_past_marker_proofs: vec![], future_marker_vrf_proofs: vec![], non_existence_of_future_marker_proofs: vec![] };
                cx.stat("overflow_probes");
                for vp in [HistoryVerificationParams::Default { history_params: hp }, HistoryVerificationParams::AllowMissingValues { history_params: hp }] {
                    let h2 = h.clone();
                    match catch_unwind(AssertUnwindSafe(|| key_history_verify::<TC>(&pk, [0u8; 32], ce, AkdLabel(vec![1]), h2, vp).is_ok())) {
                        Err(e) => cx.fail(format!("C19 [cfg {}]: PANIC in key_history_verify on a single update of version {} at epoch {} ({:?}): {}", cfg, v, ce, hp, panic_msg(e))),
                        Ok(true) => cx.fail(format!("C19 [cfg {}]: key_history_verify accepted a dummy proof of version {}", cfg, v)),
                        _ => {}
                    }
                }
            }
        }
    }
    // a server that placed a leaf for version 0 of a label: the existence part of a lookup proof for
    // version 0 verifies, and the verifier goes on to compute the marker of version 0
    {
        let vrf = HardCodedAkdVRF {};
        let l = AkdLabel(b"zero".to_vec());
        let ck = TC::hash(&vrf.retrieve().await.unwrap()).to_vec();
        let mut az = RealAzks::new::<TC>().await;
        let f0 = vrf.get_node_label::<TC>(&l, VersionFreshness::Fresh, 0).await.unwrap();
        let val = AkdValue(vec![5]);
        let c0 = TC::compute_fresh_azks_value(&ck, &f0, 0, &val);
        let filler = akd::AzksElement { label: akd::NodeLabel::new([0x5a; 32], 256), value: akd::AzksValue([9; 32]) };
        az.insert::<TC>(vec![akd::AzksElement { label: f0, value: c0 }, filler], akd::append_only_zks::InsertMode::Directory).await.unwrap();
        let root = az.root_hash::<TC>().await;
        let mp = az.azks.get_membership_proof::<TC, _>(&az.st, f0).await.unwrap();
        let np = az.azks.get_non_membership_proof::<TC, _>(&az.st, vrf.get_node_label::<TC>(&l, VersionFreshness::Stale, 0).await.unwrap()).await.unwrap();
        let vp = |f, v| { let l = l.clone(); let vrf = vrf.clone(); async move { vrf.get_label_proof::<TC>(&l, f, v).await.unwrap().to_bytes().to_vec() } };
        let lp = LookupProof {
            epoch: 1, value: val.clone(), version: 0,
            existence_vrf_proof: vp(VersionFreshness::Fresh, 0).await, existence_proof: mp.clone(),
            marker_vrf_proof: vp(VersionFreshness::Fresh, 0).await, marker_proof: mp.clone(),
            freshness_vrf_proof: vp(VersionFreshness::Stale, 0).await, freshness_proof: np,
            commitment_nonce: TC::get_commitment_nonce(&ck, &f0, 0, &val).to_vec(),
        };
        cx.stat("overflow_probes");
        // through the wire, as a client receives it
        let bytes = pb::LookupProof::from(&lp).write_to_bytes().unwrap();
        let q = LookupProof::try_from(&pb::LookupProof::parse_from_bytes(&bytes).unwrap()).unwrap();
        match catch_unwind(AssertUnwindSafe(|| lookup_verify::<TC>(&pk, root, 1, l.clone(), q).map(|x| (x.epoch, x.version)))) {
            Err(e) => cx.fail(format!("C19 [cfg {}]: PANIC in lookup_verify on a decoded proof for version 0 whose existence part verifies: {}", cfg, panic_msg(e))),
            Ok(Ok(v)) => cx.fail(format!("C19 [cfg {}]: lookup_verify accepted version 0: {:?}", cfg, v)),
            Ok(Err(_)) => {}
        }
    }
    for ep in [u64::MAX, u64::MAX - 1, 0] {
        let ap = AppendOnlyProof { proofs: vec![akd::SingleAppendOnlyProof { inserted: vec![], unchanged_nodes: vec![] }], epochs: vec![ep] };
        let h = tokio::spawn(async move { akd::auditor::audit_verify::<TC>(vec![[0u8; 32], [1u8; 32]], ap).await.is_ok() });
        cx.stat("overflow_probes");
        match h.await {
            Err(e) if e.is_panic() => cx.fail(format!("C19 [cfg {}]: PANIC in audit_verify on epoch {}: {}", cfg, ep, panic_msg(e.into_panic()))),
            Ok(true) => cx.fail(format!("C19 [cfg {}]: audit_verify accepted a dummy proof at epoch {}", cfg, ep)),
            _ => {}
        }
    }
}

// ------------------------------------------------------------------ C18

#[derive(Clone)]
struct KeyVrf(Vec<u8>);
#[async_trait::async_trait]
impl VRFKeyStorage for KeyVrf {
    async fn retrieve(&self) -> Result<Vec<u8>, VrfError> {
        Ok(self.0.clone())
    }
}

pub async fn vrf_binding<TC: Configuration>(cx: &mut Cx, r: &mut Rng, n: usize) {
    let cfg = cfg_name::<TC>();
    let mut keys: Vec<Vec<u8>> = vec![hex::decode("c9afa9d845ba75166b5c215767b1d6934e50c3db36e89b127b8a622b120f6721").unwrap(), vec![0u8; 32], vec![0xFF; 32]];
    for _ in 0..3 {
        keys.push(r.bytes(32));
    }
    let labels: Vec<Vec<u8>> = vec![vec![], vec![0], vec![1], b"a".to_vec(), b"ab".to_vec(), vec![0xFF; 330], r.bytes(40)];
    let versions: Vec<u64> = vec![0, 1, 2, 255, 256, 65535, 65536, u32::MAX as u64, 1 << 32, 1 << 63, u64::MAX - 1, u64::MAX];
    let verify = |pk: &[u8], proof: &[u8], l: &[u8], f: VersionFreshness, v: u64| -> Option<Proof> {
        let vpk = VRFPublicKey::try_from(pk).ok()?;
        let p = Proof::try_from(proof).ok()?;
        let alpha = TC::get_hash_from_label_input(&AkdLabel(l.to_vec()), f, v);
        vpk.verify(&p, &alpha).ok()?;
        Some(p)
    };
    let mut seen_labels: std::collections::HashMap<[u8; 32], (usize, Vec<u8>, u8, u64)> = std::collections::HashMap::new();
    for it in 0..n {
        let ki = it % keys.len();
        let vrf = KeyVrf(keys[ki].clone());
        let pk = match vrf.get_vrf_public_key().await { Ok(p) => p.as_bytes().to_vec(), Err(_) => continue };
        let l = labels[(it / keys.len()) % labels.len()].clone();
        let f = if r.chance(1, 2) { VersionFreshness::Fresh } else { VersionFreshness::Stale };
        let v = if r.chance(1, 3) { r.next() >> r.below(64) } else { *r.pick(&versions) };
        let nl = vrf.get_node_label::<TC>(&AkdLabel(l.clone()), f, v).await.unwrap();
        let nl2 = vrf.get_node_label::<TC>(&AkdLabel(l.clone()), f, v).await.unwrap();
        let proof = vrf.get_label_proof::<TC>(&AkdLabel(l.clone()), f, v).await.unwrap();
        let pb_ = proof.to_bytes().to_vec();
        let alpha = TC::get_hash_from_label_input(&AkdLabel(l.clone()), f, v);
        // the VRF input encoding, recomputed by the model with Gallina BLAKE3
        cx.emit(format!("vrfinput {} {} {} {}", cfg, hexs(&l), f as u8, v), hex::encode(&alpha));
        cx.note(format!("C18 key #{} label {} freshness {} version {}", ki, hexs(&l[..l.len().min(8)]), f as u8, v));
        let what = format!("[cfg {} key #{} label {} freshness {} version {}]", cfg, ki, hexs(&l[..l.len().min(12)]), f as u8, v);
        if nl != nl2 || nl.label_len != 256 {
            cx.fail(format!("C18 {}: node label derivation is not deterministic / not 256 bits", what));
        }
        // proof bytes round trip
        match Proof::try_from(&pb_[..]) {
            Ok(p2) => {
                if p2.to_bytes().to_vec() != pb_ {
                    cx.fail(format!("C18 {}: VRF proof bytes do not survive parse / print", what));
                }
            }
            Err(e) => cx.fail(format!("C18 {}: own VRF proof does not parse: {:?}", what, e)),
        }
        // completeness: verifies and yields the node label placed in the tree
        match verify(&pk, &pb_, &l, f, v) {
            Some(p) => {
                let out = vrf.get_node_label_from_vrf_proof(p).await;
                if out != nl {
                    cx.fail(format!("C18 {}: the verified proof's output {} is not the node label {} the server places in the tree", what, hx(&out.label_val), hx(&nl.label_val)));
                }
            }
            None => cx.fail(format!("C18 {}: the server's VRF proof does not verify", what)),
        }
        // alterations of every input
        let other_f = if f == VersionFreshness::Fresh { VersionFreshness::Stale } else { VersionFreshness::Fresh };
        let mut alts: Vec<(String, Option<Proof>)> = vec![];
        alts.push(("freshness flipped".into(), verify(&pk, &pb_, &l, other_f, v)));
        alts.push(("version + 1".into(), verify(&pk, &pb_, &l, f, v.wrapping_add(1))));
        alts.push(("version with a high bit flipped".into(), verify(&pk, &pb_, &l, f, v ^ (1 << 63))));
        let mut l2 = l.clone();
        l2.push(0);
        alts.push(("label extended by a zero byte".into(), verify(&pk, &pb_, &l2, f, v)));
        if !l.is_empty() {
            let mut l3 = l.clone();
            l3[0] ^= 1;
            alts.push(("label bit flipped".into(), verify(&pk, &pb_, &l3, f, v)));
        }
        let other_pk = KeyVrf(keys[(ki + 1) % keys.len()].clone()).get_vrf_public_key().await.unwrap().as_bytes().to_vec();
        alts.push(("another public key".into(), verify(&other_pk, &pb_, &l, f, v)));
        for (what2, res) in alts {
            cx.stat("vrf_alterations");
            if res.is_some() {
                cx.fail(format!("C18 {}: verification still succeeds with {}", what, what2));
            }
        }
        // no alteration of the proof bytes makes a different node label verify
        for i in 0..80 {
            let mut pb2 = pb_.clone();
            pb2[i] ^= 1 << r.below(8);
            cx.stat("vrf_proof_byte_flips");
            if let Some(p) = verify(&pk, &pb2, &l, f, v) {
                let out = vrf.get_node_label_from_vrf_proof(p).await;
                if out != nl {
                    cx.fail(format!("C18 {}: proof with byte {} altered verifies and yields another node label", what, i));
                }
            }
        }
        for len in [0usize, 79, 81, 160] {
            let mut pb2 = pb_.clone();
            pb2.resize(len, 0);
            if verify(&pk, &pb2, &l, f, v).is_some() {
                cx.fail(format!("C18 {}: a proof of {} bytes verifies", what, len));
            }
        }
        // different (key, label, freshness, version) give different node labels
        if let Some(prev) = seen_labels.insert(nl.label_val, (ki, l.clone(), f as u8, v)) {
            if prev != (ki, l.clone(), f as u8, v) {
                cx.fail(format!("C18 {}: the same node label was derived for {:?}", what, (prev.0, hexs(&prev.1), prev.2, prev.3)));
            }
        }
        // commitments under different keys differ
        let ck1 = TC::hash(&keys[ki]);
        let ck2 = TC::hash(&keys[(ki + 1) % keys.len()]);
        let c1 = TC::compute_fresh_azks_value(&ck1, &nl, v, &AkdValue(vec![1, 2, 3]));
        let c2 = TC::compute_fresh_azks_value(&ck2, &nl, v, &AkdValue(vec![1, 2, 3]));
        cx.emit(format!("freshval {} {} {} {} {}", cfg, hex::encode(ck1), hex::encode(nl.label_val), v, "010203"), hex::encode(c1.0));
        if keys[ki] != keys[(ki + 1) % keys.len()] && c1 == c2 {
            cx.fail(format!("C18 {}: value commitments under two different keys coincide", what));
        }
    }
}

/// directories run under different secret keys: every verification input as the client uses it
pub async fn vrf_directories<TC: Configuration>(cx: &mut Cx, r: &mut Rng, nkeys: usize) {
    let cfg = cfg_name::<TC>();
    let mut keys: Vec<Vec<u8>> = vec![hex::decode("c9afa9d845ba75166b5c215767b1d6934e50c3db36e89b127b8a622b120f6721").unwrap()];
    for _ in 1..nkeys {
        keys.push(r.bytes(32));
    }
    let labels: Vec<Vec<u8>> = vec![vec![], b"a".to_vec(), b"ab".to_vec(), vec![0xFF; 70]];
    let mut per_key: Vec<Vec<(akd::NodeLabel, [u8; 32])>> = vec![];
    let mut pks = vec![];
    for k in &keys {
        let vrf = KeyVrf(k.clone());
        let db = Db::new();
        let st = akd::storage::manager::StorageManager::new_no_cache(db.clone());
        let dir = akd::directory::Directory::<TC, _, _>::new(st, vrf.clone(), akd::AzksParallelismConfig::disabled()).await.unwrap();
        dir.publish(labels.iter().map(|l| (AkdLabel(l.clone()), AkdValue(vec![1]))).collect()).await.unwrap();
        dir.publish(labels.iter().take(2).map(|l| (AkdLabel(l.clone()), AkdValue(vec![2]))).collect()).await.unwrap();
        let pk = vrf.get_vrf_public_key().await.unwrap().as_bytes().to_vec();
        pks.push(pk.clone());
        // batch derivation agrees with single derivation
        let batch: Vec<(AkdLabel, VersionFreshness, u64, AkdValue)> = labels.iter().enumerate().map(|(i, l)| (AkdLabel(l.clone()), if i % 2 == 0 { VersionFreshness::Fresh } else { VersionFreshness::Stale }, i as u64 + 1, AkdValue(vec![]))).collect();
        for ((l, f, v, _), nl) in vrf.get_node_labels::<TC>(&batch).await.unwrap() {
            cx.stat("vrf_batch");
            if nl != vrf.get_node_label::<TC>(&l, f, v).await.unwrap() {
                cx.fail(format!("C18 [cfg {}]: get_node_labels and get_node_label disagree for {:?}", cfg, (hexs(&l.0), f as u8, v)));
            }
        }
        let mut mine = vec![];
        for (li, l) in labels.iter().enumerate() {
            let al = AkdLabel(l.clone());
            let (p, eh) = dir.lookup(al.clone()).await.unwrap();
            cx.note(format!("C18 directory under key {} label {}", hexs(&k[..4]), hexs(&l[..l.len().min(8)])));
            let ok = |pk: &[u8], al: &AkdLabel, p: &LookupProof| lookup_verify::<TC>(pk, eh.1, eh.0, al.clone(), p.clone()).is_ok();
            if !ok(&pk, &al, &p) {
                cx.fail(format!("C18 [cfg {}]: honest lookup proof under key {} does not verify", cfg, hexs(&k[..4])));
            }
            // the node label in the proof is the one the server derived and placed in the tree
            let nl = vrf.get_node_label::<TC>(&al, VersionFreshness::Fresh, p.version).await.unwrap();
            if p.existence_proof.label != nl {
                cx.fail(format!("C18 [cfg {}]: the existence proof is not for the node label derived from (label, fresh, version)", cfg));
            }
            mine.push((nl, p.existence_proof.hash_val.0));
            let mut alts: Vec<(&str, bool)> = vec![];
            let mut q = p.clone();
            q.existence_proof.label.label_val[31] ^= 1;
            alts.push(("claimed existence node label altered (last bit)", ok(&pk, &al, &q)));
            let mut q = p.clone();
            q.existence_proof.label.label_val[0] ^= 0x80;
            alts.push(("claimed existence node label altered (first bit)", ok(&pk, &al, &q)));
            let mut q = p.clone();
            q.existence_proof.label.label_len = 255;
            alts.push(("claimed existence node label shortened", ok(&pk, &al, &q)));
            let mut q = p.clone();
            q.marker_proof.label.label_val[5] ^= 4;
            alts.push(("claimed marker node label altered", ok(&pk, &al, &q)));
            let mut q = p.clone();
            q.freshness_proof.label.label_val[9] ^= 1;
            alts.push(("claimed freshness node label altered", ok(&pk, &al, &q)));
            for len in [255u32, 254, 128] {
                let mut q = p.clone();
                if len > q.freshness_proof.longest_prefix.label_len {
                    q.freshness_proof.label.label_len = len;
                    alts.push(("claimed freshness node label cut short (same VRF bytes, label_len < 256)", ok(&pk, &al, &q)));
                }
                let mut q = p.clone();
                q.marker_proof.label.label_len = len;
                alts.push(("claimed marker node label cut short", ok(&pk, &al, &q)));
            }
            let mut q = p.clone();
            std::mem::swap(&mut q.existence_vrf_proof, &mut q.freshness_vrf_proof);
            alts.push(("existence and freshness VRF proofs swapped", ok(&pk, &al, &q)));
            let mut q = p.clone();
            q.version += 1;
            alts.push(("version + 1", ok(&pk, &al, &q)));
            let other = AkdLabel(labels[(li + 1) % labels.len()].clone());
            alts.push(("another label", ok(&pk, &other, &p)));
            let mut l2 = l.clone();
            l2.push(0);
            alts.push(("label extended by a zero byte", ok(&pk, &AkdLabel(l2), &p)));
            for (what, accepted) in alts {
                cx.stat("vrf_alterations");
                if accepted {
                    cx.fail(format!("C18 [cfg {}]: lookup verification still succeeds with {} (key {}, label {})", cfg, what, hexs(&k[..4]), hexs(&l[..l.len().min(8)])));
                }
            }
            // the same binding in history proofs, in both verification modes, with the values as they are and with every
            // value presented as a tombstone (where the value check is skipped the VRF check must still bind the label)
            if let Ok((hp0, heh)) = dir.key_history(&al, HistoryParams::Complete).await {
                let mut tomb = hp0.clone();
                for u in tomb.update_proofs.iter_mut() {
                    u.value = AkdValue(vec![]);
                }
                for (pres, hp, modes) in [("as stored", &hp0, vec![false, true]), ("all values presented as tombstones", &tomb, vec![true])] {
                    for allow in modes {
                        let vp = if allow { HistoryVerificationParams::AllowMissingValues { history_params: HistoryParams::Complete } } else { HistoryVerificationParams::Default { history_params: HistoryParams::Complete } };
                        let hok = |q: &HistoryProof| key_history_verify::<TC>(&pk, heh.1, heh.0, al.clone(), q.clone(), vp).is_ok();
                        if !hok(hp) {
                            cx.fail(format!("C18 [cfg {}]: honest history proof ({}, allow_missing {}) does not verify", cfg, pres, allow));
                            continue;
                        }
                        let mut halts: Vec<(String, bool)> = vec![];
                        for i in 0..hp.update_proofs.len() {
                            let mut q = hp.clone();
                            q.update_proofs[i].existence_vrf_proof[7] ^= 1;
                            halts.push((format!("existence VRF proof of entry {} altered", i), hok(&q)));
                            let mut q = hp.clone();
                            q.update_proofs[i].existence_vrf_proof = vec![];
                            halts.push((format!("existence VRF proof of entry {} emptied", i), hok(&q)));
                            let mut q = hp.clone();
                            q.update_proofs[i].existence_proof.label.label_val[31] ^= 1;
                            halts.push((format!("claimed node label of entry {} altered", i), hok(&q)));
                            let j = (i + 1) % hp.update_proofs.len();
                            if j != i {
                                let mut q = hp.clone();
                                q.update_proofs[i].existence_vrf_proof = hp.update_proofs[j].existence_vrf_proof.clone();
                                halts.push((format!("existence VRF proof of entry {} replaced by that of entry {}", i, j), hok(&q)));
                                let mut q = hp.clone();
                                q.update_proofs[i].existence_vrf_proof = hp.update_proofs[j].existence_vrf_proof.clone();
                                q.update_proofs[i].existence_proof = hp.update_proofs[j].existence_proof.clone();
                                halts.push((format!("entry {} carries the VRF proof and leaf of entry {}", i, j), hok(&q)));
                            }
                            if let Some(pv) = hp.update_proofs[i].previous_version_vrf_proof.clone() {
                                let mut q = hp.clone();
                                let mut pv2 = pv.clone();
                                pv2[3] ^= 0x10;
                                q.update_proofs[i].previous_version_vrf_proof = Some(pv2);
                                halts.push((format!("previous-version VRF proof of entry {} altered", i), hok(&q)));
                            }
                        }
                        for i in 0..hp.past_marker_vrf_proofs.len() {
                            let mut q = hp.clone();
                            q.past_marker_vrf_proofs[i][0] ^= 2;
                            halts.push((format!("past-marker VRF proof {} altered", i), hok(&q)));
                        }
                        for i in 0..hp.future_marker_vrf_proofs.len() {
                            let mut q = hp.clone();
                            q.future_marker_vrf_proofs[i][1] ^= 2;
                            halts.push((format!("future-marker VRF proof {} altered", i), hok(&q)));
                        }
                        for (what, accepted) in halts {
                            cx.stat("vrf_history_alterations");
                            if accepted {
                                cx.fail(format!("C18 [cfg {}]: history verification ({}, allow_missing {}) still succeeds with {} (key {}, label {})", cfg, pres, allow, what, hexs(&k[..4]), hexs(&l[..l.len().min(8)])));
                            }
                        }
                    }
                }
            }
            for (j, pk2) in pks.iter().enumerate() {
                if *pk2 != pk {
                    cx.stat("vrf_alterations");
                    if ok(pk2, &al, &p) {
                        cx.fail(format!("C18 [cfg {}]: lookup proof under key #{} verifies under the public key of key #{}", cfg, pks.len() - 1, j));
                    }
                }
            }
        }
        per_key.push(mine);
    }
    for i in 0..per_key.len() {
        for j in 0..i {
            if keys[i] == keys[j] {
                continue;
            }
            for li in 0..labels.len() {
                cx.stat("vrf_key_pairs");
                if per_key[i][li].0 == per_key[j][li].0 {
                    cx.fail(format!("C18 [cfg {}]: the same node label under two different secret keys (label {})", cfg, hexs(&labels[li])));
                }
                if per_key[i][li].1 == per_key[j][li].1 {
                    cx.fail(format!("C18 [cfg {}]: the same leaf value under two different secret keys (label {})", cfg, hexs(&labels[li])));
                }
            }
        }
    }
}

/// batch derivation on a multi-threaded runtime (tasks complete in any order): every returned node label
/// must be the one its own (label, freshness, version) derives
pub async fn vrf_batch_multi<TC: Configuration>(n: usize, seed: u64) -> Vec<String> {
    let mut r = Rng::new(seed ^ 0x77);
    let vrf = KeyVrf(r.bytes(32));
    let mut fails = vec![];
    let batch: Vec<(AkdLabel, VersionFreshness, u64, AkdValue)> = (0..n)
        .map(|i| (AkdLabel(vec![(i % 251) as u8, (i / 251) as u8, 7]), if i % 3 == 0 { VersionFreshness::Stale } else { VersionFreshness::Fresh }, 1 + (i as u64 % 5), AkdValue(vec![i as u8])))
        .collect();
    match vrf.get_node_labels::<TC>(&batch).await {
        Ok(res) => {
            if res.len() != batch.len() {
                fails.push(format!("C18 [cfg {}]: get_node_labels returned {} entries for {} requests", cfg_name::<TC>(), res.len(), batch.len()));
            }
            let mut bad = 0;
            for ((l, f, v, _), nl) in res {
                if nl != vrf.get_node_label::<TC>(&l, f, v).await.unwrap() {
                    bad += 1;
                }
            }
            if bad > 0 {
                fails.push(format!("C18 [cfg {}]: get_node_labels on a multi-threaded runtime paired {} of {} node labels with the wrong (label, freshness, version)", cfg_name::<TC>(), bad, batch.len()));
            }
        }
        Err(e) => fails.push(format!("C18 [cfg {}]: get_node_labels failed: {:?}", cfg_name::<TC>(), e)),
    }
    fails
}

pub fn run(seed: u64, tier: u32, which: &str) -> Cx {
    let rt = tokio::runtime::Builder::new_current_thread().enable_all().build().unwrap();
    let mut cx = Cx::new();
    let mut r = Rng::new(seed ^ 0x3193);
    std::panic::set_hook(Box::new(|_| {}));
    rt.block_on(async {
        if which == "c19" {
            let n = if tier == 0 { 1 } else { 6 };
            for i in 0..n {
                wire_history::<W>(&mut cx, &mut r, 4 + i, 5).await;
                wire_history::<E>(&mut cx, &mut r, 4 + i, 5).await;
            }
            // tiny directories: the root has a single child, so proofs carry the (non-canonical) empty label
            for (ne, nl) in [(1usize, 1usize), (1, 2), (2, 1), (3, 2)] {
                wire_history::<W>(&mut cx, &mut r, ne, nl).await;
                wire_history::<E>(&mut cx, &mut r, ne, nl).await;
            }
            wire_structural::<W>(&mut cx).await;
            wire_structural::<E>(&mut cx).await;
        } else {
            let n = if tier == 0 { 60 } else { 1200 };
            vrf_binding::<W>(&mut cx, &mut r, n).await;
            vrf_binding::<E>(&mut cx, &mut r, n).await;
            let nk = if tier == 0 { 3 } else { 8 };
            vrf_directories::<W>(&mut cx, &mut r, nk).await;
            vrf_directories::<E>(&mut cx, &mut r, nk).await;
        }
    });
    if which == "c18" {
        let mt = tokio::runtime::Builder::new_multi_thread().worker_threads(4).enable_all().build().unwrap();
        let n = if tier == 0 { 96 } else { 600 };
        for rep in 0..(if tier == 0 { 2 } else { 6 }) {
            for f in mt.block_on(async { let mut v = vrf_batch_multi::<W>(n, seed + rep).await; v.extend(vrf_batch_multi::<E>(n, seed + rep + 100).await); v }) {
                cx.fail(f);
            }
            *cx.stats.entry("vrf_batch_multithread".to_string()).or_insert(0) += 2 * n as u64;
        }
    }
    let _ = (String::new().write_str(""),);
    cx
}
