//! C12 / C13 (X-sched): publishes and readers interleaved at storage-operation granularity under an
//! explicit schedule. Every storage operation of a task parks on that task's gate; the controller
//! releases one operation at a time, deterministically on a current-thread runtime.
use crate::dirs::*;
use crate::faults::canon_dump;
use crate::rng::Rng;
use crate::treeutil::*;
use akd::append_only_zks::AzksParallelismConfig;
use akd::client::{key_history_verify, lookup_verify};
use akd::directory::Directory;
use akd::ecvrf::{HardCodedAkdVRF, VRFKeyStorage};
use akd::errors::StorageError;
use akd::storage::manager::StorageManager;
use akd::storage::memory::AsyncInMemoryDatabase;
use akd::storage::types::{DbRecord, KeyData, ValueState, ValueStateRetrievalFlag};
use akd::storage::{Database, DbSetState, Storable, StorageUtil};
use akd::{AkdLabel, AkdValue, EpochHash, HistoryParams, HistoryVerificationParams};
use akd_core::configuration::Configuration;
use std::collections::HashMap;
use std::fmt::Write as _;
use std::sync::atomic::{AtomicBool, AtomicUsize, Ordering};
use std::sync::Arc;
use std::time::Duration;
use tokio::sync::Semaphore;

tokio::task_local! {
    static TASK: usize;
}

pub struct Ctl {
    sems: Vec<Semaphore>,
    waiting: Vec<AtomicUsize>,
    free_run: AtomicBool,
    pub ops: AtomicUsize,
    /// also park AFTER every operation (needed to expose the read-fill / write-through race)
    post_gate: AtomicBool,
    /// the slot that storage operations of tasks without an identity (tasks the library spawns itself) are charged to;
    /// usize::MAX = such operations are not gated
    bg: AtomicUsize,
    /// parked operations of such tasks, oldest first; released newest first so that an operation nobody waits for stays parked
    bgq: std::sync::Mutex<Vec<Arc<Semaphore>>>,
    /// a batch write takes this many milliseconds before it reaches the database (ungated multi-thread runs)
    write_delay_ms: AtomicUsize,
    /// the next transaction commit is rejected by the database (one-shot)
    fail_next_commit: AtomicBool,
}
impl Ctl {
    pub fn new(ntasks: usize) -> Arc<Ctl> {
        Arc::new(Ctl {
            sems: (0..ntasks).map(|_| Semaphore::new(0)).collect(),
            waiting: (0..ntasks).map(|_| AtomicUsize::new(0)).collect(),
            free_run: AtomicBool::new(true),
            ops: AtomicUsize::new(0),
            post_gate: AtomicBool::new(false),
            bg: AtomicUsize::new(usize::MAX),
            bgq: std::sync::Mutex::new(vec![]),
            write_delay_ms: AtomicUsize::new(0),
            fail_next_commit: AtomicBool::new(false),
        })
    }
    async fn gate(&self) {
        self.gate2(false).await
    }
    async fn gate2(&self, post: bool) {
        if self.free_run.load(Ordering::SeqCst) {
            return;
        }
        let id = TASK.try_with(|t| *t).unwrap_or(self.bg.load(Ordering::SeqCst));
        if id >= self.sems.len() {
            return;
        }
        if id == self.bg.load(Ordering::SeqCst) {
            // library-spawned tasks are only held back between the database's answer and its use
            if !post {
                return;
            }
            let sem = Arc::new(Semaphore::new(0));
            self.bgq.lock().unwrap().push(sem.clone());
            self.waiting[id].fetch_add(1, Ordering::SeqCst);
            let p = sem.acquire().await.unwrap();
            p.forget();
            self.waiting[id].fetch_sub(1, Ordering::SeqCst);
            self.ops.fetch_add(1, Ordering::SeqCst);
            return;
        }
        self.waiting[id].fetch_add(1, Ordering::SeqCst);
        let p = self.sems[id].acquire().await.unwrap();
        p.forget();
        self.waiting[id].fetch_sub(1, Ordering::SeqCst);
        self.ops.fetch_add(1, Ordering::SeqCst);
    }
    /// lets the most recently parked operation of a library-spawned task through
    fn release_bg_newest(&self) -> bool {
        match self.bgq.lock().unwrap().pop() {
            Some(s) => {
                s.add_permits(1);
                true
            }
            None => false,
        }
    }
    fn release_bg_all(&self) {
        for s in self.bgq.lock().unwrap().drain(..) {
            s.add_permits(1);
        }
    }
    async fn after(&self) {
        if self.post_gate.load(Ordering::SeqCst) {
            self.gate2(true).await;
        }
    }
}

#[derive(Clone)]
pub struct GateDb {
    pub inner: AsyncInMemoryDatabase,
    pub ctl: Arc<Ctl>,
}
#[async_trait::async_trait]
impl Database for GateDb {
    async fn set(&self, r: DbRecord) -> Result<(), StorageError> {
        self.ctl.gate().await;
        let x = self.inner.set(r).await;
        self.ctl.after().await;
        x
    }
    async fn batch_set(&self, r: Vec<DbRecord>, s: DbSetState) -> Result<(), StorageError> {
        self.ctl.gate().await;
        let d = self.ctl.write_delay_ms.load(Ordering::SeqCst);
        if d > 0 {
            tokio::time::sleep(Duration::from_millis(d as u64)).await;
        }
        if matches!(s, DbSetState::TransactionCommit) && self.ctl.fail_next_commit.swap(false, Ordering::SeqCst) {
            return Err(StorageError::Connection("injected: the database rejects this commit".to_string()));
        }
        let x = self.inner.batch_set(r, s).await;
        self.ctl.after().await;
        x
    }
    async fn get<St: Storable>(&self, id: &St::StorageKey) -> Result<DbRecord, StorageError> {
        self.ctl.gate().await;
        let x = self.inner.get::<St>(id).await;
        self.ctl.after().await;
        x
    }
    async fn batch_get<St: Storable>(&self, ids: &[St::StorageKey]) -> Result<Vec<DbRecord>, StorageError> {
        self.ctl.gate().await;
        let x = self.inner.batch_get::<St>(ids).await;
        self.ctl.after().await;
        x
    }
    async fn get_user_data(&self, u: &AkdLabel) -> Result<KeyData, StorageError> {
        self.ctl.gate().await;
        let x = self.inner.get_user_data(u).await;
        self.ctl.after().await;
        x
    }
    async fn get_user_state(&self, u: &AkdLabel, f: ValueStateRetrievalFlag) -> Result<ValueState, StorageError> {
        self.ctl.gate().await;
        let x = self.inner.get_user_state(u, f).await;
        self.ctl.after().await;
        x
    }
    async fn get_user_state_versions(&self, u: &[AkdLabel], f: ValueStateRetrievalFlag) -> Result<HashMap<AkdLabel, (u64, AkdValue)>, StorageError> {
        self.ctl.gate().await;
        let x = self.inner.get_user_state_versions(u, f).await;
        self.ctl.after().await;
        x
    }
}

type GDir<TC> = Directory<TC, GateDb, HardCodedAkdVRF>;

async fn gdir<TC: Configuration>(db: &GateDb, cached: bool) -> GDir<TC> {
    let st = if cached { StorageManager::new(db.clone(), Some(Duration::from_secs(3600)), None, Some(Duration::from_secs(3600))) } else { StorageManager::new_no_cache(db.clone()) };
    Directory::<TC, _, _>::new(st, HardCodedAkdVRF {}, AzksParallelismConfig::disabled()).await.unwrap()
}
fn upd(b: &[(Vec<u8>, Vec<u8>)]) -> Vec<(AkdLabel, AkdValue)> {
    b.iter().map(|(l, v)| (AkdLabel(l.clone()), AkdValue(v.clone()))).collect()
}

/// drives the spawned tasks under `schedule`; afterwards everything runs freely to completion
async fn drive<T: Send + 'static>(ctl: &Arc<Ctl>, handles: &mut Vec<tokio::task::JoinHandle<T>>, schedule: &[usize]) {
    drive_ex(ctl, handles, schedule, &|_| Box::pin(async {})).await
}

/// as `drive`; schedule entries that name no task are handed to `other` (an action of the environment, run by the controller)
async fn drive_ex<T: Send + 'static>(
    ctl: &Arc<Ctl>,
    handles: &mut Vec<tokio::task::JoinHandle<T>>,
    schedule: &[usize],
    other: &dyn Fn(usize) -> std::pin::Pin<Box<dyn std::future::Future<Output = ()>>>,
) {
    let spin = |n: usize| async move {
        for _ in 0..n {
            tokio::task::yield_now().await;
        }
    };
    // let every task reach its first gate (or finish / block)
    spin(20 * handles.len()).await;
    for &t in schedule {
        if t >= handles.len() {
            other(t).await;
            continue;
        }
        if handles[t].is_finished() || !(ctl.waiting[t].load(Ordering::SeqCst) > 0) {
            continue;
        }
        ctl.sems[t].add_permits(1);
        // run until the task parks again, finishes, or blocks on something that is not storage
        let mut k = 0;
        loop {
            tokio::task::yield_now().await;
            k += 1;
            if handles[t].is_finished() || ((ctl.waiting[t].load(Ordering::SeqCst) > 0) && ctl.sems[t].available_permits() == 0) || k > 300 {
                break;
            }
        }
    }
    ctl.free_run.store(true, Ordering::SeqCst);
    for s in &ctl.sems {
        s.add_permits(1_000_000);
    }
}

pub enum Job {
    Publish(Vec<(Vec<u8>, Vec<u8>)>),
    Lookup(Vec<u8>),
    History(Vec<u8>),
    HistoryRecent(Vec<u8>, usize),
    Audit(u64, u64),
    EpochHash,
}
pub enum Outcome {
    Published(Result<EpochHash, String>),
    /// (epoch, hash, verified?) of an answered reader request, or the error
    Read(Result<(u64, [u8; 32], bool, String), String>),
}

async fn run_job<TC: Configuration>(dir: GDir<TC>, job: Job, pk: Vec<u8>, hashes_for_audit: Arc<std::sync::Mutex<Vec<[u8; 32]>>>) -> Outcome {
    match job {
        Job::Publish(b) => Outcome::Published(dir.publish(upd(&b)).await.map_err(|e| format!("{:?}", e))),
        Job::Lookup(l) => Outcome::Read(match dir.lookup(AkdLabel(l.clone())).await {
            Ok((p, e)) => {
                let v = lookup_verify::<TC>(&pk, e.1, e.0, AkdLabel(l.clone()), p);
                Ok((e.0, e.1, v.is_ok(), format!("lookup {} -> {:?}", hb(&l), v.map(|r| (r.version, r.epoch)))))
            }
            Err(e) => Err(format!("{:?}", e)),
        }),
        Job::History(l) => Outcome::Read(match dir.key_history(&AkdLabel(l.clone()), HistoryParams::Complete).await {
            Ok((p, e)) => {
                let v = key_history_verify::<TC>(&pk, e.1, e.0, AkdLabel(l.clone()), p, HistoryVerificationParams::Default { history_params: HistoryParams::Complete });
                Ok((e.0, e.1, v.is_ok(), format!("key_history {} -> {:?}", hb(&l), v.map(|r| r.len()))))
            }
            Err(e) => Err(format!("{:?}", e)),
        }),
        Job::HistoryRecent(l, n) => Outcome::Read(match dir.key_history(&AkdLabel(l.clone()), HistoryParams::MostRecent(n)).await {
            Ok((p, e)) => {
                let v = key_history_verify::<TC>(&pk, e.1, e.0, AkdLabel(l.clone()), p, HistoryVerificationParams::Default { history_params: HistoryParams::MostRecent(n) });
                Ok((e.0, e.1, v.is_ok(), format!("key_history(most recent {}) {} -> {:?}", n, hb(&l), v.map(|r| r.iter().map(|x| x.version).collect::<Vec<_>>()))))
            }
            Err(e) => Err(format!("{:?}", e)),
        }),
        Job::Audit(s, e) => Outcome::Read(match dir.audit(s, e).await {
            Ok(p) => {
                // verified later against the published hashes (the reader does not know them)
                let hs = hashes_for_audit.lock().unwrap().clone();
                if (e as usize) < hs.len() {
                    let v = akd::auditor::audit_verify::<TC>(hs[s as usize..=e as usize].to_vec(), p).await;
                    Ok((e, hs[e as usize], v.is_ok(), format!("audit {} {} -> {:?}", s, e, v.is_ok())))
                } else {
                    Ok((e, [0u8; 32], false, format!("audit {} {} answered for an unpublished epoch", s, e)))
                }
            }
            Err(e) => Err(format!("{:?}", e)),
        }),
        Job::EpochHash => Outcome::Read(match dir.get_epoch_hash().await {
            Ok(e) => Ok((e.0, e.1, true, "get_epoch_hash".into())),
            Err(e) => Err(format!("{:?}", e)),
        }),
    }
}

fn base_history() -> (Vec<Vec<(Vec<u8>, Vec<u8>)>>, Vec<Vec<u8>>) {
    let labels: Vec<Vec<u8>> = (0..12u8).map(|i| vec![b's', i]).collect();
    let mut e1: Vec<(Vec<u8>, Vec<u8>)> = labels.iter().skip(4).map(|l| (l.clone(), vec![1, l[1]])).collect();
    e1.push((labels[0].clone(), vec![1, 0]));
    e1.push((labels[1].clone(), vec![1, 1]));
    let base = vec![e1, vec![(labels[0].clone(), vec![2, 0]), (labels[2].clone(), vec![2, 2])]];
    (base, labels)
}

/// C12: two or three publishes on clones of one directory
async fn c12_case<TC: Configuration>(cx: &mut Cx, cached: bool, batches: &[Vec<(Vec<u8>, Vec<u8>)>], schedule: &[usize]) {
    let cfg = cfg_name::<TC>();
    let (base, _labels) = base_history();
    let ctl = Ctl::new(batches.len());
    let db = GateDb { inner: AsyncInMemoryDatabase::new(), ctl: ctl.clone() };
    let dir = gdir::<TC>(&db, cached).await;
    let mut hashes = vec![dir.get_epoch_hash().await.unwrap().1];
    for b in &base {
        hashes.push(dir.publish(upd(b)).await.unwrap().1);
    }
    let base_epoch = base.len() as u64;
    let pk = HardCodedAkdVRF {}.get_vrf_public_key().await.unwrap().as_bytes().to_vec();
    ctl.free_run.store(false, Ordering::SeqCst);
    let hs = Arc::new(std::sync::Mutex::new(vec![]));
    let mut handles = vec![];
    for (i, b) in batches.iter().enumerate() {
        let d = dir.clone();
        let job = Job::Publish(b.clone());
        let pk2 = pk.clone();
        let hs2 = hs.clone();
        handles.push(tokio::spawn(TASK.scope(i, async move { run_job::<TC>(d, job, pk2, hs2).await })));
    }
    // schedule entry 8: a minute passes on the clock while everybody stays where they are (a task parked at a storage
    // operation is a slow storage operation)
    drive_ex(&ctl, &mut handles, schedule, &|t| {
        Box::pin(async move {
            if t == 8 {
                tokio::time::pause();
                tokio::time::advance(Duration::from_secs(60)).await;
                tokio::time::resume();
                for _ in 0..50 {
                    tokio::task::yield_now().await;
                }
            }
        })
    })
    .await;
    let mut results = vec![];
    for h in handles {
        match tokio::time::timeout(Duration::from_secs(20), h).await {
            Ok(Ok(Outcome::Published(r))) => results.push(r),
            _ => {
                cx.fail(format!("C12 [cfg {} cached {} schedule {:?}]: a publish task did not finish", cfg, cached, schedule));
                return;
            }
        }
    }
    cx.stat("c12_schedules");
    let what = format!("[cfg {} cached {} {} publishes schedule {}]", cfg, cached, batches.len(), schedule.iter().map(|x| x.to_string()).collect::<String>());
    cx.note(format!("C12 {} -> {:?}", what, results.iter().map(|r| r.as_ref().map(|e| e.0).map_err(|_| ())).collect::<Vec<_>>()));
    // the protocol model (Sched.v) run under the same schedule must hand out the same epochs
    cx.emit(format!("c12 {} {} {}", batches.len(), base_epoch, schedule.iter().filter(|x| **x != 8).map(|x| x.to_string()).collect::<String>()), results.iter().map(|r| r.as_ref().map(|e| e.0).unwrap_or(0).to_string()).collect::<Vec<_>>().join(" "));
    // successful calls that changed the directory, ordered by returned epoch
    let mut ok: Vec<(u64, [u8; 32], usize)> = results.iter().enumerate().filter_map(|(i, r)| r.as_ref().ok().map(|e| (e.0, e.1, i))).collect();
    ok.sort_by_key(|x| x.0);
    let epochs: Vec<u64> = ok.iter().map(|x| x.0).collect();
    let want: Vec<u64> = (1..=ok.len() as u64).map(|k| base_epoch + k).collect();
    if epochs != want {
        cx.fail(format!("C12 {}: the successful publishes returned epochs {:?}, expected the distinct consecutive epochs {:?} (results {:?})", what, epochs, want, results.iter().map(|r| r.as_ref().map(|e| e.0).map_err(|e| e.chars().take(40).collect::<String>())).collect::<Vec<_>>()));
        return;
    }
    // serial application in epoch order on a fresh directory
    let sdb = AsyncInMemoryDatabase::new();
    let sdir = Directory::<TC, _, _>::new(StorageManager::new_no_cache(sdb.clone()), HardCodedAkdVRF {}, AzksParallelismConfig::disabled()).await.unwrap();
    for b in &base {
        sdir.publish(upd(b)).await.unwrap();
    }
    let mut serial_hashes = hashes.clone();
    for (_, _, i) in &ok {
        serial_hashes.push(sdir.publish(upd(&batches[*i])).await.unwrap().1);
    }
    if canon_dump(db.inner.batch_get_all_direct().await.unwrap()) != canon_dump(sdb.batch_get_all_direct().await.unwrap()) {
        cx.fail(format!("C12 {}: the final database differs from applying the successful batches one after another in epoch order", what));
        return;
    }
    for (k, (e, h, _)) in ok.iter().enumerate() {
        if serial_hashes[base.len() + 1 + k] != *h {
            cx.fail(format!("C12 {}: the pair (epoch {}, hash {}) returned by a publish is not the hash of that epoch ({})", what, e, hx(h), hx(&serial_hashes[base.len() + 1 + k])));
            return;
        }
    }
    if !ok.is_empty() {
        let last = ok.last().unwrap().0;
        let fresh = Directory::<TC, _, _>::new(StorageManager::new_no_cache(db.inner.clone()), HardCodedAkdVRF {}, AzksParallelismConfig::disabled()).await.unwrap();
        match fresh.audit(0, last).await {
            Ok(p) => {
                if akd::auditor::audit_verify::<TC>(serial_hashes[..=last as usize].to_vec(), p).await.is_err() {
                    cx.fail(format!("C12 {}: the audit proof over the returned (epoch, hash) pairs does not verify", what));
                }
            }
            Err(e) => cx.fail(format!("C12 {}: audit failed after the publishes: {:?}", what, e)),
        }
    }
}

/// C12 with tasks the library detaches: publish A runs with parallel preloading over a cold cache while the storage
/// operations of the tasks it spawns are held back as long as A itself can make progress (they are parked after the
/// database has answered, before the manager sees the answer); then publish B runs.  If A does not wait for what it
/// spawned, an answer read before A's commit reaches the cache after it, and B builds on stale records.
async fn c12_detached<TC: Configuration>(cx: &mut Cx, batch_a: &[(Vec<u8>, Vec<u8>)], batch_b: &[(Vec<u8>, Vec<u8>)]) {
    let cfg = cfg_name::<TC>();
    let (base, _labels) = base_history();
    let ctl = Ctl::new(3);
    let db = GateDb { inner: AsyncInMemoryDatabase::new(), ctl: ctl.clone() };
    {
        let d0 = gdir::<TC>(&db, false).await;
        for b in &base {
            d0.publish(upd(b)).await.unwrap();
        }
    }
    // a fresh manager: cold cache, parallel preloading and insertion
    let st = StorageManager::new(db.clone(), Some(Duration::from_secs(3600)), None, Some(Duration::from_secs(3600)));
    let dir = Directory::<TC, _, _>::new(st, HardCodedAkdVRF {}, AzksParallelismConfig::default()).await.unwrap();
    let what = format!("[cfg {} detached-task schedule, cold cache, parallel preload]", cfg);
    ctl.bg.store(2, Ordering::SeqCst);
    ctl.post_gate.store(true, Ordering::SeqCst);
    ctl.free_run.store(false, Ordering::SeqCst);
    let da = dir.clone();
    let ba = batch_a.to_vec();
    let ha = tokio::spawn(TASK.scope(0, async move { da.publish(upd(&ba)).await.map_err(|e| format!("{:?}", e)) }));
    let mut idle = 0usize;
    let mut steps = 0usize;
    while !ha.is_finished() && steps < 200_000 {
        steps += 1;
        tokio::task::yield_now().await;
        if (ctl.waiting[0].load(Ordering::SeqCst) > 0) && ctl.sems[0].available_permits() == 0 {
            ctl.sems[0].add_permits(1);
            idle = 0;
        } else {
            idle += 1;
            // A cannot move by itself: let one held-back operation of a spawned task through
            if idle > 50 && ctl.release_bg_newest() {
                if std::env::var("VERIF_DEBUG").is_ok() { eprintln!("c12_detached: grant bg at step {}", steps); }
                idle = 0;
            }
        }
    }
    if std::env::var("VERIF_DEBUG").is_ok() { eprintln!("c12_detached: steps {} A finished {} bg waiting {} ops {}", steps, ha.is_finished(), (ctl.waiting[2].load(Ordering::SeqCst) > 0), ctl.ops.load(Ordering::SeqCst)); }
    if ctl.waiting[2].load(Ordering::SeqCst) > 0 {
        cx.stat("c12_detached_ops_outliving_publish");
    }
    ctl.free_run.store(true, Ordering::SeqCst);
    ctl.release_bg_all();
    for s in &ctl.sems {
        s.add_permits(1_000_000);
    }
    let ra = match tokio::time::timeout(Duration::from_secs(20), ha).await {
        Ok(Ok(r)) => r,
        _ => {
            cx.fail(format!("C12 {}: publish A did not finish", what));
            return;
        }
    };
    for _ in 0..200 {
        tokio::task::yield_now().await;
    }
    let rb = dir.publish(upd(batch_b)).await.map_err(|e| format!("{:?}", e));
    cx.stat("c12_detached");
    // serial reference
    let sdb = AsyncInMemoryDatabase::new();
    let sdir = Directory::<TC, _, _>::new(StorageManager::new_no_cache(sdb.clone()), HardCodedAkdVRF {}, AzksParallelismConfig::disabled()).await.unwrap();
    let mut serial = vec![sdir.get_epoch_hash().await.unwrap().1];
    for b in &base {
        serial.push(sdir.publish(upd(b)).await.unwrap().1);
    }
    let sa = sdir.publish(upd(batch_a)).await.unwrap();
    let sb = sdir.publish(upd(batch_b)).await.unwrap();
    match (&ra, &rb) {
        (Ok(a), Ok(b)) => {
            if (a.0, a.1) != (sa.0, sa.1) || (b.0, b.1) != (sb.0, sb.1) {
                cx.fail(format!("C12 {}: the publishes returned ({}, {}) and ({}, {}) but applying them one after another gives ({}, {}) and ({}, {})", what, a.0, hx(&a.1), b.0, hx(&b.1), sa.0, hx(&sa.1), sb.0, hx(&sb.1)));
                return;
            }
        }
        _ => {
            cx.fail(format!("C12 {}: a publish failed: {:?} {:?}", what, ra.as_ref().map(|e| e.0), rb.as_ref().map(|e| e.0)));
            return;
        }
    }
    if canon_dump(db.inner.batch_get_all_direct().await.unwrap()) != canon_dump(sdb.batch_get_all_direct().await.unwrap()) {
        cx.fail(format!("C12 {}: the final database differs from applying the batches one after another", what));
    }
}

/// K3: a reader and a publisher on ONE storage manager whose cache is cold (a directory re-created over an existing
/// database, an expired or flushed entry).  The reader is parked after k gate passages (in particular between the
/// database's answer and the manager's use of it), the publisher runs to completion, the reader resumes.  Afterwards
/// every label is looked up through the same directory and a further publish is compared with serial application.
/// Returns the failures found (attributed by the caller).
async fn k3_case<TC: Configuration>(k: usize, reader_label: usize, cache_point: bool) -> Vec<String> {
    let cfg = cfg_name::<TC>();
    let mut fails = vec![];
    let (base, labels) = base_history();
    let ctl = Ctl::new(2);
    let db = GateDb { inner: AsyncInMemoryDatabase::new(), ctl: ctl.clone() };
    let mut hashes;
    {
        let d0 = gdir::<TC>(&db, false).await;
        hashes = vec![d0.get_epoch_hash().await.unwrap().1];
        for b in &base {
            hashes.push(d0.publish(upd(b)).await.unwrap().1);
        }
    }
    let dir = gdir::<TC>(&db, true).await; // cold cache
    let pk = HardCodedAkdVRF {}.get_vrf_public_key().await.unwrap().as_bytes().to_vec();
    let batch_a: Vec<(Vec<u8>, Vec<u8>)> = vec![(labels[0].clone(), vec![50, 0]), (labels[3].clone(), vec![50, 3]), (vec![b'n', 1], vec![50, 9])];
    let batch_b: Vec<(Vec<u8>, Vec<u8>)> = vec![(vec![b'n', 2], vec![51, 1])];
    if cache_point {
        // park where a task is about to store records in the cache (hook) instead of just after the database's answer
        let c = ctl.clone();
        akd::storage::cache::high_parallelism::verif_hook::set(Some(Arc::new(move || {
            let c = c.clone();
            Box::pin(async move { c.gate().await })
        })));
    } else {
        ctl.post_gate.store(true, Ordering::SeqCst);
    }
    ctl.free_run.store(false, Ordering::SeqCst);
    let mut handles = vec![];
    {
        let d = dir.clone();
        let b = batch_a.clone();
        handles.push(tokio::spawn(TASK.scope(0, async move { d.publish(upd(&b)).await.map(|e| (e.0, e.1, true)).map_err(|e| format!("{:?}", e)) })));
        let d = dir.clone();
        let l = labels[reader_label].clone();
        let pk2 = pk.clone();
        handles.push(tokio::spawn(TASK.scope(1, async move {
            match d.lookup(AkdLabel(l.clone())).await {
                Ok((p, e)) => Ok((e.0, e.1, lookup_verify::<TC>(&pk2, e.1, e.0, AkdLabel(l), p).is_ok())),
                Err(e) => Err(format!("{:?}", e)),
            }
        })));
    }
    // reader: k gate passages; then the publisher until it is done; then everything else
    let mut sched = vec![1usize; k];
    sched.extend(vec![0usize; 400]);
    sched.extend(vec![1usize; 400]);
    drive(&ctl, &mut handles, &sched).await;
    akd::storage::cache::high_parallelism::verif_hook::set(None);
    let mut outs = vec![];
    for h in handles {
        match tokio::time::timeout(Duration::from_secs(20), h).await {
            Ok(Ok(o)) => outs.push(o),
            _ => {
                fails.push(format!("[cfg {} k {}]: a task did not finish", cfg, k));
                return fails;
            }
        }
    }
    let what = format!("[cfg {} cold shared cache, reader of label #{} parked after {} gate passages{} while a publish completes]", cfg, reader_label, k, if cache_point { " (gates: before each database call and before each cache update)" } else { "" });
    match &outs[0] {
        Ok((e, h, _)) => hashes.push({ let _ = e; *h }),
        Err(e) => {
            fails.push(format!("{}: the publish failed: {}", what, e));
            return fails;
        }
    }
    if let Ok((e, h, v)) = &outs[1] {
        if (*e as usize) >= hashes.len() || hashes[*e as usize] != *h {
            fails.push(format!("C13 {}: the reader's answer names (epoch {}, {}) which was never published", what, e, hx(h)));
        } else if !*v {
            fails.push(format!("C13 {}: the reader's answer names the published pair (epoch {}, {}) but does not verify", what, e, hx(h)));
        }
    }
    // what the shared cache serves afterwards
    let now = dir.get_epoch_hash().await.unwrap();
    if now.1 != *hashes.last().unwrap() {
        fails.push(format!("C16 {}: the directory now reports ({}, {}) but the publish returned {}", what, now.0, hx(&now.1), hx(hashes.last().unwrap())));
    }
    for l in labels.iter().take(6) {
        if let Ok((p, e)) = dir.lookup(AkdLabel(l.clone())).await {
            if lookup_verify::<TC>(&pk, e.1, e.0, AkdLabel(l.clone()), p).is_err() {
                fails.push(format!("C16 {}: afterwards the lookup proof of {} served through the shared cache does not verify against ({}, {}) - a record older than the database's is cached", what, hb(l), e.0, hx(&e.1)));
                break;
            }
        }
    }
    // a further publish builds on what the cache holds
    let rb = dir.publish(upd(&batch_b)).await;
    let sdb = AsyncInMemoryDatabase::new();
    let sdir = Directory::<TC, _, _>::new(StorageManager::new_no_cache(sdb.clone()), HardCodedAkdVRF {}, AzksParallelismConfig::disabled()).await.unwrap();
    for b in &base {
        sdir.publish(upd(b)).await.unwrap();
    }
    sdir.publish(upd(&batch_a)).await.unwrap();
    let sb = sdir.publish(upd(&batch_b)).await.unwrap();
    match rb {
        Ok(b) => {
            if (b.0, b.1) != (sb.0, sb.1) {
                fails.push(format!("C12 {}: the next publish returned ({}, {}) but serial application gives ({}, {})", what, b.0, hx(&b.1), sb.0, hx(&sb.1)));
            }
        }
        Err(e) => fails.push(format!("C12 {}: the next publish failed: {:?}", what, e)),
    }
    fails
}

/// entry point used by the checks and by the K3 probe
pub fn k3_probe(tier: u32) -> Vec<String> {
    let rt = tokio::runtime::Builder::new_current_thread().enable_all().build().unwrap();
    let mut all = vec![];
    rt.block_on(async {
        let kmax = if tier == 0 { 14 } else { 40 };
        for k in 1..=kmax {
            for rl in [0usize, 4] {
                all.extend(k3_case::<W>(k, rl, false).await);
                all.extend(k3_case::<W>(k, rl, true).await);
                if tier != 0 {
                    all.extend(k3_case::<E>(k, rl, false).await);
                }
            }
        }
    });
    all
}

fn preempt_schedules(r: &mut Rng, ntasks: usize, max_ops: usize, count: usize, exhaustive: bool) -> Vec<Vec<usize>> {
    let mut out = vec![];
    if exhaustive && ntasks == 2 {
        for i in 0..=max_ops {
            for j in 0..=max_ops {
                let mut s = vec![0; i];
                s.extend(vec![1; j]);
                s.extend(vec![0; max_ops + 2]);
                s.extend(vec![1; max_ops + 2]);
                out.push(s);
            }
        }
        if out.len() > count {
            r.shuffle(&mut out);
            out.truncate(count);
        }
        return out;
    }
    for _ in 0..count {
        // up to 3 pre-emptions, then random
        let mut s = vec![];
        let segs = 2 + r.below(3) as usize;
        for _ in 0..segs {
            let t = r.below(ntasks as u64) as usize;
            let k = r.below(max_ops as u64 + 1) as usize;
            s.extend(vec![t; k]);
        }
        for t in 0..ntasks {
            s.extend(vec![t; max_ops + 2]);
        }
        out.push(s);
    }
    out
}

/// C13: a reader request interleaved with a publish, on the writer instance or on a separate
/// (cached) instance whose view lags behind storage
async fn c13_case<TC: Configuration>(cx: &mut Cx, r: &mut Rng, reader_cached: bool, lag: u64, same_instance: bool, job_kind: u32, schedule: &[usize], post: bool) {
    let cfg = cfg_name::<TC>();
    let (base, labels) = base_history();
    let ctl = Ctl::new(2);
    let db = GateDb { inner: AsyncInMemoryDatabase::new(), ctl: ctl.clone() };
    let writer = gdir::<TC>(&db, false).await;
    let mut hashes = vec![writer.get_epoch_hash().await.unwrap().1];
    for b in &base {
        hashes.push(writer.publish(upd(b)).await.unwrap().1);
    }
    // the reader instance looks at the directory now (fills its cache) ...
    let reader = if same_instance { writer.clone() } else { gdir::<TC>(&db, reader_cached).await };
    let _ = reader.get_epoch_hash().await;
    if job_kind % 2 == 0 {
        let _ = reader.lookup(AkdLabel(labels[0].clone())).await;
    }
    // ... and the writer moves on by `lag` epochs without the reader noticing
    for k in 0..lag {
        let b: Vec<(Vec<u8>, Vec<u8>)> = labels.iter().enumerate().filter(|(i, _)| (*i as u64 + k) % 2 == 0).map(|(_, l)| (l.clone(), vec![10 + k as u8, 1])).collect();
        hashes.push(writer.publish(upd(&b)).await.unwrap().1);
    }
    let pk = HardCodedAkdVRF {}.get_vrf_public_key().await.unwrap().as_bytes().to_vec();
    let final_batch = vec![(labels[0].clone(), vec![99, 1]), (labels[3].clone(), vec![99, 2])];
    let shared_hashes = Arc::new(std::sync::Mutex::new(hashes.clone()));
    let cur = hashes.len() as u64 - 1;
    let job = match job_kind {
        0 => Job::Lookup(labels[0].clone()),
        1 => Job::History(labels[0].clone()),
        2 => Job::Audit(r.below(cur), cur),
        3 => Job::Lookup(labels[2].clone()),
        5 => Job::HistoryRecent(labels[0].clone(), 1),
        6 => Job::HistoryRecent(labels[0].clone(), 2),
        7 => Job::HistoryRecent(labels[2].clone(), 1),
        // audits inside what the (possibly lagging) reader itself has seen
        8 => Job::Audit(0, base.len() as u64),
        9 => Job::Audit(base.len() as u64 - 1, base.len() as u64),
        _ => Job::EpochHash,
    };
    // post: tasks can also be preempted between a storage operation and its return to the caller
    ctl.post_gate.store(post, Ordering::SeqCst);
    ctl.free_run.store(false, Ordering::SeqCst);
    let mut handles = vec![];
    {
        let d = writer.clone();
        let pk2 = pk.clone();
        let hs2 = shared_hashes.clone();
        handles.push(tokio::spawn(TASK.scope(0, async move { run_job::<TC>(d, Job::Publish(final_batch), pk2, hs2).await })));
        let d = reader.clone();
        let pk2 = pk.clone();
        let hs2 = shared_hashes.clone();
        handles.push(tokio::spawn(TASK.scope(1, async move { run_job::<TC>(d, job, pk2, hs2).await })));
    }
    drive(&ctl, &mut handles, schedule).await;
    let mut outs = vec![];
    for h in handles {
        match tokio::time::timeout(Duration::from_secs(20), h).await {
            Ok(Ok(o)) => outs.push(o),
            _ => {
                cx.fail(format!("C13 [cfg {}]: a task did not finish", cfg));
                return;
            }
        }
    }
    cx.stat("c13_schedules");
    if let Outcome::Published(Ok(e)) = &outs[0] {
        hashes.push(e.1);
    }
    cx.note(format!("C13 cfg {} same {} cached {} lag {} job {} schedule {} -> {}", cfg, same_instance, reader_cached, lag, job_kind, schedule.iter().map(|x| x.to_string()).collect::<String>(), match &outs[1] { Outcome::Read(Ok((e, _, v, _))) => format!("answer epoch {} verified {}", e, v), _ => "error".into() }));
    let what = format!("[cfg {} reader {} lag {} job {} post-gates {} schedule {}]", cfg, if same_instance { "same instance".to_string() } else { format!("separate instance cached {}", reader_cached) }, lag, job_kind, post, schedule.iter().map(|x| x.to_string()).collect::<String>());
    if let Outcome::Read(Ok((e, h, verified, desc))) = &outs[1] {
        cx.stat("c13_answers");
        if job_kind == 2 || job_kind == 8 || job_kind == 9 {
            if !*verified {
                cx.fail(format!("C13 {}: {} does not verify against the published hashes", what, desc));
            }
        } else if (*e as usize) >= hashes.len() || hashes[*e as usize] != *h {
            cx.fail(format!("C13 {}: the answer names (epoch {}, hash {}) which the directory never published (hash of that epoch: {}) [{}]", what, e, hx(h), hashes.get(*e as usize).map(|x| hx(x)).unwrap_or("none".into()), desc));
        } else if !*verified {
            cx.fail(format!("C13 {}: the answer names the published pair (epoch {}, {}) but its proof does not verify against it [{}]", what, e, hx(h), desc));
        }
    } else {
        cx.stat("c13_errors");
    }
}

/// C13: once change polling has signalled a new epoch, later requests are answered from an epoch at least that new
async fn c13_poll<TC: Configuration>(cx: &mut Cx) {
    let cfg = cfg_name::<TC>();
    let (base, labels) = base_history();
    let ctl = Ctl::new(1);
    let db = GateDb { inner: AsyncInMemoryDatabase::new(), ctl: ctl.clone() };
    let writer = gdir::<TC>(&db, false).await;
    for b in &base {
        writer.publish(upd(b)).await.unwrap();
    }
    let reader = gdir::<TC>(&db, true).await;
    let _ = reader.lookup(AkdLabel(labels[0].clone())).await;
    let (tx, mut rx) = tokio::sync::mpsc::channel(4);
    let rd = reader.clone();
    let poller = tokio::spawn(async move {
        let _ = rd.poll_for_azks_changes(Duration::from_millis(3), Some(tx)).await;
    });
    for k in 0..3u8 {
        let eh = writer.publish(upd(&[(labels[1].clone(), vec![50 + k, 0])])).await.unwrap();
        match tokio::time::timeout(Duration::from_secs(5), rx.recv()).await {
            Ok(Some(())) => {
                let both = tokio::time::timeout(Duration::from_secs(20), async { (reader.get_epoch_hash().await, reader.lookup(AkdLabel(labels[1].clone())).await) }).await;
                let (got, lk) = match both {
                    Ok(x) => x,
                    Err(_) => {
                        cx.fail(format!("C13 [cfg {}]: requests after a poll signal did not return within 20 s (requests and the poller block each other)", cfg));
                        poller.abort();
                        return;
                    }
                };
                cx.stat("c13_poll_rounds");
                match (got, lk) {
                    (Ok(g), Ok((_, le))) => {
                        if g.0 < eh.0 || le.0 < eh.0 {
                            cx.fail(format!("C13 [cfg {}]: after the poller signalled epoch {} the instance answered from epoch {} / {}", cfg, eh.0, g.0, le.0));
                        }
                    }
                    (a, b) => cx.fail(format!("C13 [cfg {}]: requests after a poll signal failed: {:?} {:?}", cfg, a.map(|x| x.0), b.map(|x| x.1 .0))),
                }
            }
            _ => cx.fail(format!("C13 [cfg {}]: the poller did not signal the new epoch {}", cfg, eh.0)),
        }
    }
    poller.abort();
}

/// C13: a request whose storage read was served before a commit but is delivered after the change poller
/// flushed the cache must not leave the instance answering (new epoch, old root).  The reader's request is
/// parked after k storage operations (before or after the operation itself), the writer publishes, the
/// poller gets its chance, then the reader continues.
/// kind: 0 lookup on a warm instance; 1 get_epoch_hash, 2 lookup, 3 key_history, 4 audit on an instance that holds only the
/// epoch record (the state right after a flush)
async fn c13_poll_race<TC: Configuration>(cx: &mut Cx, k: usize, kind: u8) {
    let cfg = cfg_name::<TC>();
    let (base, labels) = base_history();
    let ctl = Ctl::new(1);
    let db = GateDb { inner: AsyncInMemoryDatabase::new(), ctl: ctl.clone() };
    let writer = gdir::<TC>(&db, false).await;
    let mut hashes = vec![writer.get_epoch_hash().await.unwrap().1];
    for b in &base {
        hashes.push(writer.publish(upd(b)).await.unwrap().1);
    }
    let reader = gdir::<TC>(&db, true).await;
    if kind == 0 {
        let _ = reader.get_epoch_hash().await;
    }
    // (for the epoch-hash request the instance holds nothing but the epoch record - the state right after a flush)
    let pk = HardCodedAkdVRF {}.get_vrf_public_key().await.unwrap().as_bytes().to_vec();
    let (tx, mut rx) = tokio::sync::mpsc::channel(8);
    let rd = reader.clone();
    let poller = tokio::spawn(async move {
        let _ = rd.poll_for_azks_changes(Duration::from_millis(2), Some(tx)).await;
    });
    ctl.post_gate.store(true, Ordering::SeqCst);
    ctl.free_run.store(false, Ordering::SeqCst);
    let rd = reader.clone();
    let l0 = labels[0].clone();
    let h = tokio::spawn(TASK.scope(0, async move {
        match kind {
            1 => rd.get_epoch_hash().await.map(|e| (e.0, e.1)).map_err(|e| format!("{:?}", e)),
            3 => rd.key_history(&AkdLabel(l0), HistoryParams::Complete).await.map(|(_, e)| (e.0, e.1)).map_err(|e| format!("{:?}", e)),
            4 => {
                // an audit names no epoch hash of its own: report the current one afterwards
                match rd.audit(1, 2).await {
                    Ok(_) => rd.get_epoch_hash().await.map(|e| (e.0, e.1)).map_err(|e| format!("{:?}", e)),
                    Err(e) => Err(format!("{:?}", e)),
                }
            }
            _ => rd.lookup(AkdLabel(l0)).await.map(|(_, e)| (e.0, e.1)).map_err(|e| format!("{:?}", e)),
        }
    }));
    // let the request perform k gate passages, then leave it parked
    for _ in 0..k {
        for _ in 0..200 {
            tokio::task::yield_now().await;
            if (ctl.waiting[0].load(Ordering::SeqCst) > 0) || h.is_finished() {
                break;
            }
        }
        if h.is_finished() {
            break;
        }
        ctl.sems[0].add_permits(1);
    }
    for _ in 0..200 {
        tokio::task::yield_now().await;
    }
    // the writer commits an epoch touching the same paths; the poller may notice
    let b: Vec<(Vec<u8>, Vec<u8>)> = labels.iter().take(6).map(|l| (l.clone(), vec![42, k as u8])).collect();
    let eh = writer.publish(upd(&b)).await.unwrap();
    hashes.push(eh.1);
    let mut signalled = tokio::time::timeout(Duration::from_millis(40), rx.recv()).await.map(|x| x.is_some()).unwrap_or(false);
    // the parked request continues
    ctl.free_run.store(true, Ordering::SeqCst);
    ctl.sems[0].add_permits(1_000_000);
    let first = tokio::time::timeout(Duration::from_secs(20), h).await;
    if !signalled {
        signalled = tokio::time::timeout(Duration::from_secs(5), rx.recv()).await.map(|x| x.is_some()).unwrap_or(false);
    }
    cx.stat("c13_poll_race");
    cx.note(format!("C13 poll race cfg {} parked after {} gate passages", cfg, k));
    let what = format!("[cfg {} change poller racing {} parked after {} storage gate passages]", cfg, ["a lookup (warm instance)", "a get_epoch_hash request", "a lookup", "a key_history request", "an audit request"][kind as usize], k);
    if !signalled {
        cx.fail(format!("C13 {}: the poller never signalled epoch {}", what, eh.0));
    }
    if let Ok(Ok(Ok((e, hsh)))) = &first {
        if (*e as usize) >= hashes.len() || hashes[*e as usize] != *hsh {
            cx.fail(format!("C13 {}: the overlapping request named (epoch {}, {}) which was never published", what, e, hx(hsh)));
        }
    }
    // requests issued after the signal (with a time limit: a request that never returns is a failure, not a hang of the check)
    let after = match tokio::time::timeout(Duration::from_secs(20), reader.get_epoch_hash()).await {
        Ok(x) => x,
        Err(_) => {
            cx.fail(format!("C13 {}: get_epoch_hash after the poll signal did not return within 20 s (requests and the poller block each other)", what));
            poller.abort();
            return;
        }
    };
    match after {
        Ok(g) => {
            if (g.0 as usize) >= hashes.len() || hashes[g.0 as usize] != g.1 {
                cx.fail(format!("C13 {}: after the poll signal get_epoch_hash names (epoch {}, {}) which the directory never published (hash of that epoch: {})", what, g.0, hx(&g.1), hashes.get(g.0 as usize).map(|x| hx(x)).unwrap_or("none".into())));
            } else if g.0 < eh.0 {
                cx.fail(format!("C13 {}: after the poll signal for epoch {} the instance still answers from epoch {}", what, eh.0, g.0));
            }
        }
        Err(e) => cx.fail(format!("C13 {}: get_epoch_hash after the poll signal failed: {:?}", what, e)),
    }
    for l in [labels[0].clone(), labels[2].clone()] {
        let lk = match tokio::time::timeout(Duration::from_secs(20), reader.lookup(AkdLabel(l.clone()))).await {
            Ok(x) => x,
            Err(_) => {
                cx.fail(format!("C13 {}: a lookup after the poll signal did not return within 20 s (requests and the poller block each other)", what));
                poller.abort();
                return;
            }
        };
        match lk {
            Ok((p, e)) => {
                if (e.0 as usize) >= hashes.len() || hashes[e.0 as usize] != e.1 {
                    cx.fail(format!("C13 {}: after the poll signal a lookup names (epoch {}, {}) which was never published", what, e.0, hx(&e.1)));
                } else if lookup_verify::<TC>(&pk, e.1, e.0, AkdLabel(l.clone()), p).is_err() {
                    cx.fail(format!("C13 {}: after the poll signal the lookup proof of {} does not verify against the published pair it names (epoch {})", what, hb(&l), e.0));
                }
            }
            Err(_) => cx.stat("c13_errors"),
        }
    }
    poller.abort();
}

/// C13 on a multi-thread runtime, nothing gated: readers (get_epoch_hash, lookup) run truly in parallel with a publisher
/// on the SAME instance whose commits take a few milliseconds to reach the database; every answer must name a pair the
/// directory published (and lookups must verify against it)
fn c13_parallel<TC: Configuration>(cx: &mut Cx, publishes: usize, cached: bool, failing_commits: bool, separate_reader: bool) {
    let cfg = cfg_name::<TC>();
    let rt = tokio::runtime::Builder::new_multi_thread().worker_threads(4).enable_all().build().unwrap();
    let res: Result<(Vec<[u8; 32]>, Vec<Vec<(u64, [u8; 32], bool, u8)>>, Vec<u64>), String> = rt.block_on(async {
        let mut rejected: Vec<u64> = vec![];
        let (base, labels) = base_history();
        let ctl = Ctl::new(1);
        let db = GateDb { inner: AsyncInMemoryDatabase::new(), ctl: ctl.clone() };
        let dir = gdir::<TC>(&db, cached).await;
        let mut hashes = vec![dir.get_epoch_hash().await.map_err(|e| format!("{:?}", e))?.1];
        for b in &base {
            hashes.push(dir.publish(upd(b)).await.map_err(|e| format!("{:?}", e))?.1);
        }
        let pk = HardCodedAkdVRF {}.get_vrf_public_key().await.unwrap().as_bytes().to_vec();
        ctl.write_delay_ms.store(2, Ordering::SeqCst);
        // the instance the requests go to: the publisher's own, or a second one (its own cache) with a change poller
        let rdir = if separate_reader { gdir::<TC>(&db, true).await } else { dir.clone() };
        let poller = if separate_reader {
            let rd = rdir.clone();
            Some(tokio::spawn(async move {
                let _ = rd.poll_for_azks_changes(Duration::from_millis(1), None).await;
            }))
        } else {
            None
        };
        let done = Arc::new(AtomicBool::new(false));
        let audits: Arc<std::sync::Mutex<Vec<(u64, akd::AppendOnlyProof)>>> = Arc::new(std::sync::Mutex::new(vec![]));
        let mut readers = vec![];
        for ri in 0..5u8 {
            let audits = audits.clone();
            let (d, done, pk, l) = (rdir.clone(), done.clone(), pk.clone(), labels[(ri % 3) as usize].clone());
            readers.push(tokio::spawn(async move {
                let mut seen: Vec<(u64, [u8; 32], bool, u8)> = vec![];
                while !done.load(Ordering::SeqCst) && seen.len() < 20000 {
                    if ri == 0 {
                        if let Ok(e) = d.get_epoch_hash().await {
                            seen.push((e.0, e.1, true, 0));
                        }
                    } else if ri == 3 {
                        if let Ok((p, e)) = d.key_history(&AkdLabel(l.clone()), HistoryParams::Complete).await {
                            let v = key_history_verify::<TC>(&pk, e.1, e.0, AkdLabel(l.clone()), p, HistoryVerificationParams::Default { history_params: HistoryParams::Complete }).is_ok();
                            seen.push((e.0, e.1, v, 2));
                        }
                    } else if ri == 4 {
                        // an audit of everything up to the epoch the instance reports, checked against that epoch's pair
                        if let Ok(e) = d.get_epoch_hash().await {
                            if e.0 >= 2 {
                                if let Ok(p) = d.audit(1, e.0).await {
                                    seen.push((e.0, e.1, p.proofs.len() as u64 == e.0 - 1, 3));
                                    let mut a = audits.lock().unwrap();
                                    if a.len() < 25 {
                                        a.push((e.0, p));
                                    }
                                }
                            }
                        }
                    } else if let Ok((p, e)) = d.lookup(AkdLabel(l.clone())).await {
                        let v = lookup_verify::<TC>(&pk, e.1, e.0, AkdLabel(l.clone()), p).is_ok();
                        seen.push((e.0, e.1, v, 1));
                    }
                    tokio::task::yield_now().await;
                }
                seen
            }));
        }
        for i in 0..publishes {
            let b: Vec<(Vec<u8>, Vec<u8>)> = vec![(labels[i % 3].clone(), vec![60, i as u8]), (labels[3 + i % 5].clone(), vec![61, i as u8])];
            if failing_commits && i % 2 == 1 {
                // this publish's commit is rejected by the database: it must fail without effect
                ctl.fail_next_commit.store(true, Ordering::SeqCst);
                rejected.push(hashes.len() as u64);
                if dir.publish(upd(&b)).await.is_ok() {
                    return Err("a publish whose commit was rejected returned Ok".to_string());
                }
                continue;
            }
            hashes.push(dir.publish(upd(&b)).await.map_err(|e| format!("{:?}", e))?.1);
        }
        done.store(true, Ordering::SeqCst);
        let mut all = vec![];
        for h in readers {
            match tokio::time::timeout(Duration::from_secs(30), h).await {
                Ok(x) => all.push(x.map_err(|e| e.to_string())?),
                Err(_) => return Err("a request did not return within 30 s after the last publish (requests and the poller, or requests and the publisher, block each other)".to_string()),
            }
        }
        if let Some(p) = poller {
            p.abort();
        }
        // the audit proofs served meanwhile must verify against the published hashes
        let kept: Vec<(u64, akd::AppendOnlyProof)> = audits.lock().unwrap().drain(..).collect();
        for (e, p) in kept {
            if (e as usize) < hashes.len() && akd::auditor::audit_verify::<TC>(hashes[1..=e as usize].to_vec(), p).await.is_err() {
                return Err(format!("an audit proof for epochs 1..{} served while a publish was running does not verify against the published hashes", e));
            }
        }
        Ok((hashes, all, rejected))
    });
    cx.stat("c13_parallel_runs");
    match res {
        Err(e) => cx.fail(format!("C13 [cfg {} multi-thread runtime, readers parallel to a publisher on one instance]: {}", cfg, e)),
        Ok((hashes, all, rejected)) => {
            for seen in &all {
                *cx.stats.entry("c13_parallel_answers".to_string()).or_insert(0) += seen.len() as u64;
                for (e, h, v, kind) in seen {
                    let what = format!("[cfg {} cached {} multi-thread runtime, {} parallel to a publisher on {} whose commits take 2 ms{}]", cfg, cached, ["get_epoch_hash", "lookup", "key_history", "audit"][*kind as usize], if separate_reader { "another instance (the requests go to a cached instance with a change poller)" } else { "the same instance" }, if failing_commits { " and every second one is rejected by the database" } else { "" });
                    if (*e as usize) >= hashes.len() || hashes[*e as usize] != *h {
                        // the pair of an epoch whose commit the database rejected while the request ran (the request read the open
                        // transaction's log) - repaired by fix 0c951d0
                        if failing_commits && rejected.contains(e) && !hashes.contains(h) {
                            cx.fail(format!("C13 {}: answered (epoch {}, {}) while the publish of epoch {} was being rejected by the database; that pair was never published", what, e, hx(h), e));
                            return;
                        }
                        cx.fail(format!("C13 {}: the answer names (epoch {}, {}) which the directory never published (hash of that epoch: {}{})", what, e, hx(h), hashes.get(*e as usize).map(|x| hx(x)).unwrap_or("none".into()),
                            if *e >= 1 && hashes.get(*e as usize - 1) == Some(h) { "; the hash named is that of the epoch before" } else { "" }));
                        return;
                    } else if !*v {
                        cx.fail(format!("C13 {}: the answer names the published pair of epoch {} but its proof does not verify", what, e));
                        return;
                    }
                }
            }
        }
    }
}

/// C12 on a multi-thread runtime, nothing gated: several publishes on clones of one directory truly in parallel, with
/// commits that take a moment; the successful ones must return distinct consecutive epochs, each returned root hash must be
/// the hash of the serial application up to that batch, and the final state must be that of the serial application
fn c12_parallel<TC: Configuration>(cx: &mut Cx, rounds: usize, cached: bool, r: &mut Rng) {
    let cfg = cfg_name::<TC>();
    let rt = tokio::runtime::Builder::new_multi_thread().worker_threads(4).enable_all().build().unwrap();
    for round in 0..rounds {
        let k = 2 + r.below(3) as usize;
        let (_, labels) = base_history();
        let batches: Vec<Vec<(Vec<u8>, Vec<u8>)>> = (0..k)
            .map(|i| {
                let mut b = vec![(labels[(round + i) % 12].clone(), vec![70 + i as u8, round as u8])];
                if r.chance(1, 2) {
                    b.push((vec![b'q', round as u8, i as u8], vec![71, i as u8]));
                }
                if r.chance(1, 3) {
                    // a label shared between the parallel batches
                    b.push((labels[round % 12].clone(), vec![72 + i as u8, round as u8]));
                    b.dedup_by(|a, c| a.0 == c.0);
                }
                b
            })
            .collect();
        let what = format!("[cfg {} cached {} multi-thread runtime, {} publishes in parallel on clones, round {}]", cfg, cached, k, round);
        let res: Result<(), String> = rt.block_on(async {
            let (base, _) = base_history();
            let ctl = Ctl::new(1);
            let db = GateDb { inner: AsyncInMemoryDatabase::new(), ctl: ctl.clone() };
            let dir = gdir::<TC>(&db, cached).await;
            for b in &base {
                dir.publish(upd(b)).await.map_err(|e| format!("{:?}", e))?;
            }
            let e0 = dir.get_epoch_hash().await.map_err(|e| format!("{:?}", e))?.0;
            ctl.write_delay_ms.store(1, Ordering::SeqCst);
            let mut hs = vec![];
            for b in &batches {
                let (d, b) = (dir.clone(), b.clone());
                hs.push(tokio::spawn(async move { d.publish(upd(&b)).await.map(|e| (e.0, e.1)).map_err(|e| format!("{:?}", e)) }));
            }
            let mut outs = vec![];
            for h in hs {
                outs.push(h.await.map_err(|e| e.to_string())?);
            }
            ctl.write_delay_ms.store(0, Ordering::SeqCst);
            let mut ok: Vec<(u64, [u8; 32], usize)> = outs.iter().enumerate().filter_map(|(i, o)| o.as_ref().ok().map(|e| (e.0, e.1, i))).collect();
            ok.sort_by_key(|x| x.0);
            // serial application in epoch order
            let sdb = AsyncInMemoryDatabase::new();
            let sdir = Directory::<TC, _, _>::new(StorageManager::new_no_cache(sdb.clone()), HardCodedAkdVRF {}, AzksParallelismConfig::disabled()).await.unwrap();
            for b in &base {
                sdir.publish(upd(b)).await.unwrap();
            }
            let mut expect = e0;
            for (e, h, i) in &ok {
                let se = sdir.publish(upd(&batches[*i])).await.map_err(|e| format!("serial application failed: {:?}", e))?;
                if se.0 == expect {
                    // a batch that changes nothing returns the current epoch: allowed, it takes no epoch
                    if *e != se.0 || *h != se.1 {
                        return Err(format!("a publish that changes nothing serially returned ({}, {}) instead of ({}, {})", e, hx(h), se.0, hx(&se.1)));
                    }
                    continue;
                }
                expect += 1;
                if *e != expect {
                    return Err(format!("the successful publishes returned epochs {:?}, expected distinct consecutive ones from {}", ok.iter().map(|x| x.0).collect::<Vec<_>>(), e0 + 1));
                }
                if *h != se.1 {
                    return Err(format!("the publish that returned epoch {} returned root hash {} but applying the successful batches one after another gives {}", e, hx(h), hx(&se.1)));
                }
            }
            let fin = dir.get_epoch_hash().await.map_err(|e| format!("{:?}", e))?;
            let sfin = sdir.get_epoch_hash().await.unwrap();
            if (fin.0, fin.1) != (sfin.0, sfin.1) {
                return Err(format!("the directory ends at ({}, {}) but serial application of the successful batches ends at ({}, {})", fin.0, hx(&fin.1), sfin.0, hx(&sfin.1)));
            }
            if canon_dump(db.inner.batch_get_all_direct().await.unwrap()) != canon_dump(sdb.batch_get_all_direct().await.unwrap()) {
                return Err("the final database differs from applying the successful batches one after another".to_string());
            }
            Ok(())
        });
        cx.stat("c12_parallel_rounds");
        if let Err(e) = res {
            cx.fail(format!("C12 {}: {}", what, e));
            return;
        }
    }
}

pub fn run(seed: u64, tier: u32, which: &str) -> Cx {
    let rt = tokio::runtime::Builder::new_current_thread().enable_all().build().unwrap();
    let mut cx = Cx::new();
    let mut r = Rng::new(seed ^ 0x5C4D);
    rt.block_on(async {
        let (_, labels) = base_history();
        if which == "c12" {
            let b1 = vec![(labels[0].clone(), vec![3, 0]), (labels[3].clone(), vec![3, 3])];
            let b2 = vec![(labels[0].clone(), vec![4, 0]), (labels[1].clone(), vec![4, 1])];
            let b3 = vec![(labels[2].clone(), vec![5, 2])];
            let n2 = if tier == 0 { 60 } else { 1200 };
            for (i, s) in preempt_schedules(&mut r, 2, 24, n2, true).iter().enumerate() {
                let cached = i % 2 == 0;
                if i % 3 == 0 { c12_case::<E>(&mut cx, cached, &[b1.clone(), b2.clone()], s).await } else { c12_case::<W>(&mut cx, cached, &[b1.clone(), b2.clone()], s).await }
            }
            // the first publish is slow (a minute passes while it holds the publish lock), the other ones wait
            for k in [1usize, 3, 6, 10] {
                for variant in 0..(if tier == 0 { 5 } else { 40 }) {
                    let mut sch = vec![0usize; k];
                    sch.push(8);
                    if variant == 0 {
                        sch.extend([1, 1, 0, 1, 1, 0, 8, 1, 0, 1]);
                    } else {
                        // what the two do afterwards, at random
                        for _ in 0..(4 + r.below(30)) {
                            sch.push(if r.chance(1, 12) { 8 } else { r.below(2) as usize });
                        }
                    }
                    sch.extend(vec![0usize; 60]);
                    sch.extend(vec![1usize; 60]);
                    c12_case::<W>(&mut cx, (k + variant) % 2 == 0, &[b1.clone(), b2.clone()], &sch).await;
                    cx.stat("c12_slow_lock_holder");
                }
            }
            // a reader parked between the database's answer and the cache fill while a publish completes (cold shared cache)
            for k in 1..(if tier == 0 { 12 } else { 40 }) {
                for f in k3_case::<W>(k, if k % 2 == 0 { 0 } else { 4 }, false).await {
                    cx.fail(f);
                }
                for f in k3_case::<W>(k, if k % 2 == 0 { 4 } else { 0 }, true).await {
                    cx.fail(f);
                }
                if tier != 0 || k % 3 == 0 {
                    for f in k3_case::<E>(k, 0, k % 2 == 0).await {
                        cx.fail(f);
                    }
                }
                cx.stat("cold_cache_reader_parked");
            }
            // tasks detached by the library (parallel preloading over a cold cache)
            let ba: Vec<(Vec<u8>, Vec<u8>)> = (0..8u8).map(|i| (vec![b'd', i], vec![6, i])).collect();
            let bb: Vec<(Vec<u8>, Vec<u8>)> = vec![(vec![b'd', 100], vec![7, 0])];
            c12_detached::<W>(&mut cx, &ba, &bb).await;
            c12_detached::<E>(&mut cx, &ba[..3].to_vec(), &vec![(vec![b'd', 101], vec![7, 1]), (labels[5].clone(), vec![7, 2])]).await;
            let n3 = if tier == 0 { 25 } else { 600 };
            for (i, s) in preempt_schedules(&mut r, 3, 24, n3, false).iter().enumerate() {
                c12_case::<W>(&mut cx, i % 2 == 0, &[b1.clone(), b2.clone(), b3.clone()], s).await;
            }
        } else {
            // (the multi-thread scenarios run after this block, outside the current-thread runtime)
            // the same scenario on behalf of C13 and C16 (messages carry their property's prefix)
            for k in 1..(if tier == 0 { 12 } else { 40 }) {
                for f in k3_case::<W>(k, if k % 2 == 0 { 4 } else { 0 }, false).await {
                    cx.fail(f);
                }
                for f in k3_case::<W>(k, if k % 2 == 0 { 0 } else { 4 }, true).await {
                    cx.fail(f);
                }
                cx.stat("cold_cache_reader_parked");
            }
            let per = if tier == 0 { 2 } else { 40 };
            let mut i = 0usize;
            for kind in 0..3u32 {
                for lag in 0..4u64 {
                    for job in 0..10u32 {
                        let scheds = preempt_schedules(&mut r, 2, 26, per, true);
                        for s in scheds.iter() {
                            let (same, rc) = match kind { 0 => (true, false), 1 => (false, false), _ => (false, true) };
                            if same && lag > 0 {
                                continue;
                            }
                            i += 1;
                            let post = std::env::var("VERIF_C13_POST").is_ok() || i % 3 == 0;
                            if i % 2 == 0 { c13_case::<W>(&mut cx, &mut r, rc, lag, same, job, s, post).await } else { c13_case::<E>(&mut cx, &mut r, rc, lag, same, job, s, post).await }
                        }
                    }
                }
            }
            c13_poll::<W>(&mut cx).await;
            c13_poll::<E>(&mut cx).await;
            for k in 1..(if tier == 0 { 14 } else { 30 }) {
                if k % 2 == 0 { c13_poll_race::<W>(&mut cx, k, 0).await } else { c13_poll_race::<E>(&mut cx, k, 0).await }
                if k <= 4 {
                    c13_poll_race::<W>(&mut cx, k, 1).await;
                }
                // every other request kind on an instance that has just been flushed
                c13_poll_race::<W>(&mut cx, k, 2 + (k % 3) as u8).await;
            }
        }
    });
    if which == "c12" {
        let n = if tier == 0 { 12 } else { 150 };
        c12_parallel::<W>(&mut cx, n, true, &mut r);
        c12_parallel::<W>(&mut cx, n, false, &mut r);
        c12_parallel::<E>(&mut cx, n / 2, true, &mut r);
    }
    if which == "c13" {
        // readers truly parallel to a publisher on the same instance (multi-thread runtime, slow commits); with
        // commits that the database rejects every second time
        let n = if tier == 0 { 30 } else { 300 };
        c13_parallel::<W>(&mut cx, n, true, false, false);
        c13_parallel::<W>(&mut cx, n, false, false, false);
        c13_parallel::<E>(&mut cx, n / 2, true, false, false);
        c13_parallel::<W>(&mut cx, n, true, true, false);
        c13_parallel::<W>(&mut cx, n, false, true, false);
        c13_parallel::<W>(&mut cx, n, false, false, true);
        c13_parallel::<W>(&mut cx, n, true, true, true);
    }
    cx
}

// ---------------------------------------------------------------------------------------------------------
// The read-fill / write-through protocol of the storage manager against its model (coq/CacheProto.v).
// Reader tasks read one record through a cached manager (get, batch_get: the cache is consulted first;
// get_user_state: it is not), one writer task writes it (set, batch_set); every task is parked just before and
// just after each of its calls of the data layer and released one call at a time by the schedule.  The model
// runs the same tasks under the same schedule; compared are the data layer's final record, what the cache
// holds at the end, and what every read returned.

const PU: &[u8] = b"proto-user";
fn proto_rec(v: u8) -> DbRecord {
    DbRecord::ValueState(ValueState { value: AkdValue(vec![v]), version: 1, label: akd::NodeLabel::root(), epoch: 1, username: AkdLabel(PU.to_vec()) })
}
fn proto_val(r: &DbRecord) -> u8 {
    match r {
        DbRecord::ValueState(v) => v.value.0[0],
        _ => 254,
    }
}

/// tasks: per task its operations, (is_read, api variant, value to write)
async fn proto_case(cx: &mut Cx, d: u8, tasks: &[Vec<(bool, u8, u8)>], sched: &[usize], cache_point: bool) {
    use akd::storage::types::ValueStateKey;
    let ctl = Ctl::new(tasks.len());
    let db = GateDb { inner: AsyncInMemoryDatabase::new(), ctl: ctl.clone() };
    db.inner.set(proto_rec(d)).await.unwrap();
    let mgr = StorageManager::new(db.clone(), Some(Duration::from_secs(3600)), None, Some(Duration::from_secs(3600)));
    let key = ValueStateKey(PU.to_vec(), 1);
    // the second parking point of an operation: just after the data layer's answer, or (hook of the cache) where the
    // task is about to store records in the cache - for the protocol of the code the two are the same point
    if cache_point {
        let c = ctl.clone();
        akd::storage::cache::high_parallelism::verif_hook::set(Some(Arc::new(move || {
            let c = c.clone();
            Box::pin(async move { c.gate().await })
        })));
    } else {
        ctl.post_gate.store(true, Ordering::SeqCst);
    }
    ctl.free_run.store(false, Ordering::SeqCst);
    // model indices
    let (mut rs, mut ws, mut enc) = (vec![], vec![], vec![]);
    for t in tasks {
        let mut e = vec![];
        for (is_read, api, v) in t {
            if *is_read {
                e.push(format!("r{}", rs.len()));
                rs.push(if *api == 2 { '0' } else { '1' });
            } else {
                e.push(format!("w{}", ws.len()));
                ws.push(v.to_string());
            }
        }
        enc.push(e.join(","));
    }
    let mut handles = vec![];
    for (ti, t) in tasks.iter().enumerate() {
        let m = mgr.clone();
        let t = t.clone();
        let key = key.clone();
        handles.push(tokio::spawn(TASK.scope(ti, async move {
            let mut rets: Vec<Result<u8, String>> = vec![];
            for (is_read, api, v) in t {
                if is_read {
                    let r = match api {
                        0 => m.get::<ValueState>(&key).await.map(|r| proto_val(&r)),
                        1 => m.batch_get::<ValueState>(&[key.clone()]).await.map(|r| if r.len() == 1 { proto_val(&r[0]) } else { 253 }),
                        _ => m.get_user_state(&AkdLabel(PU.to_vec()), ValueStateRetrievalFlag::SpecificEpoch(1)).await.map(|s| s.value.0[0]),
                    };
                    rets.push(r.map_err(|e| format!("{:?}", e)));
                } else {
                    let r = if api == 0 { m.set(proto_rec(v)).await } else { m.batch_set(vec![proto_rec(v)]).await };
                    if let Err(e) = r {
                        rets.push(Err(format!("{:?}", e)));
                    }
                }
            }
            rets
        })));
    }
    // the schedule, then every task to its end one after the other (so that nothing is left to the runtime's choice)
    let mut full = sched.to_vec();
    for (ti, t) in tasks.iter().enumerate() {
        full.extend(vec![ti; 2 * t.len() + 1]);
    }
    {
        let m = mgr.clone();
        drive_ex(&ctl, &mut handles, &full, &move |t| {
            let m = m.clone();
            Box::pin(async move {
                if t == 9 {
                    m.flush_cache().await;
                }
            })
        })
        .await;
    }
    let mut rets = vec![];
    for h in handles {
        match tokio::time::timeout(Duration::from_secs(20), h).await {
            Ok(Ok(o)) => rets.extend(o),
            _ => {
                akd::storage::cache::high_parallelism::verif_hook::set(None);
                cx.fail(format!("proto {:?} {:?}: a task did not finish", tasks, sched));
                return;
            }
        }
    }
    akd::storage::cache::high_parallelism::verif_hook::set(None);
    let dbv = proto_val(&db.inner.get::<ValueState>(&key).await.unwrap());
    // what the cache holds: change the data layer behind the manager's back and read through the manager
    db.inner.set(proto_rec(255)).await.unwrap();
    let cv = match mgr.get::<ValueState>(&key).await {
        Ok(r) if proto_val(&r) == 255 => "-".to_string(),
        Ok(r) => proto_val(&r).to_string(),
        Err(e) => format!("ERR{:?}", e),
    };
    let rets: Vec<String> = rets.into_iter().map(|r| match r { Ok(v) => v.to_string(), Err(e) => format!("ERR:{}", e.replace(' ', "_")) }).collect();
    let q = format!("{} {} {} {} {} {}", if cache_point { "protoc" } else { "proto" }, d, if rs.is_empty() { "-".to_string() } else { rs.iter().collect::<String>() }, if ws.is_empty() { "-".to_string() } else { ws.join(",") }, enc.join("|"), full.iter().map(|t| t.to_string()).collect::<String>());
    cx.emit(q, format!("{} {} [{}]", dbv, cv, rets.join(",")));
    if cv != "-" && cv != dbv.to_string() {
        cx.fail(format!("C16 storage manager [tasks {} schedule {}{}]: with every task finished the cache holds {} but the data layer holds {}", enc.join("|"), full.iter().map(|t| t.to_string()).collect::<String>(), if cache_point { ", parked before the cache is updated" } else { "" }, cv, dbv));
    }
    cx.stat(if cv == "-" { "proto_cache_empty_at_end" } else { "proto_cache_filled_at_end" });
}

/// the same tasks on a multi-thread runtime with nothing parked: readers and one writer run truly in parallel on one
/// cached manager; at the end (nothing in progress) the cache must hold nothing or the data layer's record, and every
/// read must have returned a value that was written
fn proto_parallel(cx: &mut Cx, rounds: usize, seed: u64) {
    use akd::storage::types::ValueStateKey;
    let rt = tokio::runtime::Builder::new_multi_thread().worker_threads(4).enable_all().build().unwrap();
    let mut r = Rng::new(seed ^ 0x77AA);
    for round in 0..rounds {
        let nwrites = 5 + r.below(40) as u8;
        let nreaders = 2 + r.below(3) as usize;
        let apis: Vec<u8> = (0..nreaders).map(|_| r.below(3) as u8).collect();
        let lifetime_ms = if round % 3 == 0 { 2 } else { 3_600_000 };
        let res: Result<(u8, String, Vec<Vec<u8>>), String> = rt.block_on(async {
            let db = AsyncInMemoryDatabase::new();
            db.set(proto_rec(1)).await.unwrap();
            let mgr = StorageManager::new(db.clone(), Some(Duration::from_millis(lifetime_ms)), None, Some(Duration::from_millis(1)));
            let key = ValueStateKey(PU.to_vec(), 1);
            let done = Arc::new(AtomicBool::new(false));
            let mut hs = vec![];
            for api in apis.clone() {
                let (m, key, done) = (mgr.clone(), key.clone(), done.clone());
                hs.push(tokio::spawn(async move {
                    let mut seen = vec![];
                    while !done.load(Ordering::SeqCst) && seen.len() < 4000 {
                        let v = match api {
                            0 => m.get::<ValueState>(&key).await.map(|r| proto_val(&r)),
                            1 => m.batch_get::<ValueState>(&[key.clone()]).await.map(|r| if r.len() == 1 { proto_val(&r[0]) } else { 253 }),
                            _ => m.get_user_state(&AkdLabel(PU.to_vec()), ValueStateRetrievalFlag::SpecificEpoch(1)).await.map(|s| s.value.0[0]),
                        };
                        match v {
                            Ok(v) => seen.push(v),
                            Err(_) => seen.push(252),
                        }
                        tokio::task::yield_now().await;
                    }
                    seen
                }));
            }
            let m = mgr.clone();
            let w = tokio::spawn(async move {
                for v in 2..(2 + nwrites) {
                    let r = if v % 2 == 0 { m.set(proto_rec(v)).await } else { m.batch_set(vec![proto_rec(v)]).await };
                    if r.is_err() {
                        return false;
                    }
                    tokio::task::yield_now().await;
                }
                true
            });
            if !w.await.map_err(|e| e.to_string())? {
                return Err("a write failed".to_string());
            }
            done.store(true, Ordering::SeqCst);
            let mut seens = vec![];
            for h in hs {
                seens.push(h.await.map_err(|e| e.to_string())?);
            }
            let dbv = proto_val(&db.get::<ValueState>(&key).await.unwrap());
            db.set(proto_rec(255)).await.unwrap();
            let cv = match mgr.get::<ValueState>(&key).await {
                Ok(r) if proto_val(&r) == 255 => "-".to_string(),
                Ok(r) => proto_val(&r).to_string(),
                Err(e) => format!("ERR{:?}", e),
            };
            Ok((dbv, cv, seens))
        });
        cx.stat("proto_parallel_rounds");
        match res {
            Err(e) => cx.fail(format!("C16 storage manager, parallel round {}: {}", round, e)),
            Ok((dbv, cv, seens)) => {
                let what = format!("[multi-thread runtime, seed {} round {}, {} writes, readers {:?}, item lifetime {} ms]", seed, round, nwrites, apis, lifetime_ms);
                if dbv != 1 + nwrites {
                    cx.fail(format!("C16 storage manager {}: the data layer ends with {} instead of the last write {}", what, dbv, 1 + nwrites));
                }
                if cv != "-" && cv != dbv.to_string() {
                    cx.fail(format!("C16 storage manager {}: with nothing in progress the cache holds {} but the data layer holds {}", what, cv, dbv));
                }
                for s in &seens {
                    *cx.stats.entry("proto_parallel_reads".to_string()).or_insert(0) += s.len() as u64;
                    if let Some(bad) = s.iter().find(|v| **v < 1 || **v > 1 + nwrites) {
                        cx.fail(format!("C16 storage manager {}: a read returned {} which was never written", what, bad));
                    }
                }
            }
        }
    }
}

pub fn proto(seed: u64, tier: u32) -> Cx {
    let rt = tokio::runtime::Builder::new_current_thread().enable_all().build().unwrap();
    let mut cx = Cx::new();
    let mut r = Rng::new(seed ^ 0x9407);
    rt.block_on(async {
        // one reader, one writer: every interleaving of their parking points, every api variant
        for rapi in 0..3u8 {
            for wapi in 0..2u8 {
                for order in 0..2 {
                    let tasks = if order == 0 { vec![vec![(true, rapi, 0)], vec![(false, wapi, 5)]] } else { vec![vec![(false, wapi, 5)], vec![(true, rapi, 0)]] };
                    for bits in 0..16u32 {
                        let sched: Vec<usize> = (0..4).map(|i| ((bits >> i) & 1) as usize).collect();
                        proto_case(&mut cx, 1, &tasks, &sched, false).await;
                        proto_case(&mut cx, 1, &tasks, &sched, true).await;
                    }
                }
            }
        }
        // two reads that do not consult the cache first against a read and two writes: every schedule prefix of length nine
        for order in 0..2 {
            // (the writing task reads first, so that its write starts in the middle of the schedule)
            let rt_: Vec<(bool, u8, u8)> = vec![(true, 2, 0), (true, 2, 0)];
            let wt_: Vec<(bool, u8, u8)> = vec![(true, 2, 0), (false, 0, 5), (false, 1, 6)];
            let tasks = if order == 0 { vec![rt_.clone(), wt_.clone()] } else { vec![wt_.clone(), rt_.clone()] };
            for bits in 0..512u32 {
                let sched: Vec<usize> = (0..9).map(|i| ((bits >> i) & 1) as usize).collect();
                proto_case(&mut cx, 1, &tasks, &sched, bits % 2 == 0).await;
                proto_case(&mut cx, 1, &tasks, &sched, bits % 2 == 1).await;
            }
        }
        // random: up to three reader tasks of one or two reads and a writer task of one to three writes
        let n = if tier == 0 { 3000 } else { 60000 };
        for _ in 0..n {
            let nreaders = 1 + r.below(3) as usize;
            let mut tasks: Vec<Vec<(bool, u8, u8)>> = vec![];
            for _ in 0..nreaders {
                let k = 1 + r.below(2) as usize;
                tasks.push((0..k).map(|_| (true, r.below(3) as u8, 0)).collect());
            }
            // (one time in eight no writer at all)
            let k = if r.chance(1, 8) { 0 } else { 1 + r.below(3) as usize };
            if k > 0 {
                let mut wt: Vec<(bool, u8, u8)> = (0..k).map(|i| (false, r.below(2) as u8, 10 + i as u8)).collect();
                // reads before, between or after the writes of the writing task
                for _ in 0..r.below(3) {
                    let at = r.below(wt.len() as u64 + 1) as usize;
                    wt.insert(at, (true, r.below(3) as u8, 0));
                }
                let pos = r.below(tasks.len() as u64 + 1) as usize;
                tasks.insert(pos, wt);
            }
            let len = r.below(14) as usize;
            let nt = tasks.len() as u64;
            // (one schedule in three also flushes the cache now and then: entry 9)
            let flushes = r.chance(1, 3);
            let sched: Vec<usize> = (0..len).map(|_| if flushes && r.chance(1, 5) { 9 } else { r.below(nt) as usize }).collect();
            if flushes {
                cx.stat("proto_schedules_with_flushes");
            }
            let cp = r.chance(1, 2);
            proto_case(&mut cx, 1 + r.below(3) as u8, &tasks, &sched, cp).await;
            cx.stat(if cp { "proto_parked_before_cache_update" } else { "proto_parked_after_data_layer" });
            cx.stat(&format!("proto_tasks_{}", tasks.len()));
        }
    });
    proto_parallel(&mut cx, if tier == 0 { 300 } else { 6000 }, seed);
    cx
}

/// C20 on a multi-thread runtime: while a publisher commits epochs and readers run, another task tombstones the old
/// value states of a label through the same storage manager.  Every (epoch, root hash) answer must be a published pair,
/// lookups must verify, the label's history must verify with AllowMissingValues, and at the end the epoch hashes must be
/// the ones the publishes returned (tombstoning changes nothing the directory has committed to).
pub fn c20_parallel<TC: Configuration>(cx: &mut Cx, publishes: usize, cached: bool) {
    let cfg = cfg_name::<TC>();
    let rt = tokio::runtime::Builder::new_multi_thread().worker_threads(4).enable_all().build().unwrap();
    let res: Result<(), String> = rt.block_on(async {
        let (base, labels) = base_history();
        let ctl = Ctl::new(1);
        let db = GateDb { inner: AsyncInMemoryDatabase::new(), ctl: ctl.clone() };
        let st = if cached { StorageManager::new(db.clone(), Some(Duration::from_secs(3600)), None, Some(Duration::from_secs(3600))) } else { StorageManager::new_no_cache(db.clone()) };
        let dir = Directory::<TC, _, _>::new(st.clone(), HardCodedAkdVRF {}, AzksParallelismConfig::disabled()).await.unwrap();
        let mut hashes = vec![dir.get_epoch_hash().await.map_err(|e| format!("{:?}", e))?.1];
        for b in &base {
            hashes.push(dir.publish(upd(b)).await.map_err(|e| format!("{:?}", e))?.1);
        }
        let pk = HardCodedAkdVRF {}.get_vrf_public_key().await.unwrap().as_bytes().to_vec();
        ctl.write_delay_ms.store(1, Ordering::SeqCst);
        let done = Arc::new(AtomicBool::new(false));
        let target = labels[0].clone();
        // the tombstoner
        let tomb = {
            let (st, done, target) = (st.clone(), done.clone(), target.clone());
            tokio::spawn(async move {
                let mut e = 1u64;
                let mut n = 0u64;
                while !done.load(Ordering::SeqCst) {
                    if st.tombstone_value_states(&AkdLabel(target.clone()), e).await.is_ok() {
                        n += 1;
                    }
                    e += 1;
                    tokio::time::sleep(Duration::from_millis(2)).await;
                }
                n
            })
        };
        // readers: history of the tombstoned label (AllowMissingValues), lookups of it and of another label
        let mut readers = vec![];
        for ri in 0..3u8 {
            let (d, done, pk, l) = (dir.clone(), done.clone(), pk.clone(), if ri == 2 { labels[1].clone() } else { target.clone() });
            readers.push(tokio::spawn(async move {
                let mut seen: Vec<(u64, [u8; 32], bool, u8)> = vec![];
                while !done.load(Ordering::SeqCst) && seen.len() < 5000 {
                    if ri == 0 {
                        if let Ok((p, e)) = d.key_history(&AkdLabel(l.clone()), HistoryParams::Complete).await {
                            let v = key_history_verify::<TC>(&pk, e.1, e.0, AkdLabel(l.clone()), p, HistoryVerificationParams::AllowMissingValues { history_params: HistoryParams::Complete }).is_ok();
                            seen.push((e.0, e.1, v, 2));
                        }
                    } else if let Ok((p, e)) = d.lookup(AkdLabel(l.clone())).await {
                        let v = lookup_verify::<TC>(&pk, e.1, e.0, AkdLabel(l.clone()), p).is_ok();
                        seen.push((e.0, e.1, v, 1));
                    }
                    tokio::task::yield_now().await;
                }
                seen
            }));
        }
        for i in 0..publishes {
            let b: Vec<(Vec<u8>, Vec<u8>)> = vec![(target.clone(), vec![80, i as u8]), (labels[1 + i % 4].clone(), vec![81, i as u8])];
            hashes.push(dir.publish(upd(&b)).await.map_err(|e| format!("publish failed while tombstoning ran: {:?}", e))?.1);
        }
        done.store(true, Ordering::SeqCst);
        let ntomb = tokio::time::timeout(Duration::from_secs(30), tomb).await.map_err(|_| "the tombstoning task did not return".to_string())?.map_err(|e| e.to_string())?;
        if ntomb == 0 {
            return Err("no tombstoning call succeeded".to_string());
        }
        for h in readers {
            let seen = tokio::time::timeout(Duration::from_secs(30), h).await.map_err(|_| "a request did not return".to_string())?.map_err(|e| e.to_string())?;
            for (e, h, v, kind) in seen {
                let what = ["", "lookup", "key_history (AllowMissingValues)"][kind as usize];
                if (e as usize) >= hashes.len() || hashes[e as usize] != h {
                    return Err(format!("a {} answered (epoch {}, {}) which was never published", what, e, hx(&h)));
                }
                if !v {
                    return Err(format!("a {} answer for the published pair of epoch {} does not verify", what, e));
                }
            }
        }
        // what the directory has committed to is unchanged: a fresh instance reports the last published pair and audits verify
        let fresh = Directory::<TC, _, _>::new(StorageManager::new_no_cache(db.clone()), HardCodedAkdVRF {}, AzksParallelismConfig::disabled()).await.unwrap();
        let eh = fresh.get_epoch_hash().await.map_err(|e| format!("{:?}", e))?;
        if eh.0 as usize != hashes.len() - 1 || eh.1 != *hashes.last().unwrap() {
            return Err(format!("after tombstoning a fresh instance reports ({}, {}) instead of the last published pair", eh.0, hx(&eh.1)));
        }
        let p = fresh.audit(1, eh.0).await.map_err(|e| format!("audit failed: {:?}", e))?;
        if akd::auditor::audit_verify::<TC>(hashes[1..].to_vec(), p).await.is_err() {
            return Err("the audit over all epochs does not verify against the published hashes after tombstoning".to_string());
        }
        Ok(())
    });
    cx.stat("c20_parallel_runs");
    if let Err(e) = res {
        cx.fail(format!("C20 [cfg {} cached {} multi-thread runtime, tombstoning while a publisher and readers run]: {}", cfg, cached, e));
    }
}

/// probe entry: the multi-thread scenario alone
pub fn c13par(_seed: u64, tier: u32) -> Cx {
    let mut cx = Cx::new();
    let n = if tier == 0 { 40 } else { 400 };
    c13_parallel::<W>(&mut cx, n, true, false, false);
    c13_parallel::<W>(&mut cx, n, false, false, false);
    c13_parallel::<W>(&mut cx, n, true, true, false);
    c13_parallel::<W>(&mut cx, n, false, true, false);
    c13_parallel::<W>(&mut cx, n, false, false, true);
    c13_parallel::<W>(&mut cx, n, true, true, true);
    c20_parallel::<W>(&mut cx, n, true);
    c20_parallel::<W>(&mut cx, n, false);
    cx
}
