//! C06 / C07: lookup and history proofs assembled by a server that holds the secret key and the
//! tree (older versions with forged freshness, altered / swapped fields, truncated, reordered,
//! duplicated, misdated histories, omitted / surplus markers, tombstone substitution, material from
//! another epoch), and trees with a missing or late stale marker built through Azks directly.
use crate::dirs::*;
use crate::proofs::anchored_nonmembership;
use crate::rng::Rng;
use crate::treeutil::*;
use akd::append_only_zks::{Azks, InsertMode};
use akd::client::{key_history_verify, lookup_verify};
use akd::ecvrf::{HardCodedAkdVRF, VRFKeyStorage, VRFPublicKey};
use akd::storage::manager::StorageManager;
use akd::storage::types::DbRecord;
use akd::storage::StorageUtil;
use akd::tree_node::TreeNodeWithPreviousValue;
use akd::{AkdLabel, AkdValue, AzksElement, AzksValue, HistoryParams, HistoryProof, HistoryVerificationParams, LookupProof, NodeLabel, UpdateProof, VersionFreshness};
use akd_core::configuration::Configuration;
use akd_core::ecvrf::Proof;
use std::collections::HashMap;
use std::convert::TryFrom;
use std::fmt::Write as _;

fn fr(b: bool) -> VersionFreshness {
    if b { VersionFreshness::Fresh } else { VersionFreshness::Stale }
}

/// the real VRF verification of (proof, label, freshness, version); emitted as a table line
async fn vchk<TC: Configuration>(cx: &mut Cx, pk: &[u8], proof: &[u8], label: &[u8], fresh: bool, version: u64) {
    let alpha = TC::get_hash_from_label_input(&AkdLabel(label.to_vec()), fr(fresh), version);
    let verified: Option<Proof> = (|| {
        let vpk = VRFPublicKey::try_from(pk).ok()?;
        let p = Proof::try_from(proof).ok()?;
        vpk.verify(&p, &alpha).ok()?;
        Some(p)
    })();
    let res: Option<[u8; 32]> = match verified {
        Some(p) => Some(HardCodedAkdVRF {}.get_node_label_from_vrf_proof(p).await.label_val),
        None => None,
    };
    writeln!(cx.out, "vchk {} {} {} = {}", hex::encode(pk), hb(proof), hex::encode(&alpha), match res { Some(o) => hex::encode(o), None => "ERR".into() }).unwrap();
    cx.cases += 1;
}
async fn vchk_lookup<TC: Configuration>(cx: &mut Cx, pk: &[u8], l: &[u8], p: &LookupProof) {
    vchk::<TC>(cx, pk, &p.existence_vrf_proof, l, true, p.version).await;
    if p.version > 0 {
        vchk::<TC>(cx, pk, &p.marker_vrf_proof, l, true, 1u64 << (63 - p.version.leading_zeros())).await;
    }
    vchk::<TC>(cx, pk, &p.freshness_vrf_proof, l, false, p.version).await;
}
async fn vchk_history<TC: Configuration>(cx: &mut Cx, pk: &[u8], l: &[u8], p: &HistoryProof, epoch: u64) {
    for u in &p.update_proofs {
        vchk::<TC>(cx, pk, &u.existence_vrf_proof, l, true, u.version).await;
        if let Some(v) = &u.previous_version_vrf_proof {
            if u.version > 1 {
                vchk::<TC>(cx, pk, v, l, false, u.version - 1).await;
            }
        }
    }
    // marker versions the verifier will compute (when the shape checks pass)
    let vs: Vec<u64> = p.update_proofs.iter().map(|u| u.version).collect();
    if let (Some(&s), Some(&e)) = (vs.iter().min(), vs.iter().max()) {
        if s >= 1 && e <= epoch && epoch >= 1 {
            if let Ok((past, fut)) = std::panic::catch_unwind(|| akd_core::utils::get_marker_versions(s, e, epoch)) {
                for (v, pr) in past.iter().zip(p.past_marker_vrf_proofs.iter()) {
                    vchk::<TC>(cx, pk, pr, l, true, *v).await;
                }
                for (v, pr) in fut.iter().zip(p.future_marker_vrf_proofs.iter()) {
                    vchk::<TC>(cx, pk, pr, l, true, *v).await;
                }
            }
        }
    }
}

struct Server<TC: Configuration> {
    db: Db,
    st: StorageManager<Db>,
    azks: Azks,
    nodes: HashMap<NodeLabel, TreeNodeWithPreviousValue>,
    vrf: HardCodedAkdVRF,
    ck: Vec<u8>,
    pk: Vec<u8>,
    _t: std::marker::PhantomData<TC>,
}
impl<TC: Configuration> Server<TC> {
    async fn of(db: &Db) -> Self {
        Self::of_with(db, None).await
    }
    async fn of_with(db: &Db, given: Option<Azks>) -> Self {
        let st = StorageManager::new_no_cache(db.clone());
        let mut azks = given;
        let mut nodes = HashMap::new();
        for r in db.batch_get_all_direct().await.unwrap() {
            match r {
                DbRecord::Azks(a) => { if azks.is_none() { azks = Some(a) } }
                DbRecord::TreeNode(n) => {
                    nodes.insert(n.label, n);
                }
                _ => {}
            }
        }
        let vrf = HardCodedAkdVRF {};
        let ck = TC::hash(&vrf.retrieve().await.unwrap()).to_vec();
        let pk = vrf.get_vrf_public_key().await.unwrap().as_bytes().to_vec();
        Server { db: db.clone(), st, azks: azks.unwrap(), nodes, vrf, ck, pk, _t: std::marker::PhantomData }
    }
    async fn nl(&self, l: &[u8], fresh: bool, v: u64) -> NodeLabel {
        self.vrf.get_node_label::<TC>(&AkdLabel(l.to_vec()), fr(fresh), v).await.unwrap()
    }
    async fn vp(&self, l: &[u8], fresh: bool, v: u64) -> Vec<u8> {
        self.vrf.get_label_proof::<TC>(&AkdLabel(l.to_vec()), fr(fresh), v).await.unwrap().to_bytes().to_vec()
    }
    async fn mp(&self, x: NodeLabel) -> akd::MembershipProof {
        self.azks.get_membership_proof::<TC, _>(&self.st, x).await.unwrap()
    }
    fn nonce(&self, nl: &NodeLabel, v: u64, val: &[u8]) -> Vec<u8> {
        TC::get_commitment_nonce(&self.ck, nl, v, &AkdValue(val.to_vec())).to_vec()
    }
    /// a lookup proof claiming (version, value, epoch) with the given freshness non-membership proof
    async fn lookup_for(&self, l: &[u8], v: u64, val: &[u8], ep: u64, fresh_np: akd::NonMembershipProof) -> LookupProof {
        let el = self.nl(l, true, v).await;
        let mv = 1u64 << (63 - v.max(1).leading_zeros());
        LookupProof {
            epoch: ep,
            value: AkdValue(val.to_vec()),
            version: v,
            existence_vrf_proof: self.vp(l, true, v).await,
            existence_proof: self.mp(el).await,
            marker_vrf_proof: self.vp(l, true, mv).await,
            marker_proof: self.mp(self.nl(l, true, mv).await).await,
            freshness_vrf_proof: self.vp(l, false, v).await,
            freshness_proof: fresh_np,
            commitment_nonce: self.nonce(&el, v, val),
        }
    }
    async fn update_for(&self, l: &[u8], v: u64, val: &[u8], ep: u64) -> UpdateProof {
        let el = self.nl(l, true, v).await;
        let (pv, pm) = if v > 1 {
            (Some(self.vp(l, false, v - 1).await), Some(self.mp(self.nl(l, false, v - 1).await).await))
        } else {
            (None, None)
        };
        UpdateProof { epoch: ep, version: v, value: AkdValue(val.to_vec()), existence_vrf_proof: self.vp(l, true, v).await, existence_proof: self.mp(el).await, previous_version_vrf_proof: pv, previous_version_proof: pm, commitment_nonce: self.nonce(&el, v, val) }
    }
    /// a history proof for the version range [s, e] as if e were the latest version, with honest
    /// components where they exist and (for absent-claims about present labels) every anchor choice
    async fn history_for(&self, l: &[u8], vers: &[(u64, Vec<u8>, u64)], s: u64, e: u64, epoch: u64, anchor: usize) -> Option<HistoryProof> {
        let mut ups = vec![];
        for v in (s..=e).rev() {
            let (_, val, ep) = vers.iter().find(|x| x.0 == v)?;
            ups.push(self.update_for(l, v, val, *ep).await);
        }
        let (past, fut) = std::panic::catch_unwind(|| akd_core::utils::get_marker_versions(s, e, epoch)).ok()?;
        let mut h = HistoryProof { update_proofs: ups, past_marker_vrf_proofs: vec![], existence_of_past_marker_proofs: vec![], future_marker_vrf_proofs: vec![], non_existence_of_future_marker_proofs: vec![] };
        for v in past {
            h.past_marker_vrf_proofs.push(self.vp(l, true, v).await);
            h.existence_of_past_marker_proofs.push(self.mp(self.nl(l, true, v).await).await);
        }
        for v in fut {
            h.future_marker_vrf_proofs.push(self.vp(l, true, v).await);
            let x = self.nl(l, true, v).await;
            let cands = anchored_nonmembership::<TC>(&self.azks, &self.st, &self.nodes, &x).await;
            // anchor = 0: deepest (honest) anchor, k: k levels above it
            let idx = cands.len().checked_sub(1 + anchor).unwrap_or(0);
            h.non_existence_of_future_marker_proofs.push(cands.get(idx).cloned().unwrap_or(self.azks.get_non_membership_proof::<TC, _>(&self.st, x).await.unwrap()));
        }
        Some(h)
    }
}

fn res3(r: &akd::VerifyResult) -> (u64, u64, Vec<u8>) {
    (r.epoch, r.version, r.value.0.clone())
}

async fn attack_lookups<TC: Configuration>(cx: &mut Cx, r: &mut Rng, sv: &Server<TC>, t: &Truth, root: [u8; 32], other_root: Option<([u8; 32], u64)>) {
    let cfg = cfg_name::<TC>();
    let pkh = hex::encode(&sv.pk);
    let labels: Vec<Vec<u8>> = t.versions.keys().cloned().collect();
    for l in &labels {
        let vers = &t.versions[l];
        let (nv, nval, nep) = vers.last().unwrap().clone();
        let truth = (nep, nv, nval.clone());
        let mut cands: Vec<(String, LookupProof, [u8; 32], u64)> = vec![];
        // older versions with every anchor for the freshness proof
        for (v, val, ep) in vers.iter() {
            let x = sv.nl(l, false, *v).await;
            for (k, np) in anchored_nonmembership::<TC>(&sv.azks, &sv.st, &sv.nodes, &x).await.into_iter().enumerate() {
                cands.push((format!("version {} of {} anchor {}", v, nv, k), sv.lookup_for(l, *v, val, *ep, np.clone()).await, root, t.epoch));
                // the same anchor with invented children that are not prefixes of the label (the anchor node itself
                // and its path are genuine)
                {
                    let mut np3 = np.clone();
                    let pl = np.longest_prefix;
                    let mut b0 = bits_of(&pl);
                    let mut b1 = b0.clone();
                    b0.push(false);
                    b1.push(true);
                    // continue away from the label's own next bits
                    let xb = bits_of(&x);
                    while b0.len() < 256 { let i = b0.len(); b0.push(!xb[i]); }
                    while b1.len() < 256 { let i = b1.len(); b1.push(!xb[i]); }
                    np3.longest_prefix_children = [
                        akd::AzksElement { label: from_bits(&b0), value: akd::AzksValue([0x31; 32]) },
                        akd::AzksElement { label: from_bits(&b1), value: akd::AzksValue([0x32; 32]) },
                    ];
                    cands.push((format!("version {} of {} anchor {} with invented children", v, nv, k), sv.lookup_for(l, *v, val, *ep, np3).await, root, t.epoch));
                }
                // the same anchor with the claimed freshness label cut short: the genuine VRF bytes with a
                // label_len below 256 name a string that really is absent
                for len in [255u32, 200, np.longest_prefix.label_len + 1] {
                    if len < 256 && len > np.longest_prefix.label_len {
                        let mut np2 = np.clone();
                        np2.label = akd::NodeLabel { label_val: x.label_val, label_len: len };
                        cands.push((format!("version {} of {} anchor {} freshness label cut to {} bits", v, nv, k, len), sv.lookup_for(l, *v, val, *ep, np2).await, root, t.epoch));
                    }
                }
            }
        }
        let honest_np = sv.azks.get_non_membership_proof::<TC, _>(&sv.st, sv.nl(l, false, nv).await).await.unwrap();
        let honest = sv.lookup_for(l, nv, &nval, nep, honest_np.clone()).await;
        // field alterations of the honest proof
        let mut p = honest.clone();
        p.value = AkdValue(vec![0xEE, 0x01]);
        cands.push(("wrong value".into(), p, root, t.epoch));
        let mut p = honest.clone();
        p.value = AkdValue(vec![0xEE, 0x01]);
        p.commitment_nonce = sv.nonce(&sv.nl(l, true, nv).await, nv, &[0xEE, 0x01]);
        cands.push(("wrong value with its own nonce".into(), p, root, t.epoch));
        // bytes moved across the value / nonce boundary
        if !nval.is_empty() {
            let mut p = honest.clone();
            let k = nval.len() - 1;
            p.value = AkdValue(nval[..k].to_vec());
            let mut n2 = nval[k..].to_vec();
            n2.extend_from_slice(&honest.commitment_nonce);
            p.commitment_nonce = n2;
            cands.push(("last value byte moved into the nonce".into(), p, root, t.epoch));
        }
        {
            let mut p = honest.clone();
            let mut v2 = nval.clone();
            v2.push(honest.commitment_nonce[0]);
            p.value = AkdValue(v2);
            p.commitment_nonce = honest.commitment_nonce[1..].to_vec();
            cands.push(("first nonce byte moved into the value".into(), p, root, t.epoch));
        }
        let mut p = honest.clone();
        p.epoch = nep + 1;
        cands.push(("epoch + 1".into(), p, root, t.epoch));
        if nep > 1 {
            let mut p = honest.clone();
            p.epoch = nep - 1;
            cands.push(("epoch - 1".into(), p, root, t.epoch));
        }
        let mut p = honest.clone();
        p.version = nv + 1;
        cands.push(("version + 1 claimed on the same leaves".into(), p, root, t.epoch));
        // a version greater than the epoch
        cands.push(("version beyond the epoch".into(), sv.lookup_for(l, t.epoch + 1, &nval, nep, honest_np.clone()).await, root, t.epoch));
        // honest proof checked against a smaller "current epoch" than its version
        if nv > 1 {
            cands.push(("current epoch below the version".into(), honest.clone(), root, nv - 1));
        }
        // marker / existence swapped, freshness vrf swapped
        let mut p = honest.clone();
        std::mem::swap(&mut p.existence_proof, &mut p.marker_proof);
        cands.push(("existence and marker proofs swapped".into(), p, root, t.epoch));
        let mut p = honest.clone();
        std::mem::swap(&mut p.existence_vrf_proof, &mut p.freshness_vrf_proof);
        cands.push(("existence and freshness vrf proofs swapped".into(), p, root, t.epoch));
        let mut p = honest.clone();
        let i = r.below(80) as usize;
        p.existence_vrf_proof[i] ^= 1 << r.below(8);
        cands.push(("existence vrf proof bit flipped".into(), p, root, t.epoch));
        let mut p = honest.clone();
        p.existence_vrf_proof.truncate(79);
        cands.push(("existence vrf proof truncated".into(), p, root, t.epoch));
        // another label's proof
        if let Some(o) = labels.iter().find(|o| *o != l) {
            let (ov, oval, oep) = t.versions[o].last().unwrap().clone();
            let onp = sv.azks.get_non_membership_proof::<TC, _>(&sv.st, sv.nl(o, false, ov).await).await.unwrap();
            let op = sv.lookup_for(o, ov, &oval, oep, onp).await;
            let other_is_truth = (oep, ov, oval.clone()) == truth;
            if !other_is_truth {
                cands.push(("another label's proof".into(), op.clone(), root, t.epoch));
                let mut p = honest.clone();
                p.existence_proof = op.existence_proof.clone();
                p.existence_vrf_proof = op.existence_vrf_proof.clone();
                cands.push(("another label's existence leaf".into(), p, root, t.epoch));
            }
        }
        // the honest proof against another epoch's root
        if let Some((oroot, oep)) = other_root {
            cands.push(("honest proof against another epoch's root".into(), honest.clone(), oroot, oep));
        }
        cands.push(("honest".into(), honest.clone(), root, t.epoch));
        for (what, p, rt, ce) in cands {
            vchk_lookup::<TC>(cx, &sv.pk, l, &p).await;
            let v = lookup_verify::<TC>(&sv.pk, rt, ce, AkdLabel(l.clone()), p.clone());
            cx.emit(format!("vlookup {} {} {} {} {} {}", cfg, pkh, hx(&rt), ce, hb(l), ser_lookup(&p)), match &v { Ok(x) => format!("ok {} {} {}", x.epoch, x.version, hb(&x.value.0)), Err(_) => "err".into() });
            cx.stat("adversarial_lookups");
            if let Ok(x) = &v {
                cx.stat("adversarial_lookups_accepted");
                let ok = res3(x) == truth && rt == root;
                if !ok {
                    cx.fail(format!("C06 lookup proof ({}) for {} accepted with (epoch {}, version {}, value {}) but the latest update is (epoch {}, version {}, value {}) [epoch {}, cfg {}]", what, hb(l), x.epoch, x.version, hb(&x.value.0), truth.0, truth.1, hb(&truth.2), t.epoch, cfg));
                }
            } else if what == "honest" {
                cx.fail(format!("C06 harness self-check: honestly assembled lookup proof for {} rejected", hb(l)));
            }
        }
    }
}

fn expected(vers: &[(u64, Vec<u8>, u64)], hp: HistoryParams) -> Vec<(u64, u64, Vec<u8>)> {
    let bound = match hp { HistoryParams::Complete => vers.len(), HistoryParams::MostRecent(n) => n.min(vers.len()) };
    vers.iter().rev().take(bound).map(|(v, val, e)| (*e, *v, val.clone())).collect()
}

async fn attack_histories<TC: Configuration>(cx: &mut Cx, r: &mut Rng, sv: &Server<TC>, t: &Truth, root: [u8; 32]) {
    let cfg = cfg_name::<TC>();
    let pkh = hex::encode(&sv.pk);
    for (l, vers) in &t.versions {
        let n = vers.len() as u64;
        let mut cands: Vec<(String, HistoryProof, HistoryParams, bool)> = vec![];
        let honest = sv.history_for(l, vers, 1, n, t.epoch, 0).await.unwrap();
        cands.push(("honest".into(), honest.clone(), HistoryParams::Complete, false));
        cands.push(("honest".into(), honest.clone(), HistoryParams::Complete, true));
        // dropping the newest entries, markers recomputed consistently, every anchor for the forged absences
        for drop in 1..n.min(3) {
            for anchor in 0..3 {
                if let Some(p) = sv.history_for(l, vers, 1, n - drop, t.epoch, anchor).await {
                    cands.push((format!("newest {} dropped, absences anchored {} above", drop, anchor), p, HistoryParams::Complete, false));
                }
            }
            // absences "proved" for the future markers' labels cut short (genuine VRF bytes, label_len < 256)
            if let Some(mut p) = sv.history_for(l, vers, 1, n - drop, t.epoch, 0).await {
                for np in p.non_existence_of_future_marker_proofs.iter_mut() {
                    np.label.label_len = 255.max(np.longest_prefix.label_len + 1).min(255);
                }
                cands.push((format!("newest {} dropped, absence labels cut to 255 bits", drop), p, HistoryParams::Complete, false));
            }
            let mut p = honest.clone();
            for _ in 0..drop { p.update_proofs.remove(0); }
            cands.push((format!("newest {} dropped, markers unchanged", drop), p, HistoryParams::Complete, false));
        }
        // dropping the oldest entries
        if n > 1 {
            if let Some(p) = sv.history_for(l, vers, 2, n, t.epoch, 0).await {
                cands.push(("oldest dropped (complete)".into(), p.clone(), HistoryParams::Complete, false));
                cands.push(("oldest dropped (most recent n)".into(), p.clone(), HistoryParams::MostRecent(n as usize), false));
                cands.push(("exactly n-1 most recent".into(), p, HistoryParams::MostRecent(n as usize - 1), false));
            }
            let mut p = honest.clone();
            p.update_proofs.swap(0, 1);
            cands.push(("two entries reordered".into(), p, HistoryParams::Complete, false));
            let mut p = honest.clone();
            let d = p.update_proofs[0].clone();
            p.update_proofs.insert(0, d);
            cands.push(("newest entry duplicated".into(), p, HistoryParams::Complete, false));
            if n > 2 {
                let mut p = honest.clone();
                p.update_proofs.remove(1);
                cands.push(("a middle entry removed".into(), p, HistoryParams::Complete, false));
            }
            // misdating: epochs of two entries exchanged / one entry's epoch altered
            let mut p = honest.clone();
            let (e0, e1) = (p.update_proofs[0].epoch, p.update_proofs[1].epoch);
            p.update_proofs[0].epoch = e1;
            p.update_proofs[1].epoch = e0;
            cands.push(("epochs of two entries exchanged".into(), p, HistoryParams::Complete, false));
        }
        let k = r.below(n) as usize;
        let mut p = honest.clone();
        p.update_proofs[k].epoch += 1;
        cands.push(("an entry's epoch + 1".into(), p, HistoryParams::Complete, false));
        let mut p = honest.clone();
        p.update_proofs[k].value = AkdValue(vec![0xEE, 0x02]);
        cands.push(("an entry's value replaced".into(), p, HistoryParams::Complete, false));
        let mut p = honest.clone();
        p.update_proofs[k].value = AkdValue(vec![0xEE, 0x02]);
        let el = sv.nl(l, true, p.update_proofs[k].version).await;
        p.update_proofs[k].commitment_nonce = sv.nonce(&el, p.update_proofs[k].version, &[0xEE, 0x02]);
        cands.push(("an entry's value replaced, nonce recomputed".into(), p, HistoryParams::Complete, false));
        // bytes moved across the value / nonce boundary of an entry
        {
            let mut p = honest.clone();
            let u = &mut p.update_proofs[k];
            if !u.value.0.is_empty() {
                let cut = u.value.0.len() - 1;
                let mut n2 = u.value.0[cut..].to_vec();
                n2.extend_from_slice(&u.commitment_nonce);
                u.value = AkdValue(u.value.0[..cut].to_vec());
                u.commitment_nonce = n2;
                cands.push(("an entry's last value byte moved into the nonce".into(), p, HistoryParams::Complete, false));
            }
            let mut p = honest.clone();
            let u = &mut p.update_proofs[k];
            let b = u.commitment_nonce[0];
            u.value.0.push(b);
            u.commitment_nonce.remove(0);
            cands.push(("an entry's first nonce byte moved into the value".into(), p, HistoryParams::Complete, false));
        }
        // tombstone substitution
        for allow in [false, true] {
            let mut p = honest.clone();
            p.update_proofs[k].value = AkdValue(vec![]);
            cands.push((format!("entry {} presented as tombstone", k), p, HistoryParams::Complete, allow));
        }
        // K2 shape: version 1 presented as a tombstone with another epoch
        let mut p = honest.clone();
        let last = p.update_proofs.len() - 1;
        p.update_proofs[last].value = AkdValue(vec![]);
        p.update_proofs[last].epoch = if p.update_proofs[last].epoch > 1 { p.update_proofs[last].epoch - 1 } else { 0 };
        cands.push(("version 1 as tombstone with an earlier epoch".into(), p, HistoryParams::Complete, true));
        if n > 1 {
            // a later version as tombstone with an altered epoch (bound by the stale leaf of its predecessor)
            let mut p = honest.clone();
            p.update_proofs[0].value = AkdValue(vec![]);
            p.update_proofs[0].epoch += 1;
            cands.push(("newest version as tombstone with epoch + 1".into(), p, HistoryParams::Complete, true));
        }
        // marker proofs omitted / surplus / swapped / previous-version proof removed
        if !honest.future_marker_vrf_proofs.is_empty() {
            let mut p = honest.clone();
            p.future_marker_vrf_proofs.pop();
            p.non_existence_of_future_marker_proofs.pop();
            cands.push(("a future marker omitted".into(), p, HistoryParams::Complete, false));
            let mut p = honest.clone();
            p.non_existence_of_future_marker_proofs.pop();
            cands.push(("a future marker proof without its vrf proof".into(), p, HistoryParams::Complete, false));
        }
        if honest.existence_of_past_marker_proofs.len() > 1 {
            let mut p = honest.clone();
            p.existence_of_past_marker_proofs.swap(0, 1);
            cands.push(("past marker proofs swapped".into(), p, HistoryParams::Complete, false));
        }
        let mut p = honest.clone();
        p.past_marker_vrf_proofs.push(sv.vp(l, true, 1).await);
        p.existence_of_past_marker_proofs.push(sv.mp(sv.nl(l, true, 1).await).await);
        cands.push(("a surplus past marker".into(), p, HistoryParams::Complete, false));
        if n > 1 {
            let mut p = honest.clone();
            p.update_proofs[0].previous_version_proof = None;
            cands.push(("previous-version proof missing".into(), p, HistoryParams::Complete, false));
            let mut p = honest.clone();
            p.update_proofs[0].previous_version_vrf_proof = None;
            p.update_proofs[0].previous_version_proof = None;
            cands.push(("previous-version proof and vrf missing".into(), p, HistoryParams::Complete, false));
        }
        // most-recent parameters on honest material
        for m in [1usize, n as usize, n as usize + 2] {
            if let Some(p) = sv.history_for(l, vers, n + 1 - (m as u64).min(n), n, t.epoch, 0).await {
                cands.push((format!("honest most recent {}", m), p, HistoryParams::MostRecent(m), false));
            }
        }
        // surplus entries for MostRecent(1)
        if n > 1 {
            cands.push(("complete proof for MostRecent(1)".into(), honest.clone(), HistoryParams::MostRecent(1), false));
        }
        for (what, p, hp, allow) in cands {
            vchk_history::<TC>(cx, &sv.pk, l, &p, t.epoch).await;
            let ps = match hp { HistoryParams::Complete => "c".to_string(), HistoryParams::MostRecent(m) => format!("m{}", m) };
            let vp = if allow { HistoryVerificationParams::AllowMissingValues { history_params: hp } } else { HistoryVerificationParams::Default { history_params: hp } };
            let v = key_history_verify::<TC>(&sv.pk, root, t.epoch, AkdLabel(l.clone()), p.clone(), vp);
            cx.emit(format!("vhist {} {} {} {} {} {} {} {}", cfg, pkh, hx(&root), t.epoch, hb(l), ps, allow as u8, ser_history(&p)), match &v { Ok(rs) => format!("ok {} {}", rs.len(), rs.iter().map(|x| format!("{} {} {}", x.epoch, x.version, hb(&x.value.0))).collect::<Vec<_>>().join(" ")), Err(_) => "err".into() });
            cx.stat("adversarial_histories");
            let want = expected(vers, hp);
            match &v {
                Ok(rs) => {
                    cx.stat("adversarial_histories_accepted");
                    let got: Vec<(u64, u64, Vec<u8>)> = rs.iter().map(res3).collect();
                    let same = got == want;
                    // with AllowMissingValues an empty value may stand for the true one; versions and epochs must be the true ones
                    let same_mod_tomb = allow && got.len() == want.len() && got.iter().zip(want.iter()).all(|(g, w)| g.0 == w.0 && g.1 == w.1 && (g.2 == w.2 || g.2.is_empty()));
                    if !(same || same_mod_tomb) {
                        // known finding K2: a version-1 entry presented as tombstone carries an unauthenticated epoch
                        let k2 = allow && got.len() == want.len() && got.iter().zip(want.iter()).all(|(g, w)| g.1 == w.1 && (g.0 == w.0 || (g.1 == 1 && g.2.is_empty())) && (g.2 == w.2 || g.2.is_empty()));
                        if k2 {
                            writeln!(cx.out, "KNOWN K2 history proof ({}) for {} accepted under AllowMissingValues with the epoch of tombstoned version 1 altered", what, hb(l)).unwrap();
                            cx.stat("K2_hits");
                        } else {
                            cx.fail(format!("C07 history proof ({}, params {}, allow_missing {}) for {} accepted with {:?} but the true account is {:?} [epoch {}, cfg {}]", what, ps, allow, hb(l), got.iter().map(|g| (g.0, g.1, hb(&g.2))).collect::<Vec<_>>(), want.iter().map(|g| (g.0, g.1, hb(&g.2))).collect::<Vec<_>>(), t.epoch, cfg));
                        }
                    }
                }
                Err(_) => {
                    if what.starts_with("honest") {
                        cx.fail(format!("C07 harness self-check: honestly assembled history proof ({}, {}) for {} rejected", what, ps, hb(l)));
                    }
                }
            }
        }
    }
}

/// trees with a missing or late stale marker, built through Azks directly
async fn late_stale<TC: Configuration>(cx: &mut Cx, r: &mut Rng) {
    let cfg = cfg_name::<TC>();
    let vrf = HardCodedAkdVRF {};
    let l = b"late".to_vec();
    let al = AkdLabel(l.clone());
    let ck = TC::hash(&vrf.retrieve().await.unwrap()).to_vec();
    for variant in 0..3 {
        // fresh1@1, fresh2@2 and stale1: @2 (honest) / @3 (late) / never
        let mut az = RealAzks::new::<TC>().await;
        let f1 = vrf.get_node_label::<TC>(&al, VersionFreshness::Fresh, 1).await.unwrap();
        let f2 = vrf.get_node_label::<TC>(&al, VersionFreshness::Fresh, 2).await.unwrap();
        let s1 = vrf.get_node_label::<TC>(&al, VersionFreshness::Stale, 1).await.unwrap();
        let c1 = TC::compute_fresh_azks_value(&ck, &f1, 1, &AkdValue(vec![1]));
        let c2 = TC::compute_fresh_azks_value(&ck, &f2, 2, &AkdValue(vec![2]));
        let filler = |r: &mut Rng| AzksElement { label: from_bits(&(0..256).map(|_| r.chance(1, 2)).collect::<Vec<_>>()), value: AzksValue([9; 32]) };
        az.insert::<TC>(vec![AzksElement { label: f1, value: c1 }, filler(r)], InsertMode::Directory).await.unwrap();
        let mut b2 = vec![AzksElement { label: f2, value: c2 }];
        if variant == 0 {
            b2.push(AzksElement { label: s1, value: TC::stale_azks_value() });
        }
        az.insert::<TC>(b2, InsertMode::Directory).await.unwrap();
        let mut b3 = vec![filler(r)];
        if variant == 1 {
            b3.push(AzksElement { label: s1, value: TC::stale_azks_value() });
        }
        az.insert::<TC>(b3, InsertMode::Directory).await.unwrap();
        let root = az.root_hash::<TC>().await;
        let sv = Server::<TC>::of_with(&az.db, Some(az.azks.clone())).await;
        let vers = vec![(1u64, vec![1u8], 1u64), (2u64, vec![2u8], 2u64)];
        // table lines for the model
        cx.emit(format!("dir {} {} {}", cfg, hex::encode(&sv.ck), hex::encode(&sv.pk)), "ok".into());
        emit_vrf_table::<TC>(cx, &sv.vrf, &[l.clone()], 4).await;
        let p = match sv.history_for(&l, &vers, 1, 2, 3, 0).await { Some(p) => p, None => continue };
        vchk_history::<TC>(cx, &sv.pk, &l, &p, 3).await;
        let v = key_history_verify::<TC>(&sv.pk, root, 3, al.clone(), p.clone(), HistoryVerificationParams::Default { history_params: HistoryParams::Complete });
        cx.emit(format!("vhist {} {} {} {} {} c 0 {}", cfg, hex::encode(&sv.pk), hx(&root), 3, hb(&l), ser_history(&p)), match &v { Ok(rs) => format!("ok {} {}", rs.len(), rs.iter().map(|x| format!("{} {} {}", x.epoch, x.version, hb(&x.value.0))).collect::<Vec<_>>().join(" ")), Err(_) => "err".into() });
        cx.stat("late_stale_trees");
        if variant > 0 {
            // the same history with the previous-version material left out / only one half present
            for mode in 0..3 {
                let mut p2 = p.clone();
                for u in p2.update_proofs.iter_mut() {
                    if mode != 1 { u.previous_version_proof = None; }
                    if mode != 2 { u.previous_version_vrf_proof = None; }
                }
                vchk_history::<TC>(cx, &sv.pk, &l, &p2, 3).await;
                let v2 = key_history_verify::<TC>(&sv.pk, root, 3, al.clone(), p2.clone(), HistoryVerificationParams::Default { history_params: HistoryParams::Complete });
                cx.emit(format!("vhist {} {} {} {} {} c 0 {}", cfg, hex::encode(&sv.pk), hx(&root), 3, hb(&l), ser_history(&p2)), match &v2 { Ok(rs) => format!("ok {} {}", rs.len(), rs.iter().map(|x| format!("{} {} {}", x.epoch, x.version, hb(&x.value.0))).collect::<Vec<_>>().join(" ")), Err(_) => "err".into() });
                if v2.is_ok() {
                    cx.fail(format!("C07 history verifies with the previous-version material omitted (mode {}) although the superseded version was {} (cfg {})", mode, if variant == 1 { "retired one epoch late" } else { "never retired" }, cfg));
                    if variant == 2 {
                        // C08: under the same root a lookup for the superseded version 1 verifies as well
                        let np = sv.azks.get_non_membership_proof::<TC, _>(&sv.st, s1).await;
                        if let Ok(np) = np {
                            let lp = sv.lookup_for(&l, 1, &[1u8], 1, np).await;
                            if lookup_verify::<TC>(&sv.pk, root, 3, al.clone(), lp).is_ok() {
                                cx.fail(format!("C08 two different latest versions verify under one root: complete history with latest version 2 and a lookup for version 1 (cfg {})", cfg));
                            }
                        }
                    }
                }
            }
        }
        match (variant, v.is_ok()) {
            (0, false) => cx.fail("C07 harness self-check: history over a correctly retired version rejected".into()),
            (1, true) => cx.fail(format!("C07 history verifies although the superseded version was retired one epoch late (cfg {})", cfg)),
            (2, true) => cx.fail(format!("C07 history verifies although the superseded version was never retired (cfg {})", cfg)),
            _ => {}
        }
    }
}

async fn one<TC: Configuration>(cx: &mut Cx, r: &mut Rng, epochs: usize, nlabels: usize) {
    let labels = label_universe(r, nlabels);
    one_with::<TC>(cx, r, epochs, labels).await
}
async fn one_with<TC: Configuration>(cx: &mut Cx, r: &mut Rng, epochs: usize, labels: Vec<Vec<u8>>) {
    let cfg = cfg_name::<TC>();
    let db = Db::new();
    let dir = new_dir::<TC>(&db, false, false).await;
    let vrf = HardCodedAkdVRF {};
    let ckb = TC::hash(&vrf.retrieve().await.unwrap()).to_vec();
    let pkb = vrf.get_vrf_public_key().await.unwrap().as_bytes().to_vec();
    cx.emit(format!("dir {} {} {}", cfg, hex::encode(&ckb), hex::encode(&pkb)), "ok".into());
    emit_vrf_table::<TC>(cx, &vrf, &labels, (epochs as u64 + 2).next_power_of_two().max(4)).await;
    let mut t = Truth::default();
    t.hashes.push(dir.get_epoch_hash().await.unwrap().1);
    let mut prev: Option<([u8; 32], u64)> = None;
    for ep in 0..epochs {
        let mut batch = vec![];
        for l in &labels {
            // the first label is updated in every epoch (many versions, powers of two included)
            if l == &labels[0] || r.chance(1, 2) {
                batch.push((l.clone(), vec![ep as u8 + 1, r.next() as u8]));
            }
        }
        let res = dir.publish(batch.iter().map(|(l, v)| (AkdLabel(l.clone()), AkdValue(v.clone()))).collect()).await.unwrap();
        if t.apply(&batch) {
            t.hashes.push(res.1);
        }
        if ep + 1 == epochs || (ep + 1) % 3 == 0 {
            let sv = Server::<TC>::of(&db).await;
            attack_lookups::<TC>(cx, r, &sv, &t, res.1, prev).await;
            attack_histories::<TC>(cx, r, &sv, &t, res.1).await;
            let _ = &sv.db;
        }
        prev = Some((res.1, res.0));
    }
}

pub fn run(seed: u64, tier: u32) -> Cx {
    let rt = tokio::runtime::Builder::new_current_thread().enable_all().build().unwrap();
    let mut cx = Cx::new();
    let mut r = Rng::new(seed ^ 0xADD1);
    let n = if tier == 0 { 2 } else { 16 };
    rt.block_on(async {
        for i in 0..n {
            let epochs = if tier == 0 { 6 + i } else { 5 + (i % 6) * 2 };
            if i % 2 == 0 { one::<W>(&mut cx, &mut r, epochs, 3).await } else { one::<E>(&mut cx, &mut r, epochs, 3).await }
        }
        // tiny directories: one account with two or three versions; for some names every leaf starts with the same bit,
        // so that the root itself has an empty child and is a possible anchor of forged absences
        for name in [&b"user3"[..], &b"user5"[..], &b"user1"[..], &b"user18"[..]] {
            one_with::<W>(&mut cx, &mut r, 2, vec![name.to_vec()]).await;
            one_with::<E>(&mut cx, &mut r, 2, vec![name.to_vec()]).await;
        }
        one_with::<W>(&mut cx, &mut r, 3, vec![b"user5".to_vec()]).await;
        late_stale::<W>(&mut cx, &mut r).await;
        late_stale::<E>(&mut cx, &mut r).await;
    });
    cx
}
