//! C08 / X-marker: get_marker_versions, the intersection property evaluated on the implementation's
//! own outputs, and the K1 candidates (lookup not contradicted by a history).
use crate::rng::Rng;
use akd_core::utils::get_marker_versions;
use std::fmt::Write as _;

fn gm(s: u64, n: u64, e: u64) -> Option<(Vec<u64>, Vec<u64>)> {
    std::panic::catch_unwind(|| get_marker_versions(s, n, e)).ok()
}
fn fmt(v: &[u64]) -> String {
    let mut s = String::from("[");
    for (i, x) in v.iter().enumerate() {
        if i > 0 {
            s.push(',');
        }
        write!(s, "{}", x).unwrap();
    }
    s.push(']');
    s
}
fn log2(m: u64) -> u32 {
    63 - m.leading_zeros()
}

pub fn run(seed: u64, tier: u32, out: &mut String) -> (usize, Vec<String>) {
    std::panic::set_hook(Box::new(|_| {}));
    let mut fails = vec![];
    let mut n_cases = 0usize;
    let mut r = Rng::new(seed);
    let emax: u64 = if tier == 0 { 40 } else { 110 };
    // exhaustive triples
    let mut past: Vec<Vec<u64>> = vec![vec![]; (emax + 2) as usize];
    let mut fut: Vec<Vec<Vec<u64>>> = vec![vec![vec![]; (emax + 2) as usize]; (emax + 2) as usize];
    for e in 1..=emax {
        for n in 1..=e {
            for s in 1..=n {
                match gm(s, n, e) {
                    Some((p, f)) => {
                        writeln!(out, "markers {} {} {} = {} {}", s, n, e, fmt(&p), fmt(&f)).unwrap();
                        if n == e || past[s as usize].is_empty() {
                            past[s as usize] = p;
                        }
                        if s == 1 {
                            fut[n as usize][e as usize] = f;
                        }
                    }
                    None => writeln!(out, "markers {} {} {} = PANIC", s, n, e).unwrap(),
                }
                n_cases += 1;
            }
        }
    }
    // degenerate arguments (the model says which of them panic)
    for (s, n, e) in [(0u64, 1u64, 1u64), (1, 0, 1), (1, 1, 0), (1, 9, 3), (1, 300, 20), (5, 3, 9), (1, 1, 1), (2, 1, 5)] {
        match gm(s, n, e) {
            Some((p, f)) => writeln!(out, "markers {} {} {} = {} {}", s, n, e, fmt(&p), fmt(&f)).unwrap(),
            None => writeln!(out, "markers {} {} {} = PANIC", s, n, e).unwrap(),
        }
        n_cases += 1;
    }
    // structured 64-bit triples around powers of two and skip-list elements
    let anchors: Vec<u64> = {
        let mut a = vec![];
        for k in 0..64 {
            let p = 1u64 << k;
            a.extend_from_slice(&[p, p.wrapping_sub(1), p + 1, p | (p >> 1), p | 1]);
        }
        a.extend_from_slice(&[u64::MAX, u64::MAX - 1, 65535, 65536, 65537, 4294967295, 4294967296, 4294967297, 255, 256, 257, 15, 16, 17]);
        a.retain(|x| *x >= 1);
        a
    };
    let nrand = if tier == 0 { 3000 } else { 60000 };
    for _ in 0..nrand {
        let mut v = [0u64; 3];
        for x in v.iter_mut() {
            *x = match r.below(4) {
                0 => *r.pick(&anchors),
                1 => r.pick(&anchors) ^ (r.next() & 0xFF),
                2 => r.next() >> r.below(64),
                _ => 1 + r.below(2000),
            }
            .max(1);
        }
        v.sort();
        let (s, n, e) = (v[0], v[1], v[2]);
        match gm(s, n, e) {
            Some((p, f)) => writeln!(out, "markers {} {} {} = {} {}", s, n, e, fmt(&p), fmt(&f)).unwrap(),
            None => writeln!(out, "markers {} {} {} = PANIC", s, n, e).unwrap(),
        }
        n_cases += 1;
    }
    // direct oracle 1 (history vs history): for all E, n < m <= E, s' <= m some future marker of n
    // is in [s', m] or among the past markers of s'
    let mut quads = 0u64;
    for e in 1..=emax {
        for n in 1..e {
            let f = &fut[n as usize][e as usize];
            for m in (n + 1)..=e {
                for s2 in 1..=m {
                    quads += 1;
                    let ok = f.iter().any(|v| (s2 <= *v && *v <= m) || past[s2 as usize].contains(v));
                    if !ok {
                        fails.push(format!("hist_hist E={} n={} m={} s'={} future(n,E)={} past(s')={}", e, n, m, s2, fmt(f), fmt(&past[s2 as usize])));
                    }
                }
            }
        }
    }
    writeln!(out, "STAT hist_hist_quadruples={}", quads).unwrap();
    // direct oracle 2 (lookup vs complete history)
    let mut k1 = 0u64;
    let mut trip = 0u64;
    for e in 1..=emax {
        for n in 1..e {
            let f = &fut[n as usize][e as usize];
            for m in (n + 1)..=e {
                trip += 1;
                let marker = 1u64 << log2(m);
                let unprotected = !f.contains(&m) && !f.contains(&marker);
                if unprotected {
                    k1 += 1;
                }
                writeln!(out, "kf_K1 {} {} {} = {}", e, n, m, unprotected as u8).unwrap();
            }
        }
    }
    writeln!(out, "STAT lookup_gt_triples={} unprotected={}", trip, k1).unwrap();
    (n_cases, fails)
}
