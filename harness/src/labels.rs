//! C17 / X-label: node-label operations and AzksElementSet, with an independent bit-string oracle.
use crate::rng::Rng;
use akd::append_only_zks::verif_hooks as hk;
use akd::{AzksElement, AzksValue, NodeLabel};
use akd_core::configuration::Configuration;
use akd_core::PrefixOrdering;
use std::fmt::Write as _;

pub type W = akd::WhatsAppV1Configuration;
pub type E = akd::ExperimentalConfiguration<akd::ExampleLabel>;

pub fn nl(val: [u8; 32], len: u32) -> NodeLabel {
    NodeLabel::new(val, len)
}
pub fn fmt_nl(l: &NodeLabel) -> String {
    format!("{} {}", hex::encode(l.label_val), l.label_len)
}
fn bits_of(l: &NodeLabel) -> Vec<bool> {
    (0..l.label_len.min(256))
        .map(|i| (l.label_val[(i / 8) as usize] >> (7 - (i % 8))) & 1 == 1)
        .collect()
}
/// canonical label from bits
pub fn from_bits(bits: &[bool]) -> NodeLabel {
    let mut v = [0u8; 32];
    for (i, b) in bits.iter().enumerate() {
        if *b {
            v[i / 8] |= 1 << (7 - (i % 8));
        }
    }
    nl(v, bits.len() as u32)
}
fn is_prefix_bits(a: &[bool], b: &[bool]) -> bool {
    a.len() <= b.len() && a.iter().zip(b.iter()).all(|(x, y)| x == y)
}
fn lcp_bits(a: &[bool], b: &[bool]) -> Vec<bool> {
    a.iter().zip(b.iter()).take_while(|(x, y)| x == y).map(|(x, _)| *x).collect()
}

/// label generator: lengths around byte boundaries, adversarial patterns, optional garbage
/// beyond `len`
pub fn gen_label(r: &mut Rng, canonical: bool) -> NodeLabel {
    let len: u32 = match r.below(8) {
        0 => r.below(11) as u32,
        1 => 256,
        2 => 255,
        3 => {
            let k = r.below(32) as u32 + 1;
            (8 * k + r.below(3) as u32).saturating_sub(1).min(256)
        }
        _ => r.below(257) as u32,
    };
    let mut v = [0u8; 32];
    match r.below(6) {
        0 => {}
        1 => v = [0xFF; 32],
        2 => v = [0x55; 32],
        3 => {
            let p = r.below(256) as usize;
            v[p / 8] |= 1 << (7 - p % 8);
        }
        4 => {
            v = [0xFF; 32];
            let p = r.below(256) as usize;
            v[p / 8] &= !(1 << (7 - p % 8));
        }
        _ => {
            let b = r.bytes(32);
            v.copy_from_slice(&b);
        }
    }
    let l = nl(v, len);
    if canonical || r.chance(3, 4) {
        from_bits(&bits_of(&l))
    } else {
        l
    }
}
/// a label related to `a`: same up to a random position, then differs / extends / truncates
pub fn gen_related(r: &mut Rng, a: &NodeLabel, canonical: bool) -> NodeLabel {
    let mut bits = bits_of(a);
    match r.below(5) {
        0 => {
            let k = r.below(bits.len() as u64 + 1) as usize;
            bits.truncate(k);
        }
        1 => {
            let extra = r.below((256 - bits.len()) as u64 + 1) as usize;
            for _ in 0..extra {
                bits.push(r.chance(1, 2));
            }
        }
        2 => {
            if !bits.is_empty() {
                let k = r.below(bits.len() as u64) as usize;
                bits[k] = !bits[k];
            }
        }
        3 => {
            if !bits.is_empty() {
                let k = r.below(bits.len() as u64) as usize;
                bits[k] = !bits[k];
                let keep = (k + 1 + r.below(9) as usize).min(bits.len());
                bits.truncate(keep);
                let extra = r.below((256 - bits.len()) as u64 + 1) as usize;
                for _ in 0..extra {
                    bits.push(r.chance(1, 2));
                }
            }
        }
        _ => {}
    }
    let mut l = from_bits(&bits);
    if !canonical && r.chance(1, 5) && l.label_len < 256 {
        // garbage beyond len
        let p = l.label_len as usize + r.below((256 - l.label_len) as u64) as usize;
        l.label_val[p / 8] |= 1 << (7 - p % 8);
    }
    l
}

pub struct Out {
    pub lines: String,
    pub oracle_failures: Vec<String>,
    pub n: usize,
}
impl Out {
    fn new() -> Self {
        Out { lines: String::new(), oracle_failures: vec![], n: 0 }
    }
    fn emit(&mut self, q: String, a: String) {
        writeln!(self.lines, "{} = {}", q, a).unwrap();
        self.n += 1;
    }
    fn check(&mut self, ok: bool, what: impl FnOnce() -> String) {
        if !ok {
            self.oracle_failures.push(what());
        }
    }
}

fn pord_str(p: PrefixOrdering) -> &'static str {
    match p {
        PrefixOrdering::WithZero => "Z",
        PrefixOrdering::WithOne => "O",
        PrefixOrdering::Invalid => "I",
    }
}

fn pair_ops<TC: Configuration>(o: &mut Out, cfg: &str, a: &NodeLabel, b: &NodeLabel) {
    let (ba, bb) = (bits_of(a), bits_of(b));
    // is_prefix_of
    let r = a.is_prefix_of(b);
    o.emit(format!("is_prefix {} {}", fmt_nl(a), fmt_nl(b)), format!("{}", r as u8));
    o.check(r == is_prefix_bits(&ba, &bb), || format!("is_prefix_of {} {} returned {}", fmt_nl(a), fmt_nl(b), r));
    // lcp
    let l = a.get_longest_common_prefix::<TC>(*b);
    o.emit(format!("lcp {} {} {}", cfg, fmt_nl(a), fmt_nl(b)), fmt_nl(&l));
    let empty = TC::empty_label();
    if *a == empty || *b == empty {
        o.check(l == empty, || format!("lcp with empty label {} {}", fmt_nl(a), fmt_nl(b)));
    } else {
        let want = lcp_bits(&ba, &bb);
        o.check(bits_of(&l) == want && l.label_len as usize == want.len(), || {
            format!("lcp {} {} returned {}", fmt_nl(a), fmt_nl(b), fmt_nl(&l))
        });
    }
    // prefix ordering
    let p = a.get_prefix_ordering(*b);
    o.emit(format!("pord {} {}", fmt_nl(a), fmt_nl(b)), pord_str(p).to_string());
    let want = if bb.len() > ba.len() && is_prefix_bits(&ba, &bb) {
        if bb[ba.len()] { PrefixOrdering::WithOne } else { PrefixOrdering::WithZero }
    } else {
        PrefixOrdering::Invalid
    };
    o.check(p == want, || format!("get_prefix_ordering {} {} returned {}", fmt_nl(a), fmt_nl(b), pord_str(p)));
    // cmp
    let c = a.cmp(b);
    o.emit(
        format!("cmp {} {}", fmt_nl(a), fmt_nl(b)),
        match c {
            std::cmp::Ordering::Less => "L",
            std::cmp::Ordering::Equal => "E",
            std::cmp::Ordering::Greater => "G",
        }
        .to_string(),
    );
    if from_bits(&ba) == *a && from_bits(&bb) == *b {
        let want = ba.len().cmp(&bb.len()).then_with(|| ba.cmp(&bb));
        o.check(c == want, || format!("cmp {} {} returned {:?}", fmt_nl(a), fmt_nl(b), c));
    }
}

fn prefix_ops(o: &mut Out, a: &NodeLabel, n: u32) {
    let p = a.get_prefix(n);
    o.emit(format!("get_prefix {} {}", fmt_nl(a), n), fmt_nl(&p));
    if n >= 256 {
        o.check(p == *a, || format!("get_prefix {} {} not identity", fmt_nl(a), n));
    } else if n <= a.label_len {
        let want = from_bits(&bits_of(a)[..n as usize]);
        o.check(p == want, || format!("get_prefix {} {} returned {}", fmt_nl(a), n, fmt_nl(&p)));
    }
}

fn fmt_elems(v: &[AzksElement]) -> String {
    let mut s = format!("{}", v.len());
    for e in v {
        write!(s, " {} {}", fmt_nl(&e.label), e.value.0[0]).unwrap();
    }
    s
}
fn sorted(mut v: Vec<AzksElement>) -> Vec<AzksElement> {
    v.sort_by(|a, b| a.label.cmp(&b.label).then(a.value.0.cmp(&b.value.0)));
    v
}

fn set_ops<TC: Configuration>(o: &mut Out, cfg: &str, elems: Vec<AzksElement>, prefix: NodeLabel, common: bool) {
    let (bs, set) = hk::element_set_from(elems.clone());
    // from: result as canonical multiset (ties of sort_unstable are unspecified)
    o.emit(format!("set_from {}", fmt_elems(&elems)), format!("{} {}", bs as u8, fmt_elems(&sorted(set.clone()))));
    let all_same = !elems.is_empty() && elems.iter().all(|e| e.label.label_len == elems[0].label.label_len);
    o.check(bs == all_same, || format!("set_from classification {}", fmt_elems(&elems)));
    o.check(sorted(set.clone()) == sorted(elems.clone()), || format!("set_from changed the multiset {}", fmt_elems(&elems)));
    if bs {
        o.check(set.windows(2).all(|w| w[0].label <= w[1].label), || format!("set_from not sorted {}", fmt_elems(&elems)));
    }
    // lcp of the set, both variants
    let l1 = hk::element_set_lcp::<TC>(bs, set.clone());
    let l2 = hk::element_set_lcp::<TC>(false, elems.clone());
    o.emit(format!("set_lcp {} {} {}", cfg, bs as u8, fmt_elems(&set)), fmt_nl(&l1));
    o.emit(format!("set_lcp {} 0 {}", cfg, fmt_elems(&elems)), fmt_nl(&l2));
    let empty = TC::empty_label();
    if !elems.is_empty() && elems.iter().all(|e| e.label != empty) {
        let mut want = bits_of(&elems[0].label);
        for e in &elems[1..] {
            want = lcp_bits(&want, &bits_of(&e.label));
        }
        // a fold that passes through the empty label (possible when an lcp is the 0-length label equal to
        // empty_label) is excluded: both configurations' empty labels are non-canonical, so it cannot
        o.check(bits_of(&l2) == want && l2.label_len as usize == want.len(), || format!("set lcp (unsorted) {} returned {}", fmt_elems(&elems), fmt_nl(&l2)));
        if elems.iter().all(|e| from_bits(&bits_of(&e.label)) == e.label) {
            o.check(l1 == l2, || format!("set lcp sorted {} vs unsorted {} for {}", fmt_nl(&l1), fmt_nl(&l2), fmt_elems(&elems)));
        }
    }
    // partition around a common prefix
    if common {
        let (pl, pr) = hk::element_set_partition(bs, set.clone(), prefix);
        let (ul, ur) = hk::element_set_partition(false, elems.clone(), prefix);
        o.emit(format!("set_part {} {} {}", bs as u8, fmt_elems(&set), fmt_nl(&prefix)), format!("{} {}", fmt_elems(&sorted(pl.clone())), fmt_elems(&sorted(pr.clone()))));
        o.emit(format!("set_part 0 {} {}", fmt_elems(&elems), fmt_nl(&prefix)), format!("{} {}", fmt_elems(&sorted(ul.clone())), fmt_elems(&sorted(ur.clone()))));
        let pb = bits_of(&prefix);
        let wl: Vec<AzksElement> = elems.iter().filter(|e| { let b = bits_of(&e.label); b.len() > pb.len() && is_prefix_bits(&pb, &b) && !b[pb.len()] }).cloned().collect();
        let wr: Vec<AzksElement> = elems.iter().filter(|e| { let b = bits_of(&e.label); b.len() > pb.len() && is_prefix_bits(&pb, &b) && b[pb.len()] }).cloned().collect();
        o.check(sorted(ul.clone()) == sorted(wl.clone()) && sorted(ur.clone()) == sorted(wr.clone()), || format!("partition (unsorted) {} around {}", fmt_elems(&elems), fmt_nl(&prefix)));
        o.check(sorted(pl) == sorted(wl) && sorted(pr) == sorted(wr), || format!("partition (binary-searchable) {} around {}", fmt_elems(&set), fmt_nl(&prefix)));
    }
    // contains_prefix (canonical prefix)
    let cp1 = hk::element_set_contains_prefix(bs, set.clone(), &prefix);
    let cp2 = hk::element_set_contains_prefix(false, elems.clone(), &prefix);
    o.emit(format!("set_cp {} {} {}", bs as u8, fmt_elems(&set), fmt_nl(&prefix)), format!("{}", cp1 as u8));
    o.emit(format!("set_cp 0 {} {}", fmt_elems(&elems), fmt_nl(&prefix)), format!("{}", cp2 as u8));
    let pb = bits_of(&prefix);
    let want = elems.iter().any(|e| is_prefix_bits(&pb, &bits_of(&e.label)));
    o.check(cp2 == want, || format!("contains_prefix (unsorted) {} {}", fmt_elems(&elems), fmt_nl(&prefix)));
    // the binary-searchable variant is only specified for a prefix no longer than the (equal-length)
    // labels of the set: a longer "prefix" is compared by raw bytes (observed; not part of C17)
    if elems.iter().all(|e| from_bits(&bits_of(&e.label)) == e.label && prefix.label_len <= e.label.label_len) {
        o.check(cp1 == want, || format!("contains_prefix (binary-searchable) {} {}", fmt_elems(&set), fmt_nl(&prefix)));
    }
}

fn small_labels(maxbits: u32) -> Vec<NodeLabel> {
    let mut v = vec![];
    for len in 0..=maxbits {
        for x in 0..(1u32 << len) {
            let bits: Vec<bool> = (0..len).map(|i| (x >> (len - 1 - i)) & 1 == 1).collect();
            v.push(from_bits(&bits));
        }
    }
    v
}

/// tier: 0 = quick, 1 = thorough
pub fn run(seed: u64, tier: u32) -> Out {
    let mut o = Out::new();
    let mut r = Rng::new(seed);
    // exhaustive small pairs
    let maxbits = if tier == 0 { 4 } else { 6 };
    let sm = small_labels(maxbits);
    for a in &sm {
        for b in &sm {
            pair_ops::<W>(&mut o, "w", a, b);
        }
        for n in 0..=a.label_len + 1 {
            prefix_ops(&mut o, a, n);
        }
    }
    // the two empty labels against small labels
    for b in sm.iter().take(40) {
        pair_ops::<W>(&mut o, "w", &W::empty_label(), b);
        pair_ops::<W>(&mut o, "w", b, &W::empty_label());
        pair_ops::<E>(&mut o, "e", &E::empty_label(), b);
        pair_ops::<E>(&mut o, "e", b, &E::empty_label());
    }
    // structured long labels
    let n = if tier == 0 { 1500 } else { 20000 };
    for i in 0..n {
        let a = gen_label(&mut r, false);
        let b = if r.chance(4, 5) { gen_related(&mut r, &a, false) } else { gen_label(&mut r, false) };
        if i % 2 == 0 {
            pair_ops::<W>(&mut o, "w", &a, &b);
        } else {
            pair_ops::<E>(&mut o, "e", &a, &b);
        }
        let k = match r.below(4) {
            0 => r.below(258) as u32,
            1 => a.label_len,
            2 => a.label_len.saturating_sub(1),
            _ => r.below(a.label_len as u64 + 1) as u32,
        };
        prefix_ops(&mut o, &a, k);
    }
    // all byte boundaries with a single set bit / all ones
    for len in 0..=256u32 {
        let a = from_bits(&vec![true; len as usize]);
        for k in [len.saturating_sub(1), len, (len + 1).min(256)] {
            let mut bb = vec![true; k as usize];
            if k > 0 && len % 3 == 0 {
                let idx = (k - 1) as usize;
                bb[idx] = false;
            }
            let b = from_bits(&bb);
            pair_ops::<W>(&mut o, "w", &a, &b);
        }
        prefix_ops(&mut o, &nl([0xFF; 32], 256), len);
        prefix_ops(&mut o, &nl([0xFF; 32], len), len);
    }
    // element sets: all sets of size <= 3 over the 3-bit universe (quick: sampled)
    let uni = small_labels(3);
    let mk = |l: &NodeLabel, v: u8| AzksElement { label: *l, value: AzksValue([v; 32]) };
    let nsets = if tier == 0 { 600 } else { 6000 };
    for _ in 0..nsets {
        let k = r.below(5) as usize;
        let same_len = r.chance(1, 2);
        let len = r.below(4) as u32;
        let mut elems = vec![];
        for j in 0..k {
            let cand: Vec<NodeLabel> = uni.iter().cloned().filter(|l| !same_len || l.label_len == len).collect();
            elems.push(mk(r.pick(&cand), j as u8 + 1));
        }
        // common prefix: lcp of all, truncated randomly
        let mut pb: Vec<bool> = if elems.is_empty() { vec![] } else { bits_of(&elems[0].label) };
        for e in &elems {
            pb = lcp_bits(&pb, &bits_of(&e.label));
        }
        let cut = r.below(pb.len() as u64 + 1) as usize;
        pb.truncate(cut);
        let prefix = from_bits(&pb);
        set_ops::<W>(&mut o, "w", elems.clone(), prefix, true);
        // arbitrary prefix for contains_prefix / lcp only
        let p2 = *r.pick(&uni);
        set_ops::<E>(&mut o, "e", elems, p2, false);
    }
    // long-label sets sharing a prefix across byte boundaries
    let nlong = if tier == 0 { 300 } else { 4000 };
    for _ in 0..nlong {
        let base = gen_label(&mut r, true);
        let k = 1 + r.below(6) as usize;
        let same_len = r.chance(2, 3);
        let mut elems = vec![];
        for j in 0..k {
            let mut bits = bits_of(&base);
            if same_len {
                while bits.len() < 256 { bits.push(r.chance(1, 2)); }
            } else {
                let extra = 1 + r.below((256 - bits.len()).max(1) as u64) as usize;
                for _ in 0..extra { if bits.len() < 256 { bits.push(r.chance(1, 2)); } }
            }
            elems.push(mk(&from_bits(&bits), j as u8 + 1));
        }
        let mut pb = bits_of(&elems[0].label);
        for e in &elems { pb = lcp_bits(&pb, &bits_of(&e.label)); }
        let cut = if r.chance(1, 2) { pb.len() } else { r.below(pb.len() as u64 + 1) as usize };
        pb.truncate(cut);
        set_ops::<W>(&mut o, "w", elems, from_bits(&pb), true);
    }
    o
}
