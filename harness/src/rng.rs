//! Deterministic PRNG: every random choice of the harness derives from one xorshift64* state.
#[derive(Clone)]
pub struct Rng(pub u64);
impl Rng {
    pub fn new(seed: u64) -> Self {
        let mut r = Rng(seed ^ 0x9E3779B97F4A7C15);
        if r.0 == 0 {
            r.0 = 0x1234_5678_9ABC_DEF1;
        }
        for _ in 0..4 {
            r.next();
        }
        r
    }
    pub fn next(&mut self) -> u64 {
        let mut x = self.0;
        x ^= x >> 12;
        x ^= x << 25;
        x ^= x >> 27;
        self.0 = x;
        x.wrapping_mul(0x2545F4914F6CDD1D)
    }
    pub fn below(&mut self, n: u64) -> u64 {
        if n == 0 {
            0
        } else {
            self.next() % n
        }
    }
    pub fn chance(&mut self, num: u64, den: u64) -> bool {
        self.below(den) < num
    }
    pub fn pick<'a, T>(&mut self, v: &'a [T]) -> &'a T {
        &v[self.below(v.len() as u64) as usize]
    }
    pub fn bytes(&mut self, n: usize) -> Vec<u8> {
        (0..n).map(|_| self.next() as u8).collect()
    }
    pub fn shuffle<T>(&mut self, v: &mut [T]) {
        for i in (1..v.len()).rev() {
            let j = self.below(i as u64 + 1) as usize;
            v.swap(i, j);
        }
    }
}
