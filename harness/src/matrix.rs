//! C14: the same publish history under every parallelism / cache / restart / read-only / configuration
//! combination must give identical epoch hashes, verification outcomes and verified results; the
//! same leaf set inserted in any order or split into sub-batches within one epoch gives the same tree.
//! C20: tombstoning old values changes nothing the directory has committed to.
use crate::dirs::*;
use crate::faults::canon_dump;
use crate::rng::Rng;
use crate::treeutil::*;
use akd::append_only_zks::{AzksParallelismConfig, AzksParallelismOption, InsertMode};
use akd::client::{key_history_verify, lookup_verify};
use akd::directory::{Directory, ReadOnlyDirectory};
use akd::ecvrf::{HardCodedAkdVRF, VRFKeyStorage};
use akd::storage::manager::StorageManager;
use akd::storage::StorageUtil;
use akd::{AkdLabel, AkdValue, AzksElement, HistoryParams, HistoryVerificationParams};
use akd_core::configuration::Configuration;
use std::fmt::Write as _;
use std::time::Duration;

fn par_cfg(k: u32) -> AzksParallelismConfig {
    let opt = |k: u32| match k {
        0 => AzksParallelismOption::Disabled,
        100 => AzksParallelismOption::AvailableOr(3),
        n => AzksParallelismOption::Static(n),
    };
    AzksParallelismConfig { insertion: opt(k), preload: opt(k) }
}
fn manager(db: &Db, cache: u32) -> StorageManager<Db> {
    match cache {
        0 => StorageManager::new_no_cache(db.clone()),
        1 => StorageManager::new(db.clone(), None, None, None),
        2 => StorageManager::new(db.clone(), Some(Duration::from_millis(2)), None, Some(Duration::from_millis(2))),
        _ => StorageManager::new(db.clone(), Some(Duration::from_millis(50)), Some(600), Some(Duration::from_millis(2))),
    }
}

/// everything a client can observe after the history: epoch hashes, verdicts and verified results
async fn observe<TC: Configuration>(db: &Db, cache: u32, par: u32, read_only: bool, labels: &[Vec<u8>], epoch: u64, hashes: &[[u8; 32]]) -> String {
    let pk = HardCodedAkdVRF {}.get_vrf_public_key().await.unwrap().as_bytes().to_vec();
    let mut s = String::new();
    // the read-only wrapper serves the same functions; both are exercised through the same code path below
    let dir = Directory::<TC, _, _>::new(manager(db, cache), HardCodedAkdVRF {}, par_cfg(par)).await.unwrap();
    let ro = if read_only { Some(ReadOnlyDirectory::<TC, _, _>::new(manager(db, cache), HardCodedAkdVRF {}, par_cfg(par)).await.unwrap()) } else { None };
    let eh = match &ro { Some(r) => r.get_epoch_hash().await, None => dir.get_epoch_hash().await };
    write!(s, "eh {:?};", eh.map(|e| (e.0, hx(&e.1))).map_err(|_| "err")).unwrap();
    for l in labels {
        let al = AkdLabel(l.clone());
        let lk = match &ro { Some(r) => r.lookup(al.clone()).await, None => dir.lookup(al.clone()).await };
        match lk {
            Ok((p, e)) => {
                let v = lookup_verify::<TC>(&pk, e.1, e.0, al.clone(), p);
                write!(s, "L {} {} {:?};", hb(l), e.0, v.map(|r| (r.epoch, r.version, hb(&r.value.0))).map_err(|_| "rej")).unwrap();
            }
            Err(_) => write!(s, "L {} err;", hb(l)).unwrap(),
        }
        for hp in [HistoryParams::Complete, HistoryParams::MostRecent(2)] {
            let kh = match &ro { Some(r) => r.key_history(&al, hp).await, None => dir.key_history(&al, hp).await };
            match kh {
                Ok((p, e)) => {
                    let v = key_history_verify::<TC>(&pk, e.1, e.0, al.clone(), p, HistoryVerificationParams::Default { history_params: hp });
                    write!(s, "H {} {:?};", hb(l), v.map(|rs| rs.iter().map(|r| (r.epoch, r.version, hb(&r.value.0))).collect::<Vec<_>>()).map_err(|_| "rej")).unwrap();
                }
                Err(_) => write!(s, "H {} err;", hb(l)).unwrap(),
            }
        }
    }
    for (a, b) in [(0u64, epoch), (epoch.saturating_sub(2), epoch), (0, 1.min(epoch))] {
        if a < b {
            let au = match &ro { Some(r) => r.audit(a, b).await, None => dir.audit(a, b).await };
            match au {
                Ok(p) => {
                    let v = akd::auditor::audit_verify::<TC>(hashes[a as usize..=b as usize].to_vec(), p).await;
                    write!(s, "A {} {} {};", a, b, v.is_ok()).unwrap();
                }
                Err(_) => write!(s, "A {} {} err;", a, b).unwrap(),
            }
        }
    }
    s
}

async fn c14_history<TC: Configuration>(cx: &mut Cx, r: &mut Rng, thorough: bool) {
    let cfg = cfg_name::<TC>();
    let labels = label_universe(r, 6);
    let nep = 5;
    let mut batches: Vec<Vec<(Vec<u8>, Vec<u8>)>> = vec![];
    for e in 0..nep {
        let mut b = vec![];
        for l in &labels {
            if r.chance(1, 2) || e == 0 {
                b.push((l.clone(), vec![e as u8 + 1, r.next() as u8]));
            }
        }
        batches.push(b);
    }
    let pars: Vec<u32> = if thorough { vec![0, 1, 2, 3, 5, 32, 100] } else { vec![0, 1, 2, 32, 100] };
    let caches: Vec<u32> = if thorough { vec![0, 1, 2, 3] } else { vec![0, 1, 2, 3] };
    let mut baseline: Option<(Vec<[u8; 32]>, Vec<String>, String)> = None;
    for &par in &pars {
        for &cache in &caches {
            for restart in [false, true] {
                if !thorough && restart && (par + cache) % 2 == 0 {
                    continue;
                }
                let db = Db::new();
                let mut dir = Directory::<TC, _, _>::new(manager(&db, cache), HardCodedAkdVRF {}, par_cfg(par)).await.unwrap();
                let mut hashes = vec![dir.get_epoch_hash().await.unwrap().1];
                for b in &batches {
                    if restart {
                        // the directory object is dropped and re-created over the same storage
                        dir = Directory::<TC, _, _>::new(manager(&db, cache), HardCodedAkdVRF {}, par_cfg(par)).await.unwrap();
                    }
                    if cache >= 2 {
                        tokio::time::sleep(Duration::from_millis(3)).await;
                    }
                    // (in a task of its own, so that a panic inside the library is reported with its configuration)
                    let d2 = dir.clone();
                    let ups: Vec<(AkdLabel, AkdValue)> = b.iter().map(|(l, v)| (AkdLabel(l.clone()), AkdValue(v.clone()))).collect();
                    match tokio::spawn(async move { d2.publish(ups).await }).await {
                        Ok(Ok(eh)) => hashes.push(eh.1),
                        Ok(Err(e)) => {
                            cx.fail(format!("C14 [cfg {} parallelism {} cache {} restart {}]: publish failed: {:?}", cfg, par, cache, restart, e));
                            return;
                        }
                        Err(e) => {
                            cx.fail(format!("C14 [cfg {} parallelism {} cache {} restart {}]: publish panicked although the same history is published without error sequentially: {}", cfg, par, cache, restart, e));
                            return;
                        }
                    }
                }
                let dump = canon_dump(db.batch_get_all_direct().await.unwrap());
                let obs = observe::<TC>(&db, cache, par, restart, &labels, nep as u64, &hashes).await;
                cx.stat("c14_variants");
                cx.note(format!("C14 cfg {} parallelism {} cache {} restart/read-only {} -> {} epochs, observed {} bytes", cfg, par, cache, restart, hashes.len() - 1, obs.len()));
                match &baseline {
                    None => baseline = Some((hashes, dump, obs)),
                    Some((bh, bd, bo)) => {
                        let what = format!("[cfg {} parallelism {} cache {} restart/read-only {}]", cfg, par, cache, restart);
                        if &hashes != bh {
                            cx.fail(format!("C14 {}: epoch hashes differ from the sequential uncached run", what));
                        } else if &dump != bd {
                            cx.fail(format!("C14 {}: the stored directory state differs from the sequential uncached run", what));
                        } else if &obs != bo {
                            let i = obs.chars().zip(bo.chars()).position(|(a, b)| a != b).unwrap_or(0);
                            cx.fail(format!("C14 {}: verification outcomes / verified results differ from the sequential uncached run near: {} vs {}", what, &obs[i.saturating_sub(40)..(i + 60).min(obs.len())], &bo[i.saturating_sub(40)..(i + 60).min(bo.len())]));
                        }
                    }
                }
            }
        }
    }
    // the baseline's observable results must be all-accepting for published labels (sanity of the comparison)
    if let Some((_, _, bo)) = &baseline {
        if bo.contains("rej") || bo.contains("false") {
            cx.fail(format!("C14 [cfg {}]: the baseline run itself has a rejected proof: {}", cfg, &bo[..bo.len().min(300)]));
        }
    }
}

/// same leaf set: any order, any split into sub-batches within one epoch, sorted or unsorted insertion path
async fn c14_insert_orders<TC: Configuration>(cx: &mut Cx, r: &mut Rng, n: usize) {
    let cfg = cfg_name::<TC>();
    for _ in 0..n {
        let k = 2 + r.below(10) as usize;
        let mut leaves: Vec<AzksElement> = vec![];
        let base = r.bytes(32);
        for i in 0..k {
            let mut bits = bits_of(&akd::NodeLabel::new(base.clone().try_into().unwrap(), 256));
            let cut = r.below(40) as usize;
            for b in bits.iter_mut().skip(cut) {
                *b = r.chance(1, 2);
            }
            let l = from_bits(&bits);
            if leaves.iter().all(|e| e.label != l) {
                leaves.push(elem(l, [i as u8 + 1; 32]));
            }
        }
        // reference: one batch, epoch 1
        let mut a = RealAzks::new::<TC>().await;
        a.insert::<TC>(leaves.clone(), InsertMode::Directory).await.unwrap();
        let href = a.root_hash::<TC>().await;
        let dref = canon_dump(a.db.batch_get_all_direct().await.unwrap());
        let mut q = format!("ins {} d 1 {}", cfg, ser_elems(&leaves));
        let m = a.dump().await;
        let mut ts = String::new();
        ser_tree(&m, &akd::NodeLabel::root(), 1, &mut ts);
        write!(q, "").unwrap();
        cx.emit(q, format!("{} {} {} {}", hx(&href), 1, a.azks.num_nodes, ts.trim_end()));
        // permuted
        let mut p = leaves.clone();
        r.shuffle(&mut p);
        let mut b = RealAzks::new::<TC>().await;
        b.insert::<TC>(p.clone(), InsertMode::Directory).await.unwrap();
        cx.stat("c14_orders");
        if b.root_hash::<TC>().await != href || canon_dump(b.db.batch_get_all_direct().await.unwrap()) != dref {
            cx.fail(format!("C14 [cfg {}]: inserting the same {} leaves in another order gives another tree", cfg, leaves.len()));
        }
        // split into sub-batches within the same epoch
        let mut c = RealAzks::new::<TC>().await;
        let cuts = 1 + r.below(3) as usize;
        let mut rest = p.clone();
        for _ in 0..cuts {
            if rest.len() < 2 {
                break;
            }
            let at = 1 + r.below(rest.len() as u64 - 1) as usize;
            let tail = rest.split_off(at);
            c.azks.latest_epoch = 0;
            c.insert::<TC>(rest, InsertMode::Directory).await.unwrap();
            rest = tail;
        }
        c.azks.latest_epoch = 0;
        c.insert::<TC>(rest, InsertMode::Directory).await.unwrap();
        if c.root_hash::<TC>().await != href {
            cx.fail(format!("C14 [cfg {}]: inserting the same {} leaves split into sub-batches of one epoch gives another root hash", cfg, leaves.len()));
        }
        // the unsorted insertion path (mixed lengths are needed to reach it: add and compare via the auditor mode on equal sets)
        let mut d = RealAzks::new::<TC>().await;
        d.insert::<TC>(p.clone(), InsertMode::Auditor).await.unwrap();
        let mut e = RealAzks::new::<TC>().await;
        e.insert::<TC>(leaves.clone(), InsertMode::Auditor).await.unwrap();
        if d.root_hash::<TC>().await != e.root_hash::<TC>().await {
            cx.fail(format!("C14 [cfg {}]: auditor-mode insertion depends on the order of the leaves", cfg));
        }
    }
}

// ------------------------------------------------------------------ C20

async fn c20_history<TC: Configuration>(cx: &mut Cx, r: &mut Rng, dense: bool) {
    let cfg = cfg_name::<TC>();
    let labels = label_universe(r, 4);
    let db = Db::new();
    let st = StorageManager::new_no_cache(db.clone());
    let dir = Directory::<TC, _, _>::new(st.clone(), HardCodedAkdVRF {}, AzksParallelismConfig::disabled()).await.unwrap();
    let pk = HardCodedAkdVRF {}.get_vrf_public_key().await.unwrap().as_bytes().to_vec();
    let mut t = Truth::default();
    t.hashes.push(dir.get_epoch_hash().await.unwrap().1);
    let nep = 6;
    for e in 0..nep {
        let mut b = vec![];
        for (i, l) in labels.iter().enumerate() {
            // dense: the target changes in every epoch (version = epoch); otherwise its versions lag behind
            // the epochs, which another label keeps advancing
            let take = if dense { i == 0 || r.chance(1, 2) } else { (i == 0 && (e == 0 || e == 2 || e == 5)) || i == 1 || (i > 1 && r.chance(1, 2)) };
            if take {
                b.push((l.clone(), vec![e as u8 + 1, i as u8 + 1]));
            }
        }
        let res = dir.publish(b.iter().map(|(l, v)| (AkdLabel(l.clone()), AkdValue(v.clone()))).collect()).await.unwrap();
        if t.apply(&b) {
            t.hashes.push(res.1);
        }
    }
    let target = labels[0].clone();
    let vers = t.versions[&target].clone();
    let latest_epoch_of_target = vers.last().unwrap().2;
    // snapshot of everything before tombstoning
    let snap = |d: &Directory<TC, Db, HardCodedAkdVRF>| {
        let d = d.clone();
        let labels = labels.clone();
        let ep = t.epoch;
        async move {
            let mut out: Vec<String> = vec![];
            out.push(format!("{:?}", d.get_epoch_hash().await.map(|e| (e.0, hx(&e.1))).map_err(|_| ())));
            out.push(format!("{:?}", d.audit(0, ep).await.map(|p| ser_audit(&p)).map_err(|_| ())));
            for l in &labels {
                out.push(format!("{:?}", d.lookup(AkdLabel(l.clone())).await.map(|(p, e)| (ser_lookup(&p), e.0)).map_err(|_| ())));
                out.push(format!("{:?}", d.key_history(&AkdLabel(l.clone()), HistoryParams::Complete).await.map(|(p, _)| ser_history(&p)).map_err(|_| ())));
            }
            out
        }
    };
    let before = snap(&dir).await;
    for cut in 0..=t.epoch {
        // tombstone on a copy of the storage
        let db2 = Db::new();
        use akd::storage::{Database, DbSetState};
        db2.batch_set(db.batch_get_all_direct().await.unwrap(), DbSetState::General).await.unwrap();
        let st2 = StorageManager::new_no_cache(db2.clone());
        let dir2 = Directory::<TC, _, _>::new(st2.clone(), HardCodedAkdVRF {}, AzksParallelismConfig::disabled()).await.unwrap();
        st2.tombstone_value_states(&AkdLabel(target.clone()), cut).await.unwrap();
        cx.stat("c20_cutoffs");
        cx.note(format!("C20 cfg {} cut-off {} of {} target versions at epochs {:?}", cfg, cut, t.epoch, vers.iter().map(|x| x.2).collect::<Vec<_>>()));
        let what = format!("[cfg {} tombstone cut-off {} of {} (target updated in epochs {:?})]", cfg, cut, t.epoch, vers.iter().map(|x| x.2).collect::<Vec<_>>());
        let after = snap(&dir2).await;
        // index: 0 epoch hash, 1 audit, then per label (lookup, history)
        if after[0] != before[0] || after[1] != before[1] {
            cx.fail(format!("C20 {}: epoch hash or audit proof changed", what));
        }
        for (i, l) in labels.iter().enumerate() {
            let (lk_b, lk_a) = (&before[2 + 2 * i], &after[2 + 2 * i]);
            let (h_b, h_a) = (&before[3 + 2 * i], &after[3 + 2 * i]);
            if l != &target {
                if lk_b != lk_a || h_b != h_a {
                    cx.fail(format!("C20 {}: proofs of another label ({}) changed", what, hb(l)));
                }
            } else if cut < latest_epoch_of_target && lk_b != lk_a {
                cx.fail(format!("C20 {}: the label's own lookup proof changed although the cut-off is before its latest update", what));
            }
        }
        // the label's history: AllowMissingValues verifies with tombstoned values empty, Default rejects iff a tombstoned (non-empty) entry is included
        for hp in [HistoryParams::Complete, HistoryParams::MostRecent(1), HistoryParams::MostRecent(2), HistoryParams::MostRecent(vers.len())] {
            let (p, e) = match dir2.key_history(&AkdLabel(target.clone()), hp).await {
                Ok(x) => x,
                Err(er) => {
                    cx.fail(format!("C20 {}: key_history failed after tombstoning: {:?}", what, er));
                    continue;
                }
            };
            // the proof reaches the client over the wire: through the protobuf types and back
            let p = {
                use protobuf::Message;
                use std::convert::TryFrom;
                let bytes = akd_core::proto::specs::types::HistoryProof::from(&p).write_to_bytes().unwrap();
                match akd_core::proto::specs::types::HistoryProof::parse_from_bytes(&bytes).map_err(|e| e.to_string()).and_then(|m| akd::HistoryProof::try_from(&m).map_err(|e| e.to_string())) {
                    Ok(q) => q,
                    Err(er) => {
                        cx.fail(format!("C20 {}: the history proof of the tombstoned label does not survive the protobuf encoding: {}", what, er));
                        continue;
                    }
                }
            };
            let bound = match hp { HistoryParams::Complete => vers.len(), HistoryParams::MostRecent(n) => n.min(vers.len()) };
            let included: Vec<&(u64, Vec<u8>, u64)> = vers.iter().rev().take(bound).collect();
            let any_tomb = included.iter().any(|x| x.2 <= cut && !x.1.is_empty());
            let va = key_history_verify::<TC>(&pk, e.1, e.0, AkdLabel(target.clone()), p.clone(), HistoryVerificationParams::AllowMissingValues { history_params: hp });
            let vd = key_history_verify::<TC>(&pk, e.1, e.0, AkdLabel(target.clone()), p.clone(), HistoryVerificationParams::Default { history_params: hp });
            let ps = match hp { HistoryParams::Complete => "c".to_string(), HistoryParams::MostRecent(m) => format!("m{}", m) };
            match va {
                Ok(rs) => {
                    let want: Vec<(u64, u64, Vec<u8>)> = included.iter().map(|x| (x.2, x.0, if x.2 <= cut { vec![] } else { x.1.clone() })).collect();
                    let got: Vec<(u64, u64, Vec<u8>)> = rs.iter().map(|x| (x.epoch, x.version, x.value.0.clone())).collect();
                    if got != want {
                        cx.fail(format!("C20 {}: history ({}) with AllowMissingValues verified to {:?}, expected {:?}", what, ps, got, want));
                    }
                }
                Err(er) => cx.fail(format!("C20 {}: history ({}) does not verify with AllowMissingValues: {:?}", what, ps, er)),
            }
            if vd.is_ok() == any_tomb {
                cx.fail(format!("C20 {}: Default verification of history ({}) {} although the range {} a tombstoned entry", what, ps, if vd.is_ok() { "accepted" } else { "rejected" }, if any_tomb { "includes" } else { "does not include" }));
            }
        }
        // further publishes after tombstoning commute with it
        let b = vec![(target.clone(), vec![77u8, cut as u8]), (labels[1].clone(), vec![78u8, cut as u8])];
        let up: Vec<(AkdLabel, AkdValue)> = b.iter().map(|(l, v)| (AkdLabel(l.clone()), AkdValue(v.clone()))).collect();
        let r1 = dir2.publish(up.clone()).await;
        let db3 = Db::new();
        db3.batch_set(db.batch_get_all_direct().await.unwrap(), DbSetState::General).await.unwrap();
        let st3 = StorageManager::new_no_cache(db3.clone());
        let dir3 = Directory::<TC, _, _>::new(st3.clone(), HardCodedAkdVRF {}, AzksParallelismConfig::disabled()).await.unwrap();
        let r2 = dir3.publish(up).await;
        st3.tombstone_value_states(&AkdLabel(target.clone()), cut).await.unwrap();
        match (r1, r2) {
            (Ok(a), Ok(b2)) => {
                if a != b2 || canon_dump(db2.batch_get_all_direct().await.unwrap()) != canon_dump(db3.batch_get_all_direct().await.unwrap()) {
                    cx.fail(format!("C20 {}: publishing after tombstoning differs from tombstoning after publishing", what));
                }
            }
            (a, b2) => cx.fail(format!("C20 {}: publish around tombstoning failed: {:?} {:?}", what, a.map(|x| x.0), b2.map(|x| x.0))),
        }
    }
}

pub fn run(seed: u64, tier: u32, which: &str) -> Cx {
    let rt = tokio::runtime::Builder::new_multi_thread().worker_threads(4).enable_all().build().unwrap();
    let mut cx = Cx::new();
    let mut r = Rng::new(seed ^ 0xC14);
    rt.block_on(async {
        if which == "c14" {
            c14_history::<W>(&mut cx, &mut r, tier != 0).await;
            c14_history::<E>(&mut cx, &mut r, tier != 0).await;
            let n = if tier == 0 { 25 } else { 400 };
            c14_insert_orders::<W>(&mut cx, &mut r, n).await;
            c14_insert_orders::<E>(&mut cx, &mut r, n).await;
        } else {
            let n = if tier == 0 { 1 } else { 8 };
            for _ in 0..n {
                c20_history::<W>(&mut cx, &mut r, true).await;
                c20_history::<E>(&mut cx, &mut r, true).await;
                c20_history::<W>(&mut cx, &mut r, false).await;
                c20_history::<E>(&mut cx, &mut r, false).await;
            }
        }
    });
    if which != "c14" {
        // tombstoning truly parallel to a publisher and readers (own multi-thread runtime)
        let n = if tier == 0 { 25 } else { 200 };
        crate::sched::c20_parallel::<W>(&mut cx, n, true);
        crate::sched::c20_parallel::<W>(&mut cx, n, false);
        crate::sched::c20_parallel::<E>(&mut cx, n / 2, true);
    }
    cx
}
