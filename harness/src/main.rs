//! Verification harness for facebook/akd: runs the implementation (from /repo's working tree) on
//! generated inputs and prints canonical traces for the correspondence with the Coq model, plus
//! the result of per-property direct oracles.
mod advdir;
mod audits;
mod dirs;
mod faultdb;
mod faults;
mod labels;
mod markers;
mod matrix;
mod mgr;
mod proofs;
mod rng;
mod sched;
mod treeutil;
mod wire;

use std::io::Write;

fn arg<T: std::str::FromStr>(args: &[String], i: usize, d: T) -> T {
    args.get(i).and_then(|s| s.parse().ok()).unwrap_or(d)
}

fn main() {
    let args: Vec<String> = std::env::args().collect();
    let cmd = args.get(1).map(|s| s.as_str()).unwrap_or("");
    let out = std::io::stdout();
    let mut out = out.lock();
    match cmd {
        "k3probe" => {
            for f in sched::k3_probe(arg(&args, 2, 0u32)) {
                writeln!(out, "K3PROBE {}", f).unwrap();
            }
        }
        "labels" => {
            let o = labels::run(arg(&args, 2, 1u64), arg(&args, 3, 0u32));
            out.write_all(o.lines.as_bytes()).unwrap();
            for f in &o.oracle_failures {
                writeln!(out, "ORACLE-FAIL {}", f).unwrap();
            }
            writeln!(out, "SUMMARY cases={} oracle_failures={}", o.n, o.oracle_failures.len()).unwrap();
        }
        "markers" => {
            let mut s = String::new();
            let (n, fails) = markers::run(arg(&args, 2, 1u64), arg(&args, 3, 0u32), &mut s);
            out.write_all(s.as_bytes()).unwrap();
            for f in &fails {
                writeln!(out, "ORACLE-FAIL {}", f).unwrap();
            }
            writeln!(out, "SUMMARY cases={} oracle_failures={}", n, fails.len()).unwrap();
        }
        "trees" => {
            let cx = proofs::run(arg(&args, 2, 1u64), arg(&args, 3, 0u32));
            out.write_all(cx.out.as_bytes()).unwrap();
            for f in &cx.fails {
                writeln!(out, "ORACLE-FAIL {}", f).unwrap();
            }
            let mut st: Vec<_> = cx.stats.iter().collect();
            st.sort();
            write!(out, "STAT").unwrap();
            for (k, v) in st {
                write!(out, " {}={}", k, v).unwrap();
            }
            writeln!(out).unwrap();
            writeln!(out, "SUMMARY cases={} oracle_failures={}", cx.cases, cx.fails.len()).unwrap();
        }
        "mgr" => {
            let o = mgr::run(arg(&args, 2, 1u64), arg(&args, 3, 0u32));
            out.write_all(o.lines.as_bytes()).unwrap();
            for f in &o.fails {
                writeln!(out, "ORACLE-FAIL {}", f).unwrap();
            }
            writeln!(out, "SUMMARY cases={} sequences={} oracle_failures={}", o.cases, o.seqs, o.fails.len()).unwrap();
        }
        "dirs" | "advdir" | "c10" | "c11" | "c12" | "c13" | "c14" | "c20" | "c18" | "c19" | "proto" | "c13par" => {
            let cx = match cmd {
                "dirs" => dirs::run(arg(&args, 2, 1u64), arg(&args, 3, 0u32)),
                "advdir" => advdir::run(arg(&args, 2, 1u64), arg(&args, 3, 0u32)),
                "c18" | "c19" => wire::run(arg(&args, 2, 1u64), arg(&args, 3, 0u32), cmd),
                "c14" | "c20" => matrix::run(arg(&args, 2, 1u64), arg(&args, 3, 0u32), cmd),
                "c12" | "c13" => sched::run(arg(&args, 2, 1u64), arg(&args, 3, 0u32), cmd),
                "proto" => sched::proto(arg(&args, 2, 1u64), arg(&args, 3, 0u32)),
                "c13par" => sched::c13par(arg(&args, 2, 1u64), arg(&args, 3, 0u32)),
                _ => faults::run(arg(&args, 2, 1u64), arg(&args, 3, 0u32), cmd),
            };
            out.write_all(cx.out.as_bytes()).unwrap();
            for f in &cx.fails {
                writeln!(out, "ORACLE-FAIL {}", f).unwrap();
            }
            write!(out, "STAT").unwrap();
            for (k, v) in &cx.stats {
                write!(out, " {}={}", k, v).unwrap();
            }
            writeln!(out).unwrap();
            writeln!(out, "SUMMARY cases={} oracle_failures={}", cx.cases, cx.fails.len()).unwrap();
        }
        "audits" => {
            let cx = audits::run(arg(&args, 2, 1u64), arg(&args, 3, 0u32));
            out.write_all(cx.out.as_bytes()).unwrap();
            for f in &cx.fails {
                writeln!(out, "ORACLE-FAIL {}", f).unwrap();
            }
            let mut st: Vec<_> = cx.stats.iter().collect();
            st.sort();
            write!(out, "STAT").unwrap();
            for (k, v) in st {
                write!(out, " {}={}", k, v).unwrap();
            }
            writeln!(out).unwrap();
            writeln!(out, "SUMMARY cases={} oracle_failures={}", cx.cases, cx.fails.len()).unwrap();
        }
        _ => {
            eprintln!("usage: akd-verif-harness <labels> seed tier");
            std::process::exit(2);
        }
    }
}
