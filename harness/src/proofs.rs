//! C05 (X-tree, X-proof, X-verify): trees built by the real Azks, honest and adversarial
//! membership / non-membership proofs, ground truth of every accepted proof.
use crate::rng::Rng;
use crate::treeutil::*;
use akd::append_only_zks::InsertMode;
use akd::client::{verify_membership_for_tests_only, verify_nonmembership_for_tests_only};
use akd::tree_node::{TreeNode, TreeNodeType, TreeNodeWithPreviousValue};
use akd::{AzksElement, AzksValue, Direction, MembershipProof, NodeLabel, NonMembershipProof};
use akd_core::configuration::Configuration;
use std::collections::{HashMap, HashSet};
use std::fmt::Write as _;

pub struct Ctx {
    pub out: String,
    pub fails: Vec<String>,
    pub cases: usize,
    pub stats: HashMap<&'static str, u64>,
}
impl Ctx {
    pub fn new() -> Self {
        Ctx { out: String::new(), fails: vec![], cases: 0, stats: HashMap::new() }
    }
    pub fn emit(&mut self, q: String, a: String) {
        writeln!(self.out, "{} = {}", q, a).unwrap();
        self.cases += 1;
    }
    pub fn stat(&mut self, k: &'static str) {
        *self.stats.entry(k).or_insert(0) += 1;
    }
    pub fn fail(&mut self, s: String) {
        if self.fails.len() < 200 {
            self.fails.push(s);
        }
    }
}

pub fn node_value<TC: Configuration>(n: &TreeNode) -> AzksValue {
    if n.node_type == TreeNodeType::Leaf {
        AzksValue(TC::hash_leaf_with_commitment(n.hash, n.last_epoch).0)
    } else {
        n.hash
    }
}
pub fn child_elem<TC: Configuration>(m: &HashMap<NodeLabel, TreeNodeWithPreviousValue>, c: Option<NodeLabel>) -> AzksElement {
    match c {
        None => AzksElement { label: TC::empty_label(), value: TC::empty_node_hash() },
        Some(l) => {
            let n = &m[&l].latest_node;
            AzksElement { label: l, value: node_value::<TC>(n) }
        }
    }
}

/// the path of node labels from the root to the deepest node whose label is a prefix of (or equal to) x
pub fn path_to(m: &HashMap<NodeLabel, TreeNodeWithPreviousValue>, x: &NodeLabel) -> Vec<NodeLabel> {
    let xb = bits_of(x);
    let mut cur = NodeLabel::root();
    let mut path = vec![cur];
    loop {
        let n = &m[&cur].latest_node;
        let mut next = None;
        for c in [n.left_child, n.right_child].into_iter().flatten() {
            if is_prefix_bits(&bits_of(&c), &xb) {
                next = Some(c);
            }
        }
        match next {
            Some(c) => {
                path.push(c);
                cur = c;
            }
            None => return path,
        }
    }
}

pub async fn one_tree<TC: Configuration>(cx: &mut Ctx, r: &mut Rng, batches: Vec<Vec<AzksElement>>, queries: Vec<NodeLabel>, adversarial: bool) {
    let cfg = cfg_name::<TC>();
    let mut az = RealAzks::new::<TC>().await;
    let mut q = format!("ins {} d {}", cfg, batches.len());
    for b in &batches {
        write!(q, " {}", ser_elems(b)).unwrap();
    }
    let mut leaves: HashMap<NodeLabel, (AzksValue, u64)> = HashMap::new();
    for (i, b) in batches.iter().enumerate() {
        if let Err(e) = az.insert::<TC>(b.clone(), InsertMode::Directory).await {
            cx.emit(q.clone(), format!("ERR {}", e.split('(').next().unwrap_or("")));
            return;
        }
        for e in b {
            leaves.entry(e.label).or_insert((e.value, i as u64 + 1));
        }
    }
    let root = az.root_hash::<TC>().await;
    let m = az.dump().await;
    let mut ts = String::new();
    ser_tree(&m, &NodeLabel::root(), az.azks.latest_epoch, &mut ts);
    cx.emit(q, format!("{} {} {} {}", hx(&root), az.azks.latest_epoch, az.azks.num_nodes, ts.trim_end()));
    cx.stat("trees");
    let rh = hx(&root);
    for x in &queries {
        let member = leaves.get(x).cloned();
        // honest proofs
        let mp = az.azks.get_membership_proof::<TC, _>(&az.st, *x).await;
        let nmp = az.azks.get_non_membership_proof::<TC, _>(&az.st, *x).await;
        match &mp {
            Ok(p) => {
                cx.emit(format!("gmp {}", fmt_nl(x)), ser_mp(p));
                let v = verify_membership_for_tests_only::<TC>(root, p).is_ok();
                cx.emit(format!("vmp {} {} {}", cfg, rh, ser_mp(p)), format!("{}", v as u8));
                if let Some((val, ep)) = member {
                    cx.stat("member_queries");
                    let want = TC::hash_leaf_with_commitment(val, ep).0;
                    if !(v && p.label == *x && p.hash_val.0 == want) {
                        cx.fail(format!("completeness: membership proof of member {} does not verify with its true leaf hash (root {})", fmt_nl(x), rh));
                    }
                } else {
                    cx.stat("nonmember_queries");
                    if p.label == *x && v {
                        cx.fail(format!("soundness: server produced a verifying membership proof for non-member {}", fmt_nl(x)));
                    }
                }
            }
            Err(e) => {
                cx.emit(format!("gmp {}", fmt_nl(x)), "ERR".to_string());
                if member.is_some() {
                    cx.fail(format!("completeness: get_membership_proof failed for member {}: {:?}", fmt_nl(x), e));
                }
            }
        }
        match &nmp {
            Ok(p) => {
                cx.emit(format!("gnmp {}", fmt_nl(x)), ser_nmp(p));
                let v = verify_nonmembership_for_tests_only::<TC>(root, p).is_ok();
                cx.emit(format!("vnmp {} {} {}", cfg, rh, ser_nmp(p)), format!("{}", v as u8));
                if member.is_some() && v {
                    cx.fail(format!("soundness: honest-prover non-membership proof verifies for member {} (root {})", fmt_nl(x), rh));
                }
                if member.is_none() && !v && !leaves.is_empty() {
                    cx.fail(format!("completeness: non-membership proof of non-member {} does not verify (root {}, {} leaves)", fmt_nl(x), rh, leaves.len()));
                }
                if member.is_none() && !v && leaves.is_empty() {
                    cx.stat("empty_tree_nonmembership_rejected");
                }
            }
            Err(_) => cx.emit(format!("gnmp {}", fmt_nl(x)), "ERR".to_string()),
        }
        if !adversarial {
            continue;
        }
        // adversarial non-membership proofs: every node on the path as claimed longest prefix
        let path = path_to(&m, x);
        for (depth, a) in path.iter().enumerate() {
            let an = &m[a].latest_node;
            if an.node_type == TreeNodeType::Leaf {
                continue;
            }
            let amp = match az.azks.get_membership_proof::<TC, _>(&az.st, *a).await {
                Ok(p) => p,
                Err(_) => continue,
            };
            let children = [child_elem::<TC>(&m, an.left_child), child_elem::<TC>(&m, an.right_child)];
            let base = NonMembershipProof { label: *x, longest_prefix: *a, longest_prefix_children: children, longest_prefix_membership_proof: amp.clone() };
            let mut cands: Vec<(String, NonMembershipProof)> = vec![(format!("anchor-depth-{}-of-{}", depth, path.len() - 1), base.clone())];
            // swapped children
            let mut p2 = base.clone();
            p2.longest_prefix_children = [children[1], children[0]];
            cands.push(("swapped-children".into(), p2));
            // a child replaced by the empty element
            for i in 0..2 {
                let mut p3 = base.clone();
                p3.longest_prefix_children[i] = AzksElement { label: TC::empty_label(), value: TC::empty_node_hash() };
                cands.push((format!("child{}-emptied", i), p3));
            }
            // child label replaced by a shorter prefix of itself / by the label itself
            for i in 0..2 {
                let mut p4 = base.clone();
                let cl = p4.longest_prefix_children[i].label;
                if cl.label_len > a.label_len + 1 && cl != TC::empty_label() {
                    p4.longest_prefix_children[i].label = cl.get_prefix(a.label_len + 1);
                    cands.push((format!("child{}-label-shortened", i), p4));
                }
            }
            // a cousin as anchor: children and membership proof of the off-path child of this node, while the claimed
            // longest prefix stays on the label's path (the fields are not tied to one another by construction)
            if let Some(next) = path.get(depth + 1) {
                for c in [an.left_child, an.right_child].into_iter().flatten() {
                    if c != *next && m[&c].latest_node.node_type != TreeNodeType::Leaf {
                        if let Ok(cmp) = az.azks.get_membership_proof::<TC, _>(&az.st, c).await {
                            let cn = &m[&c].latest_node;
                            let cch = [child_elem::<TC>(&m, cn.left_child), child_elem::<TC>(&m, cn.right_child)];
                            for lp in [*a, NodeLabel::root(), c] {
                                cands.push(("cousin-anchor-free-longest-prefix".into(), NonMembershipProof { label: *x, longest_prefix: lp, longest_prefix_children: cch, longest_prefix_membership_proof: cmp.clone() }));
                            }
                        }
                    }
                }
            }
            // child label / claimed prefix carrying a stray bit beyond its length, inside its last byte
            for i in 0..2 {
                let cl = base.longest_prefix_children[i].label;
                if cl.label_len % 8 != 0 && cl.label_len < 256 && cl != TC::empty_label() {
                    let mut p4 = base.clone();
                    let bit = cl.label_len as usize + r.below(8 - (cl.label_len as u64 % 8)) as usize;
                    p4.longest_prefix_children[i].label.label_val[bit / 8] |= 0x80u8 >> (bit % 8);
                    cands.push((format!("child{}-label-stray-bit", i), p4));
                }
            }
            if a.label_len % 8 != 0 {
                let mut p4 = base.clone();
                let bit = a.label_len as usize + r.below(8 - (a.label_len as u64 % 8)) as usize;
                p4.longest_prefix.label_val[bit / 8] |= 0x80u8 >> (bit % 8);
                cands.push(("longest-prefix-stray-bit".into(), p4.clone()));
                p4.longest_prefix_membership_proof.label = p4.longest_prefix;
                cands.push(("longest-prefix-and-anchor-stray-bit".into(), p4));
            }
            // altered sibling value / direction / hash in the anchor's membership proof
            if !amp.sibling_proofs.is_empty() {
                let k = r.below(amp.sibling_proofs.len() as u64) as usize;
                let mut p5 = base.clone();
                p5.longest_prefix_membership_proof.sibling_proofs[k].siblings[0].value.0[r.below(32) as usize] ^= 1 << r.below(8);
                cands.push(("sibling-value-altered".into(), p5));
                let mut p6 = base.clone();
                let d = p6.longest_prefix_membership_proof.sibling_proofs[k].direction;
                p6.longest_prefix_membership_proof.sibling_proofs[k].direction = d.other();
                cands.push(("direction-flipped".into(), p6));
                let mut p7 = base.clone();
                p7.longest_prefix_membership_proof.sibling_proofs.remove(k);
                cands.push(("sibling-removed".into(), p7));
            }
            let mut p8 = base.clone();
            p8.longest_prefix_membership_proof.hash_val.0[0] ^= 0x80;
            cands.push(("anchor-hash-altered".into(), p8));
            let mut p9 = base.clone();
            p9.longest_prefix = a.get_prefix(a.label_len.saturating_sub(1));
            cands.push(("longest-prefix-shortened".into(), p9));
            for (what, p) in cands {
                let v = verify_nonmembership_for_tests_only::<TC>(root, &p).is_ok();
                cx.emit(format!("vnmp {} {} {}", cfg, rh, ser_nmp(&p)), format!("{}", v as u8));
                cx.stat("adversarial_nonmembership");
                if v {
                    cx.stat("adversarial_nonmembership_accepted");
                }
                if v && member.is_some() {
                    cx.fail(format!("soundness: non-membership proof ({}) accepted for MEMBER {} under root {} cfg {}: {}", what, fmt_nl(x), rh, cfg, ser_nmp(&p)));
                }
            }
        }
        // adversarial membership proofs for x
        let mut mcands: Vec<(String, MembershipProof, bool)> = vec![]; // (what, proof, statement true?)
        if let Ok(p) = &mp {
            // claim the label x with the lcp node's proof
            let mut a = p.clone();
            a.label = *x;
            let truth = member.is_some();
            mcands.push(("relabelled".into(), a.clone(), truth));
            let mut b = p.clone();
            b.hash_val.0[31] ^= 1;
            b.label = *x;
            mcands.push(("hash-altered".into(), b, false));
            if let Some((val, ep)) = member {
                // wrong epoch / commitment without epoch
                let mut c = p.clone();
                c.hash_val = AzksValue(TC::hash_leaf_with_commitment(val, ep + 1).0);
                mcands.push(("wrong-epoch".into(), c, false));
                let mut d = p.clone();
                d.hash_val = val;
                mcands.push(("raw-commitment".into(), d, false));
                if !p.sibling_proofs.is_empty() {
                    let k = r.below(p.sibling_proofs.len() as u64) as usize;
                    let mut e = p.clone();
                    e.sibling_proofs[k].direction = e.sibling_proofs[k].direction.other();
                    // flipping a direction changes the statement's path, not (label, hash): acceptance would
                    // mean the same pair verifies along a non-existent path
                    mcands.push(("direction-flipped".into(), e, false));
                    let mut f = p.clone();
                    f.sibling_proofs[k].siblings[0].label = f.sibling_proofs[k].siblings[0].label.get_prefix(3);
                    mcands.push(("sibling-label-altered".into(), f, f_same(&p.sibling_proofs[k].siblings[0].label)));
                    let mut g = p.clone();
                    g.sibling_proofs.truncate(k);
                    mcands.push(("truncated".into(), g, false));
                }
            } else if let Some((&ol, &(ov, oe))) = leaves.iter().next() {
                // another leaf's proof relabelled to x
                if let Ok(op) = az.azks.get_membership_proof::<TC, _>(&az.st, ol).await {
                    let mut h = op.clone();
                    h.label = *x;
                    let _ = (ov, oe);
                    mcands.push(("other-leaf-relabelled".into(), h, false));
                }
            }
        }
        for (what, p, truth) in mcands {
            let v = verify_membership_for_tests_only::<TC>(root, &p).is_ok();
            cx.emit(format!("vmp {} {} {}", cfg, rh, ser_mp(&p)), format!("{}", v as u8));
            cx.stat("adversarial_membership");
            if v && !truth {
                // an empty sibling list never hashes the label: only the root value can verify that way
                cx.fail(format!("soundness: membership proof ({}) accepted for a false statement about {} under root {} cfg {}: {}", what, fmt_nl(x), rh, cfg, ser_mp(&p)));
            }
        }
    }
}
fn f_same(l: &NodeLabel) -> bool {
    l.get_prefix(3) == *l
}

fn pad_label(prefix_bits: &[bool]) -> NodeLabel {
    let mut b = prefix_bits.to_vec();
    b.resize(256, false);
    from_bits(&b)
}
fn small_universe(nbits: usize) -> Vec<NodeLabel> {
    (0..(1usize << nbits)).map(|x| pad_label(&(0..nbits).map(|i| (x >> (nbits - 1 - i)) & 1 == 1).collect::<Vec<_>>())).collect()
}
fn val_for(l: &NodeLabel, salt: u8) -> [u8; 32] {
    let mut v = [salt; 32];
    v[0] = l.label_val[0];
    v[1] = l.label_val[31];
    v
}

pub async fn run_cfg<TC: Configuration>(cx: &mut Ctx, seed: u64, tier: u32) {
    let mut r = Rng::new(seed ^ if cfg_name::<TC>() == "w" { 0x77 } else { 0x65 });
    // 0. the empty tree
    one_tree::<TC>(cx, &mut r, vec![], small_universe(2), true).await;
    // 1. the D1 shape {00,10,18,80,C0} and friends
    let d1: Vec<NodeLabel> = [0x00u8, 0x10, 0x18, 0x80, 0xC0].iter().map(|b| { let mut v = [0u8; 32]; v[0] = *b; v[31] = *b; NodeLabel::new(v, 256) }).collect();
    let elems: Vec<AzksElement> = d1.iter().map(|l| elem(*l, val_for(l, 7))).collect();
    let mut qs = d1.clone();
    qs.extend(small_universe(4));
    one_tree::<TC>(cx, &mut r, vec![elems], qs, true).await;
    // 2. subsets of a small universe (exhaustive over the 3-bit universe in thorough mode)
    let uni = small_universe(if tier == 0 { 3 } else { 4 });
    let nsets = if tier == 0 { 40 } else { 400 };
    let mut seen = HashSet::new();
    for i in 0..nsets {
        let mask: u64 = if tier != 0 && i < 255 { i as u64 + 1 } else { r.next() & ((1u64 << uni.len()) - 1) };
        if !seen.insert(mask) {
            continue;
        }
        let set: Vec<NodeLabel> = uni.iter().enumerate().filter(|(j, _)| (mask >> j) & 1 == 1).map(|(_, l)| *l).collect();
        // deal into 1..3 batches
        let nb = 1 + r.below(3) as usize;
        let mut batches: Vec<Vec<AzksElement>> = vec![vec![]; nb];
        for l in &set {
            let b = r.below(nb as u64) as usize;
            batches[b].push(elem(*l, val_for(l, 3)));
        }
        batches.retain(|b| !b.is_empty());
        one_tree::<TC>(cx, &mut r, batches, uni.clone(), true).await;
    }
    // 3. random 256-bit labels sharing prefixes around byte boundaries
    let nrand = if tier == 0 { 12 } else { 150 };
    for _ in 0..nrand {
        let k = 2 + r.below(9) as usize;
        let mut labels: Vec<NodeLabel> = vec![];
        let base = r.bytes(32);
        for _ in 0..k {
            let mut bits: Vec<bool> = bits_of(&NodeLabel::new(base.clone().try_into().unwrap(), 256));
            let cut = match r.below(4) { 0 => 8 * (1 + r.below(31) as usize), 1 => 8 * (1 + r.below(31) as usize) - 1, 2 => r.below(256) as usize, _ => r.below(12) as usize };
            for b in bits.iter_mut().skip(cut) {
                *b = r.chance(1, 2);
            }
            if cut < 256 {
                bits[cut] = !bits[cut];
            }
            labels.push(from_bits(&bits));
        }
        labels.sort();
        labels.dedup();
        let mut queries = labels.clone();
        for l in &labels {
            // non-members diverging from a member at a random position
            let mut b = bits_of(l);
            let p = r.below(256) as usize;
            b[p] = !b[p];
            queries.push(from_bits(&b));
            let mut b2 = bits_of(l);
            b2[255] = !b2[255];
            queries.push(from_bits(&b2));
        }
        queries.retain(|q| true || q.label_len == 256);
        let nb = 1 + r.below(3) as usize;
        let mut batches: Vec<Vec<AzksElement>> = vec![vec![]; nb];
        for l in &labels {
            let b = r.below(nb as u64) as usize;
            batches[b].push(elem(*l, val_for(l, 9)));
        }
        batches.retain(|b| !b.is_empty());
        one_tree::<TC>(cx, &mut r, batches, queries, true).await;
    }
}

pub fn run(seed: u64, tier: u32) -> Ctx {
    let rt = tokio::runtime::Builder::new_current_thread().enable_all().build().unwrap();
    let mut cx = Ctx::new();
    rt.block_on(async {
        run_cfg::<W>(&mut cx, seed, tier).await;
        run_cfg::<E>(&mut cx, seed, tier).await;
    });
    cx
}

#[allow(dead_code)]
fn _unused(_: Direction) {}

/// non-membership proofs for `x` anchored at every node on the path from the root to the deepest node
/// whose label is a prefix of `x` (the honest anchor is the last one when x is not a member)
pub async fn anchored_nonmembership<TC: Configuration>(
    azks: &akd::Azks,
    st: &akd::storage::manager::StorageManager<akd::storage::memory::AsyncInMemoryDatabase>,
    m: &HashMap<NodeLabel, TreeNodeWithPreviousValue>,
    x: &NodeLabel,
) -> Vec<NonMembershipProof> {
    let mut out = vec![];
    for a in path_to(m, x) {
        let an = &m[&a].latest_node;
        if an.node_type == TreeNodeType::Leaf {
            continue;
        }
        if let Ok(amp) = azks.get_membership_proof::<TC, _>(st, a).await {
            out.push(NonMembershipProof {
                label: *x,
                longest_prefix: a,
                longest_prefix_children: [child_elem::<TC>(m, an.left_child), child_elem::<TC>(m, an.right_child)],
                longest_prefix_membership_proof: amp,
            });
        }
    }
    out
}
