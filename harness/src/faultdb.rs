//! A `Database` wrapper (public trait, no hook needed) that counts operations, rejects chosen ones,
//! records commit batches and (optionally) yields to the scheduler around every operation.
use akd::errors::StorageError;
use akd::storage::memory::AsyncInMemoryDatabase;
use akd::storage::types::{DbRecord, KeyData, ValueState, ValueStateRetrievalFlag};
use akd::storage::{Database, DbSetState, Storable, StorageUtil};
use akd::{AkdLabel, AkdValue};
use std::collections::HashMap;
use std::sync::atomic::{AtomicBool, AtomicI64, AtomicU64, Ordering};
use std::sync::{Arc, Mutex};

#[derive(Clone)]
pub struct FaultDb {
    pub inner: AsyncInMemoryDatabase,
    /// number of database operations seen
    pub ops: Arc<AtomicU64>,
    /// reject the next operation (one-shot)
    pub fail_next: Arc<AtomicBool>,
    /// reject the operation with this index (counted from arming), -1 = off
    pub fail_at: Arc<AtomicI64>,
    /// when true, a rejected batch_set is recorded anyway
    pub commits: Arc<Mutex<Vec<Vec<DbRecord>>>>,
    pub record_commits: Arc<AtomicBool>,
    pub yields: Arc<AtomicU64>,
    /// kinds of the operations seen ('g','G','s','S','d','u','v')
    pub kinds: Arc<Mutex<Vec<char>>>,
}

impl FaultDb {
    pub fn new() -> Self {
        FaultDb {
            inner: AsyncInMemoryDatabase::new(),
            ops: Arc::new(AtomicU64::new(0)),
            fail_next: Arc::new(AtomicBool::new(false)),
            fail_at: Arc::new(AtomicI64::new(-1)),
            commits: Arc::new(Mutex::new(vec![])),
            record_commits: Arc::new(AtomicBool::new(false)),
            yields: Arc::new(AtomicU64::new(0)),
            kinds: Arc::new(Mutex::new(vec![])),
        }
    }
    pub fn over(inner: AsyncInMemoryDatabase) -> Self {
        let mut d = Self::new();
        d.inner = inner;
        d
    }
    fn tick(&self, kind: char) -> Result<(), StorageError> {
        self.ops.fetch_add(1, Ordering::SeqCst);
        self.kinds.lock().unwrap().push(kind);
        if self.fail_next.swap(false, Ordering::SeqCst) {
            return Err(StorageError::Connection("injected".into()));
        }
        let c = self.fail_at.load(Ordering::SeqCst);
        if c == 0 {
            self.fail_at.store(-1, Ordering::SeqCst);
            return Err(StorageError::Connection("injected".into()));
        }
        if c > 0 {
            self.fail_at.store(c - 1, Ordering::SeqCst);
        }
        Ok(())
    }
    async fn maybe_yield(&self) {
        let n = self.yields.load(Ordering::SeqCst);
        for _ in 0..n {
            tokio::task::yield_now().await;
        }
    }
    pub fn op_count(&self) -> u64 {
        self.ops.load(Ordering::SeqCst)
    }
    pub async fn dump(&self) -> Vec<DbRecord> {
        self.inner.batch_get_all_direct().await.unwrap()
    }
}

#[async_trait::async_trait]
impl Database for FaultDb {
    async fn set(&self, r: DbRecord) -> Result<(), StorageError> {
        self.tick('s')?;
        self.maybe_yield().await;
        self.inner.set(r).await
    }
    async fn batch_set(&self, r: Vec<DbRecord>, s: DbSetState) -> Result<(), StorageError> {
        if self.record_commits.load(Ordering::SeqCst) {
            if let DbSetState::TransactionCommit = s {
                self.commits.lock().unwrap().push(r.clone());
            }
        }
        self.tick('S')?;
        self.maybe_yield().await;
        self.inner.batch_set(r, s).await
    }
    async fn get<St: Storable>(&self, id: &St::StorageKey) -> Result<DbRecord, StorageError> {
        self.tick('g')?;
        self.maybe_yield().await;
        self.inner.get::<St>(id).await
    }
    async fn batch_get<St: Storable>(&self, ids: &[St::StorageKey]) -> Result<Vec<DbRecord>, StorageError> {
        self.tick('G')?;
        self.maybe_yield().await;
        self.inner.batch_get::<St>(ids).await
    }
    async fn get_user_data(&self, u: &AkdLabel) -> Result<KeyData, StorageError> {
        self.tick('d')?;
        self.maybe_yield().await;
        self.inner.get_user_data(u).await
    }
    async fn get_user_state(&self, u: &AkdLabel, f: ValueStateRetrievalFlag) -> Result<ValueState, StorageError> {
        self.tick('u')?;
        self.maybe_yield().await;
        self.inner.get_user_state(u, f).await
    }
    async fn get_user_state_versions(&self, u: &[AkdLabel], f: ValueStateRetrievalFlag) -> Result<HashMap<AkdLabel, (u64, AkdValue)>, StorageError> {
        self.tick('v')?;
        self.maybe_yield().await;
        self.inner.get_user_state_versions(u, f).await
    }
}
