//! C15 / C16 (X-mgr): random operation sequences on the real StorageManager over a fault-injecting
//! database, every return value traced; a committed twin gives the ground truth of every read.
use crate::faultdb::FaultDb;
use crate::rng::Rng;
use akd::append_only_zks::{Azks, DEFAULT_AZKS_KEY};
use akd::errors::StorageError;
use akd::storage::manager::StorageManager;
use akd::storage::memory::AsyncInMemoryDatabase;
use akd::storage::types::{DbRecord, ValueState, ValueStateKey, ValueStateRetrievalFlag as F};
use akd::tree_node::{NodeKey, TreeNode, TreeNodeType, TreeNodeWithPreviousValue};
use akd::{AkdLabel, AkdValue, AzksValue, NodeLabel};
use std::fmt::Write as _;
use std::sync::atomic::Ordering;
use std::time::Duration;

#[derive(Clone, Debug, PartialEq)]
pub enum Rec {
    Azks(u64, u64),
    Node(u64, u64),
    Val(u64, u64, u64, u64), // user epoch version value
}
#[derive(Clone, Debug, PartialEq)]
pub enum Key {
    Azks,
    Node(u64),
    Val(u64, u64),
}
fn key_of(r: &Rec) -> Key {
    match r {
        Rec::Azks(_, _) => Key::Azks,
        Rec::Node(l, _) => Key::Node(*l),
        Rec::Val(u, e, _, _) => Key::Val(*u, *e),
    }
}
fn user(u: u64) -> AkdLabel {
    AkdLabel(vec![b'u', u as u8])
}
fn nlabel(l: u64) -> NodeLabel {
    let mut v = [0u8; 32];
    v[0] = l as u8;
    NodeLabel::new(v, 8)
}
pub fn to_db(r: &Rec) -> DbRecord {
    match r {
        Rec::Azks(e, n) => DbRecord::Azks(Azks { latest_epoch: *e, num_nodes: *n }),
        Rec::Node(l, p) => {
            let label = nlabel(*l);
            DbRecord::TreeNode(TreeNodeWithPreviousValue {
                label,
                latest_node: TreeNode { label, last_epoch: *p, min_descendant_epoch: *p, parent: NodeLabel::root(), node_type: TreeNodeType::Leaf, left_child: None, right_child: None, hash: AzksValue([0u8; 32]) },
                previous_node: None,
            })
        }
        Rec::Val(u, e, ver, v) => DbRecord::ValueState(ValueState { value: AkdValue(if *v == 0 { vec![] } else { vec![*v as u8] }), version: *ver, label: NodeLabel::root(), epoch: *e, username: user(*u) }),
    }
}
pub fn from_db(r: &DbRecord) -> Rec {
    match r {
        DbRecord::Azks(a) => Rec::Azks(a.latest_epoch, a.num_nodes),
        DbRecord::TreeNode(n) => Rec::Node(n.label.label_val[0] as u64, n.latest_node.last_epoch),
        DbRecord::ValueState(s) => Rec::Val(s.username.0[1] as u64, s.epoch, s.version, s.value.0.first().copied().unwrap_or(0) as u64),
    }
}
fn fmt_rec(r: &Rec) -> String {
    match r {
        Rec::Azks(e, n) => format!("A:{}:{}", e, n),
        Rec::Node(l, p) => format!("N:{}:{}", l, p),
        Rec::Val(u, e, ver, v) => format!("V:{}:{}:{}:{}", u, e, ver, v),
    }
}
fn fmt_key(k: &Key) -> String {
    match k {
        Key::Azks => "A".into(),
        Key::Node(l) => format!("N:{}", l),
        Key::Val(u, e) => format!("V:{}:{}", u, e),
    }
}
fn fmt_flag(f: &F) -> String {
    match f {
        F::SpecificVersion(v) => format!("sv:{}", v),
        F::SpecificEpoch(e) => format!("se:{}", e),
        F::LeqEpoch(e) => format!("le:{}", e),
        F::MaxEpoch => "max".into(),
        F::MinEpoch => "min".into(),
    }
}
fn err(e: &StorageError) -> &'static str {
    match e {
        StorageError::NotFound(_) => "err N",
        StorageError::Transaction(_) => "err T",
        _ => "err O",
    }
}
fn set_recs(v: Vec<Rec>) -> String {
    let mut s: Vec<String> = v.iter().map(fmt_rec).collect();
    s.sort();
    s.dedup();
    format!("[{}]", s.join(","))
}
fn sorted_recs(v: Vec<Rec>) -> String {
    let mut s: Vec<String> = v.iter().map(fmt_rec).collect();
    s.sort();
    format!("[{}]", s.join(","))
}

async fn get_key_committed(m: &StorageManager<FaultDb>, k: &Key) -> Result<DbRecord, StorageError> {
    match k {
        Key::Azks => m.get_committed::<Azks>(&DEFAULT_AZKS_KEY).await,
        Key::Node(l) => m.get_committed::<TreeNodeWithPreviousValue>(&NodeKey(nlabel(*l))).await,
        Key::Val(u, e) => m.get_committed::<ValueState>(&ValueStateKey(user(*u).0, *e)).await,
    }
}
async fn get_key(m: &StorageManager<FaultDb>, k: &Key) -> Result<DbRecord, StorageError> {
    match k {
        Key::Azks => m.get::<Azks>(&DEFAULT_AZKS_KEY).await,
        Key::Node(l) => m.get::<TreeNodeWithPreviousValue>(&NodeKey(nlabel(*l))).await,
        Key::Val(u, e) => m.get::<ValueState>(&ValueStateKey(user(*u).0, *e)).await,
    }
}

pub struct Out {
    pub lines: String,
    pub fails: Vec<String>,
    pub cases: usize,
    pub seqs: usize,
}

struct Twin {
    st: StorageManager<FaultDb>,
}
impl Twin {
    async fn from_records(recs: Vec<DbRecord>) -> Twin {
        let db = FaultDb::new();
        let st = StorageManager::new_no_cache(db);
        if !recs.is_empty() {
            st.batch_set(recs).await.unwrap();
        }
        Twin { st }
    }
}

/// one operation sequence. regime 0: cache with long lifetimes (deterministic content, database
/// operation counts traced); 1: no cache; 2: 2 ms lifetimes + small memory limit + real sleeps; 3: long lifetimes + small memory limit
pub async fn one_sequence(o: &mut Out, r: &mut Rng, regime: u32, nops: usize, wf: bool) {
    let db = FaultDb::new();
    let mgr = match regime {
        0 => StorageManager::new(db.clone(), Some(Duration::from_secs(3600)), None, Some(Duration::from_secs(3600))),
        1 => StorageManager::new_no_cache(db.clone()),
        2 => StorageManager::new(db.clone(), Some(Duration::from_millis(2)), Some(300 + r.below(1500) as usize), Some(Duration::from_millis(2))),
        // 3: entries never expire, but a small memory limit sheds them under pressure (cleaning every 1 ms)
        _ => StorageManager::new(db.clone(), Some(Duration::from_secs(3600)), Some(200 + r.below(1200) as usize), Some(Duration::from_millis(1))),
    };
    writeln!(o.lines, "mgr {} = ok", if regime == 0 { 1 } else { 0 }).unwrap();
    o.seqs += 1;
    let mut twin = Twin::from_records(vec![]).await;
    let mut history: Vec<String> = vec![format!("regime {}", regime)];
    let count_ops = regime == 0;
    let version_of = |u: u64, e: u64, r: &mut Rng| -> u64 { if wf { 10 * u + e } else { 1 + r.below(4) } };
    let gen_rec = |r: &mut Rng| -> Rec {
        match r.below(10) {
            0 | 1 => Rec::Azks(1 + r.below(5), 1 + r.below(9)),
            2 | 3 | 4 => Rec::Node(r.below(3), r.below(6)),
            _ => {
                let u = r.below(3);
                let e = 1 + r.below(5);
                Rec::Val(u, e, version_of(u, e, r), r.below(4))
            }
        }
    };
    let gen_key = |r: &mut Rng| -> Key {
        match r.below(8) {
            0 | 1 => Key::Azks,
            2 | 3 | 4 => Key::Node(r.below(3)),
            _ => Key::Val(r.below(3), 1 + r.below(5)),
        }
    };
    let gen_flag = |r: &mut Rng| -> F {
        match r.below(5) {
            0 => F::SpecificVersion(if wf { 10 * r.below(3) + 1 + r.below(5) } else { 1 + r.below(4) }),
            1 => F::SpecificEpoch(1 + r.below(5)),
            2 => F::LeqEpoch(r.below(7)),
            3 => F::MaxEpoch,
            _ => F::MinEpoch,
        }
    };
    // every third sequence starts with a transaction whose commit write is rejected, followed by reads
    // (the records of a rejected commit must not be readable afterwards)
    let mut script: std::collections::VecDeque<(u64, Option<bool>)> = std::collections::VecDeque::new();
    if r.chance(1, 3) {
        script.push_back((0, None));
        for _ in 0..(1 + r.below(3)) {
            script.push_back((3, Some(false)));
        }
        if r.chance(1, 2) {
            script.push_back((7, Some(false)));
        }
        script.push_back((1, Some(r.chance(3, 4))));
        for _ in 0..4 {
            script.push_back((8 + r.below(8), Some(false)));
        }
    }
    let mut forced_rec: Option<Rec> = None;
    let mut forced_key: Option<Key> = None;
    let mut forced_user: Option<u64> = None;
    let mut forced_flag: Option<F> = None;
    let mut second_rec: Option<Rec> = None;
    if script.is_empty() && r.chance(1, 3) {
        let pick = r.below(4);
        if pick == 3 {
            // an OLDER state of a user rewritten inside a transaction (what tombstoning does) while a newer one is
            // committed: queries bounded above the newer epoch must still be answered with the newer state
            let u = r.below(3);
            let e_old = 1 + r.below(2);
            let e_new = e_old + 1 + r.below(3);
            let v_old = version_of(u, e_old, r);
            forced_rec = Some(Rec::Val(u, e_old, v_old, 1 + r.below(3)));
            second_rec = Some(Rec::Val(u, e_new, version_of(u, e_new, r), 1 + r.below(3)));
            forced_user = Some(u);
            forced_flag = Some(F::LeqEpoch(e_new + r.below(2)));
            script.push_back((3, Some(false)));     // the older state, committed
            script.push_back((120, Some(false)));   // the newer state, committed
            script.push_back((0, None));            // begin
            script.push_back((121, Some(false)));   // the older state rewritten (pending)
            script.push_back((112, Some(false)));   // user state, bound at / above the newer epoch
            script.push_back((116, Some(false)));   // the bulk version query with the same bound
            script.push_back((112, Some(false)));
            script.push_back((115, Some(false)));   // user data
        } else if pick == 2 {
            // a value state staged in a transaction, queried, then rolled back: it must be gone for every read
            let u = r.below(3);
            let e = 1 + r.below(5);
            forced_rec = Some(Rec::Val(u, e, version_of(u, e, r), r.below(4)));
            forced_user = Some(u);
            script.push_back((0, None));            // begin
            script.push_back((3, Some(false)));     // set the value state (pending)
            script.push_back((112, Some(false)));   // user-state query answered from the pending record
            script.push_back((115, Some(false)));   // user data
            script.push_back((2, None));            // rollback
            script.push_back((108, Some(false)));   // get by key
            script.push_back((112, Some(false)));
            script.push_back((111, Some(false)));
        } else if pick == 1 {
            // a cached record rewritten inside a transaction, then read singly and in a batch
            let rec = Rec::Node(r.below(3), r.below(4));
            forced_rec = Some(rec);
            script.push_back((3, Some(false)));     // set (cached)
            script.push_back((0, None));            // begin
            script.push_back((103, Some(false)));   // set the same key with another value
            script.push_back((111, Some(false)));   // batch get including the key
            script.push_back((108, Some(false)));   // get of the key
        } else {
            // only the epoch record is cached when the cache is flushed
            script.push_back((104, Some(false)));   // set the epoch record
            script.push_back((19, None));           // flush / active
            script.push_back((119, None));          // flush
            script.push_back((109, Some(false)));   // get the epoch record
        }
    }
    for _ in 0..nops {
        if regime >= 2 && r.chance(1, 6) {
            tokio::time::sleep(Duration::from_millis(3)).await;
        }
        let scripted = script.pop_front();
        let fail = match scripted { Some((_, Some(f))) => f, _ => r.chance(1, 12) };
        let mut opc = match scripted { Some((o, _)) => o, None => r.below(20) };
        // scripted variants: 10x = the op x on the remembered key / record
        match opc {
            3 if forced_rec.is_some() && scripted.is_some() => { forced_key = forced_rec.as_ref().map(key_of); }
            103 => { forced_rec = forced_rec.map(|x| match x { Rec::Node(l, p) => Rec::Node(l, p + 7), o => o }); opc = 3; }
            120 => { std::mem::swap(&mut forced_rec, &mut second_rec); opc = 3; }
            121 => { std::mem::swap(&mut forced_rec, &mut second_rec); forced_rec = forced_rec.map(|x| match x { Rec::Val(u, e, ver, v) => Rec::Val(u, e, ver, (v + 1) % 4), o => o }); opc = 3; }
            116 => { opc = 16; }
            104 => { forced_rec = Some(Rec::Azks(1 + r.below(5), 1 + r.below(9))); forced_key = Some(Key::Azks); opc = 3; }
            108 | 109 => { opc = 8; }
            112 => { opc = 12; }
            115 => { opc = 15; }
            111 => { opc = 11; }
            119 => { opc = 19; }
            _ => { if scripted.is_none() { forced_rec = None; forced_key = None; forced_user = None; forced_flag = None; second_rec = None; } }
        }
        let scripted_flush = matches!(scripted, Some((119, _)));
        let before = db.op_count();
        let active = mgr.is_transaction_active();
        let mut bget_set: Option<String> = None;
        let (q, a, read_cmp): (String, String, Option<String>) = match opc {
            0 => {
                let b = mgr.begin_transaction();
                ("begin".into(), format!("{}", b as u8), None)
            }
            1 if active || r.chance(1, 4) => {
                db.fail_next.store(fail, Ordering::SeqCst);
                let res = mgr.commit_transaction().await;
                db.fail_next.store(false, Ordering::SeqCst);
                // the twin restarts from the database after every commit attempt
                twin = Twin::from_records(db.dump().await).await;
                (format!("commit {}", fail as u8), match &res { Ok(n) => format!("ok {}", n), Err(e) => err(e).into() }, None)
            }
            2 if active || r.chance(1, 4) => {
                let res = mgr.rollback_transaction();
                twin = Twin::from_records(db.dump().await).await;
                ("rollback".into(), match &res { Ok(()) => "ok".into(), Err(e) => err(e).into() }, None)
            }
            3 | 4 | 5 | 6 => {
                let rec = if scripted.is_some() && forced_rec.is_some() { forced_rec.clone().unwrap() } else { gen_rec(r) };
                db.fail_next.store(fail, Ordering::SeqCst);
                let res = mgr.set(to_db(&rec)).await;
                db.fail_next.store(false, Ordering::SeqCst);
                if res.is_ok() {
                    twin.st.set(to_db(&rec)).await.unwrap();
                }
                (format!("set {} {}", fmt_rec(&rec), fail as u8), match &res { Ok(()) => "ok".into(), Err(e) => err(e).into() }, None)
            }
            7 => {
                let k = r.below(4) as usize;
                let recs: Vec<Rec> = (0..k).map(|_| gen_rec(r)).collect();
                db.fail_next.store(fail, Ordering::SeqCst);
                let res = mgr.batch_set(recs.iter().map(to_db).collect()).await;
                db.fail_next.store(false, Ordering::SeqCst);
                if res.is_ok() {
                    for rec in &recs {
                        twin.st.set(to_db(rec)).await.unwrap();
                    }
                }
                (format!("bset {} {} {}", k, recs.iter().map(fmt_rec).collect::<Vec<_>>().join(" "), fail as u8).replace("  ", " "), match &res { Ok(()) => "ok".into(), Err(e) => err(e).into() }, None)
            }
            8 | 9 | 10 => {
                let k = if scripted.is_some() && forced_key.is_some() { forced_key.clone().unwrap() } else { gen_key(r) };
                // with an unpredictable cache (regime 2) it is unknown whether the read reaches the database
                let fail = fail && regime < 2;
                // one read in five is a read of what is committed (the open transaction's log is not consulted); its truth is
                // the database's own record
                let committed = r.chance(1, 5);
                db.fail_next.store(fail, Ordering::SeqCst);
                let res = if committed { get_key_committed(&mgr, &k).await } else { get_key(&mgr, &k).await };
                db.fail_next.store(false, Ordering::SeqCst);
                let a = match &res { Ok(rec) => fmt_rec(&from_db(rec)), Err(e) => err(e).into() };
                if committed {
                    // (read from the wrapped database itself: not a database operation of the call under test)
                    let direct = StorageManager::new_no_cache(FaultDb { inner: db.inner.clone(), ..FaultDb::new() });
                    let t = match get_key(&direct, &k).await { Ok(rec) => fmt_rec(&from_db(&rec)), Err(e) => err(&e).into() };
                    (format!("getc {} {}", fmt_key(&k), fail as u8), a, Some(t))
                } else {
                    let t = match get_key(&twin.st, &k).await { Ok(rec) => fmt_rec(&from_db(&rec)), Err(e) => err(&e).into() };
                    (format!("get {} {}", fmt_key(&k), fail as u8), a, Some(t))
                }
            }
            11 => {
                // batch get of keys of one type
                let forced_node = match (&scripted, &forced_key) { (Some(_), Some(Key::Node(l))) => Some(*l), _ => None };
                let ty = if forced_node.is_some() { 0 } else { r.below(2) };
                let n = 1 + r.below(3) as usize;
                let fail = fail && regime < 2;
                db.fail_next.store(fail, Ordering::SeqCst);
                let (ks, res, tres): (Vec<Key>, _, _) = if ty == 0 {
                    let mut ls: Vec<u64> = (0..n).map(|_| r.below(3)).collect();
                    if let Some(l) = forced_node {
                        if !ls.contains(&l) { ls.push(l); }
                    }
                    if regime >= 2 {
                        // a key requested twice is answered twice by the log/cache and once by the database
                        ls.sort();
                        ls.dedup();
                    }
                    let keys: Vec<NodeKey> = ls.iter().map(|l| NodeKey(nlabel(*l))).collect();
                    let res = mgr.batch_get::<TreeNodeWithPreviousValue>(&keys).await;
                    db.fail_next.store(false, Ordering::SeqCst);
                    (ls.iter().map(|l| Key::Node(*l)).collect(), res, twin.st.batch_get::<TreeNodeWithPreviousValue>(&keys).await)
                } else {
                    let mut ps: Vec<(u64, u64)> = (0..n).map(|_| (r.below(3), 1 + r.below(5))).collect();
                    if regime >= 2 {
                        ps.sort();
                        ps.dedup();
                    }
                    let keys: Vec<ValueStateKey> = ps.iter().map(|(u, e)| ValueStateKey(user(*u).0, *e)).collect();
                    let res = mgr.batch_get::<ValueState>(&keys).await;
                    db.fail_next.store(false, Ordering::SeqCst);
                    (ps.iter().map(|(u, e)| Key::Val(*u, *e)).collect(), res, twin.st.batch_get::<ValueState>(&keys).await)
                };
                let a = match &res { Ok(v) => sorted_recs(v.iter().map(from_db).collect()), Err(e) => err(e).into() };
                // compared as sets: a key requested twice is answered twice from the log/cache, once by the database
                let a_set = match &res { Ok(v) => set_recs(v.iter().map(from_db).collect()), Err(e) => err(e).into() };
                let t = match &tres { Ok(v) => set_recs(v.iter().map(from_db).collect()), Err(e) => err(e).into() };
                bget_set = Some(a_set);
                (format!("bget {} {} {}", ks.len(), ks.iter().map(fmt_key).collect::<Vec<_>>().join(" "), fail as u8), a, Some(t))
            }
            12 | 13 | 14 => {
                let u = if scripted.is_some() && forced_user.is_some() { forced_user.unwrap() } else { r.below(3) };
                let f = if scripted.is_some() && forced_flag.is_some() { forced_flag.unwrap() } else if scripted.is_some() && forced_user.is_some() { if r.chance(1, 2) { F::MaxEpoch } else { gen_flag(r) } } else { gen_flag(r) };
                db.fail_next.store(fail, Ordering::SeqCst);
                let res = mgr.get_user_state(&user(u), f).await;
                db.fail_next.store(false, Ordering::SeqCst);
                let a = match &res { Ok(s) => fmt_rec(&from_db(&DbRecord::ValueState(s.clone()))), Err(e) => err(e).into() };
                let t = match twin.st.get_user_state(&user(u), f).await { Ok(s) => fmt_rec(&from_db(&DbRecord::ValueState(s))), Err(e) => err(&e).into() };
                (format!("ustate {} {} {}", u, fmt_flag(&f), fail as u8), a, Some(t))
            }
            15 => {
                let u = if scripted.is_some() && forced_user.is_some() { forced_user.unwrap() } else { r.below(3) };
                db.fail_next.store(fail, Ordering::SeqCst);
                let res = mgr.get_user_data(&user(u)).await;
                db.fail_next.store(false, Ordering::SeqCst);
                let a = match &res { Ok(d) => sorted_recs(d.states.iter().map(|s| from_db(&DbRecord::ValueState(s.clone()))).collect()), Err(e) => err(e).into() };
                let t = match twin.st.get_user_data(&user(u)).await { Ok(d) => sorted_recs(d.states.iter().map(|s| from_db(&DbRecord::ValueState(s.clone()))).collect()), Err(e) => err(&e).into() };
                (format!("udata {} {}", u, fail as u8), a, Some(t))
            }
            16 | 17 => {
                let n = 1 + r.below(3) as usize;
                let mut us: Vec<u64> = (0..n).map(|_| r.below(3)).collect();
                let mut f = gen_flag(r);
                if let (Some(_), Some(fu), Some(ff)) = (&scripted, forced_user, forced_flag) {
                    if !us.contains(&fu) {
                        us.push(fu);
                    }
                    f = ff;
                }
                let n = us.len();
                let labels: Vec<AkdLabel> = us.iter().map(|u| user(*u)).collect();
                db.fail_next.store(fail, Ordering::SeqCst);
                let res = mgr.get_user_state_versions(&labels, f).await;
                db.fail_next.store(false, Ordering::SeqCst);
                let show = |m: &std::collections::HashMap<AkdLabel, (u64, AkdValue)>| {
                    let mut v: Vec<String> = m.iter().map(|(k, (ver, val))| format!("{}:{}:{}", k.0[1], ver, val.0.first().copied().unwrap_or(0))).collect();
                    v.sort();
                    format!("[{}]", v.join(","))
                };
                let a = match &res { Ok(m) => show(m), Err(e) => err(e).into() };
                let t = match twin.st.get_user_state_versions(&labels, f).await { Ok(m) => show(&m), Err(e) => err(&e).into() };
                (format!("uvers {} {} {} {}", n, us.iter().map(|u| u.to_string()).collect::<Vec<_>>().join(" "), fmt_flag(&f), fail as u8), a, Some(t))
            }
            18 => {
                let u = r.below(3);
                let e = r.below(6);
                let fail_w = r.chance(1, 12);
                // first database call of the operation is the read, the second the write
                if fail {
                    db.fail_at.store(0, Ordering::SeqCst);
                } else if fail_w {
                    db.fail_at.store(1, Ordering::SeqCst);
                }
                let res = mgr.tombstone_value_states(&user(u), e).await;
                db.fail_at.store(-1, Ordering::SeqCst);
                if res.is_ok() {
                    let _ = twin.st.tombstone_value_states(&user(u), e).await;
                }
                (format!("tomb {} {} {} {}", u, e, fail as u8, (fail_w && !fail) as u8), match &res { Ok(()) => "ok".into(), Err(e) => err(e).into() }, None)
            }
            _ => {
                if scripted_flush || r.chance(1, 3) {
                    mgr.flush_cache().await;
                    ("flush".into(), "ok".into(), None)
                } else {
                    let b = mgr.is_transaction_active();
                    ("active".into(), format!("{}", b as u8), None)
                }
            }
        };
        let nops_db = db.op_count() - before;
        // database operations used by this call are part of the answer in the deterministic regime
        let ans = if count_ops { format!("{} ops={}", a, nops_db) } else { a.clone() };
        writeln!(o.lines, "{} = {}", q, ans).unwrap();
        o.cases += 1;
        history.push(format!("{} = {}", q, ans));
        if let Some(t) = read_cmp {
            // ground truth: the same read on a twin that holds database + pending writes committed.
            // A read that failed because the database call was rejected is not compared.
            // (for get_user_data an absent user is the same as an empty answer)
            let norm = |s: &String| if q.starts_with("udata") && s == "err N" { "[]".to_string() } else { s.clone() };
            let a_cmp = bget_set.clone().unwrap_or(a.clone());
            if wf && a != "err O" && norm(&a_cmp) != norm(&t) {
                let tail: Vec<String> = history.iter().rev().take(25).rev().cloned().collect();
                o.fails.push(format!("read differs from committed twin: {} returned {} but the committed state answers {} | history: {}", q, a, t, tail.join(" ; ")));
            }
        }
    }
    // final database content
    let mut all: Vec<Rec> = db.dump().await.iter().map(from_db).collect();
    all.sort_by_key(fmt_rec);
    writeln!(o.lines, "dump = {}", sorted_recs(all)).unwrap();
    o.cases += 1;
    let _ = AsyncInMemoryDatabase::new;
}

pub fn run(seed: u64, tier: u32) -> Out {
    let rt = tokio::runtime::Builder::new_current_thread().enable_all().build().unwrap();
    let mut o = Out { lines: String::new(), fails: vec![], cases: 0, seqs: 0 };
    let mut r = Rng::new(seed ^ 0x3311);
    let n = if tier == 0 { 150 } else { 3000 };
    rt.block_on(async {
        for i in 0..n {
            let regime = match i % 6 { 0 | 1 => 0, 2 => 1, 3 | 4 => 3, _ => 2 };
            let wf = i % 7 != 6;
            let nops = 8 + r.below(40) as usize;
            one_sequence(&mut o, &mut r, regime, nops, wf).await;
        }
    });
    o
}
