//! C10 (fault enumeration): every storage operation index of a publish is made to fail; afterwards
//! the same instance must report the previous epoch, serve verifying proofs for the previous state
//! only, have no transaction open, leave the database unchanged, and a retry must end in the state
//! of the fault-free twin.
//! C11 (crash points): every prefix / random subsets of a recorded commit batch (epoch record last)
//! applied to a copy of the pre-publish database; a second instance must serve the previous epoch.
use crate::dirs::*;
use crate::faultdb::FaultDb;
use crate::rng::Rng;
use crate::treeutil::*;
use akd::append_only_zks::{AzksParallelismConfig, AzksParallelismOption};
use akd::directory::{Directory, ReadOnlyDirectory};
use akd::ecvrf::HardCodedAkdVRF;
use akd::storage::manager::StorageManager;
use akd::storage::memory::AsyncInMemoryDatabase;
use akd::storage::types::DbRecord;
use akd::storage::{Database, DbSetState, StorageUtil};
use akd::{AkdLabel, AkdValue, EpochHash};
use akd_core::configuration::Configuration;
use std::sync::atomic::Ordering;
use std::time::Duration;

type FDir<TC> = Directory<TC, FaultDb, HardCodedAkdVRF>;

fn par(n: u32) -> AzksParallelismConfig {
    if n == 0 {
        AzksParallelismConfig::disabled()
    } else {
        AzksParallelismConfig { insertion: AzksParallelismOption::Static(n), preload: AzksParallelismOption::Static(n) }
    }
}
async fn fdir<TC: Configuration>(db: &FaultDb, cached: bool, parallel: u32) -> FDir<TC> {
    let st = if cached { StorageManager::new(db.clone(), Some(Duration::from_secs(3600)), None, Some(Duration::from_secs(3600))) } else { StorageManager::new_no_cache(db.clone()) };
    Directory::<TC, _, _>::new(st, HardCodedAkdVRF {}, par(parallel)).await.unwrap()
}
fn to_updates(b: &[(Vec<u8>, Vec<u8>)]) -> Vec<(AkdLabel, AkdValue)> {
    b.iter().map(|(l, v)| (AkdLabel(l.clone()), AkdValue(v.clone()))).collect()
}
pub fn canon_dump(recs: Vec<DbRecord>) -> Vec<String> {
    let mut v: Vec<String> = recs.iter().map(|r| format!("{:?}", r)).collect();
    v.sort();
    v
}

/// the checks a directory must pass while its state is `t` (readers verify against the truth table)
async fn serves<TC: Configuration, S: Database + 'static>(cx: &mut Cx, dir: &Directory<TC, S, HardCodedAkdVRF>, t: &Truth, labels: &[Vec<u8>], what: &str, prop: &str) {
    use akd::client::{key_history_verify, lookup_verify};
    use akd::{HistoryParams, HistoryVerificationParams};
    let vrf = HardCodedAkdVRF {};
    use akd::ecvrf::VRFKeyStorage;
    let pk = vrf.get_vrf_public_key().await.unwrap().as_bytes().to_vec();
    match dir.get_epoch_hash().await {
        Ok(EpochHash(e, h)) => {
            if e != t.epoch || h != t.hashes[t.epoch as usize] {
                cx.fail(format!("{} {}: epoch hash is ({}, {}) expected ({}, {})", prop, what, e, hx(&h), t.epoch, hx(&t.hashes[t.epoch as usize])));
                return;
            }
        }
        Err(e) => {
            cx.fail(format!("{} {}: get_epoch_hash failed: {:?}", prop, what, e));
            return;
        }
    }
    for l in labels {
        let truth = t.versions.get(l);
        match dir.lookup(AkdLabel(l.clone())).await {
            Ok((p, e)) => {
                let v = lookup_verify::<TC>(&pk, e.1, e.0, AkdLabel(l.clone()), p);
                match (truth, v) {
                    (Some(tv), Ok(r)) => {
                        let (ver, val, ep) = tv.last().unwrap();
                        if r.version != *ver || r.value.0 != *val || r.epoch != *ep || e.0 != t.epoch {
                            cx.fail(format!("{} {}: lookup of {} yields version {} epoch {} (answer epoch {}), expected version {} epoch {} at epoch {}", prop, what, hb(l), r.version, r.epoch, e.0, ver, ep, t.epoch));
                        }
                    }
                    (Some(_), Err(er)) => cx.fail(format!("{} {}: lookup proof of {} does not verify: {:?}", prop, what, hb(l), er)),
                    (None, _) => cx.fail(format!("{} {}: lookup of a label not published in this state ({}) returned a proof", prop, what, hb(l))),
                }
            }
            Err(_) => {
                if truth.is_some() {
                    cx.fail(format!("{} {}: lookup of {} failed", prop, what, hb(l)));
                }
            }
        }
        if let Some(tv) = truth {
            match dir.key_history(&AkdLabel(l.clone()), HistoryParams::Complete).await {
                Ok((p, e)) => match key_history_verify::<TC>(&pk, e.1, e.0, AkdLabel(l.clone()), p, HistoryVerificationParams::Default { history_params: HistoryParams::Complete }) {
                    Ok(rs) => {
                        let got: Vec<(u64, u64)> = rs.iter().map(|r| (r.version, r.epoch)).collect();
                        let want: Vec<(u64, u64)> = tv.iter().rev().map(|x| (x.0, x.2)).collect();
                        if got != want {
                            cx.fail(format!("{} {}: history of {} yields {:?} expected {:?}", prop, what, hb(l), got, want));
                        }
                    }
                    Err(er) => cx.fail(format!("{} {}: history proof of {} does not verify: {:?}", prop, what, hb(l), er)),
                },
                Err(er) => cx.fail(format!("{} {}: key_history of {} failed: {:?}", prop, what, hb(l), er)),
            }
            // the most recent n entries
            for n in [1usize, 2, tv.len() + 1] {
                let hp = HistoryParams::MostRecent(n);
                match dir.key_history(&AkdLabel(l.clone()), hp).await {
                    Ok((p, e)) => match key_history_verify::<TC>(&pk, e.1, e.0, AkdLabel(l.clone()), p, HistoryVerificationParams::Default { history_params: hp }) {
                        Ok(rs) => {
                            let got: Vec<(u64, u64)> = rs.iter().map(|r| (r.version, r.epoch)).collect();
                            let want: Vec<(u64, u64)> = tv.iter().rev().take(n).map(|x| (x.0, x.2)).collect();
                            if got != want {
                                cx.fail(format!("{} {}: most recent {} history of {} yields {:?} expected {:?}", prop, what, n, hb(l), got, want));
                            }
                        }
                        Err(er) => cx.fail(format!("{} {}: most recent {} history proof of {} does not verify: {:?}", prop, what, n, hb(l), er)),
                    },
                    Err(er) => cx.fail(format!("{} {}: key_history (most recent {}) of {} failed: {:?}", prop, what, n, hb(l), er)),
                }
            }
        }
    }
    if t.epoch >= 1 {
        match dir.audit(0, t.epoch).await {
            Ok(p) => {
                let hs: Vec<[u8; 32]> = (0..=t.epoch).map(|i| t.hashes[i as usize]).collect();
                if let Err(er) = akd::auditor::audit_verify::<TC>(hs, p).await {
                    cx.fail(format!("{} {}: audit(0, {}) does not verify: {:?}", prop, what, t.epoch, er));
                }
            }
            Err(er) => cx.fail(format!("{} {}: audit(0, {}) failed: {:?}", prop, what, t.epoch, er)),
        }
    }
}

struct Scenario {
    base: Vec<Vec<(Vec<u8>, Vec<u8>)>>,
    target: Vec<(Vec<u8>, Vec<u8>)>,
    labels: Vec<Vec<u8>>,
    /// inject faults into the write operations of the target publish only (large publishes)
    writes_only: bool,
}
/// a publish whose write-set exceeds a thousand records (a data layer may be handed the commit in several
/// statements): one small epoch, then several hundred new labels and two updates at once
fn large_scenario() -> Scenario {
    let base_labels: Vec<Vec<u8>> = (0..3u8).map(|i| vec![b'L', i]).collect();
    let base = vec![base_labels.iter().enumerate().map(|(i, l)| (l.clone(), vec![1, i as u8])).collect::<Vec<_>>()];
    let mut target: Vec<(Vec<u8>, Vec<u8>)> = (0..420u16).map(|i| (vec![b'B', (i >> 8) as u8, i as u8], vec![9, i as u8])).collect();
    target.push((base_labels[0].clone(), vec![9, 0xFE]));
    target.push((base_labels[1].clone(), vec![9, 0xFD]));
    let mut labels = base_labels.clone();
    labels.push(vec![b'B', 0, 3]);
    labels.push(vec![b'B', 1, 7]);
    Scenario { base, target, labels, writes_only: true }
}
/// random small directory: the target publish adds several new labels at once (a split above an
/// existing interior node together with an insertion below it needs two new labels sharing a prefix
/// with existing ones, which tiny trees produce often) and may update an old one
fn random_scenario(r: &mut Rng) -> Scenario {
    let nb = 3 + r.below(4) as usize;
    let nt = 2 + r.below(3) as usize;
    let mut labels: Vec<Vec<u8>> = vec![];
    while labels.len() < nb + nt {
        let l = vec![b'r', r.next() as u8, r.next() as u8];
        if !labels.contains(&l) {
            labels.push(l);
        }
    }
    let mut base = vec![];
    base.push(labels[..nb].iter().enumerate().map(|(i, l)| (l.clone(), vec![1, i as u8])).collect::<Vec<_>>());
    let upd: Vec<(Vec<u8>, Vec<u8>)> = labels[..nb].iter().enumerate().filter(|_| r.chance(1, 2)).map(|(i, l)| (l.clone(), vec![2, i as u8])).collect();
    if !upd.is_empty() {
        base.push(upd);
    }
    let mut target: Vec<(Vec<u8>, Vec<u8>)> = labels[nb..].iter().enumerate().map(|(i, l)| (l.clone(), vec![9, i as u8])).collect();
    if r.chance(1, 2) {
        target.push((labels[r.below(nb as u64) as usize].clone(), vec![9, 0xFF]));
    }
    Scenario { base, target, labels, writes_only: false }
}

fn scenario(r: &mut Rng, shape: u32) -> Scenario {
    if shape == 4 {
        return random_scenario(r);
    }
    let labels: Vec<Vec<u8>> = (0..5u8).map(|i| vec![b'k', i]).collect();
    let mut base = vec![];
    for e in 0..3u8 {
        let mut b = vec![];
        for (i, l) in labels.iter().enumerate().take(3) {
            if e == 0 || (i as u8 + e) % 2 == 0 {
                b.push((l.clone(), vec![e + 1, i as u8]));
            }
        }
        base.push(b);
    }
    let target = match shape {
        0 => vec![(labels[3].clone(), vec![9, 9]), (labels[4].clone(), vec![9, 8])],      // inserts
        1 => vec![(labels[0].clone(), vec![9, 1]), (labels[1].clone(), vec![9, 2])],      // updates
        2 => vec![(labels[0].clone(), vec![9, 1]), (labels[3].clone(), vec![9, 3]), (labels[2].clone(), vec![9, 4])], // mixed
        _ => {
            let mut b = vec![];
            for l in &labels {
                if r.chance(2, 3) {
                    b.push((l.clone(), vec![9, r.next() as u8]));
                }
            }
            if b.is_empty() { b.push((labels[0].clone(), vec![9, 7])); }
            b
        }
    };
    Scenario { base, target, labels, writes_only: false }
}

async fn settle() {
    for _ in 0..50 {
        tokio::task::yield_now().await;
    }
    tokio::time::sleep(Duration::from_millis(2)).await;
    for _ in 0..50 {
        tokio::task::yield_now().await;
    }
}

async fn c10_scenario<TC: Configuration>(cx: &mut Cx, sc: &Scenario, cached: bool, parallel: u32) {
    let cfg = cfg_name::<TC>();
    // fault-free twin: number of storage operations of the target publish and the final state
    let twin_db = FaultDb::new();
    let twin = fdir::<TC>(&twin_db, cached, parallel).await;
    let mut t = Truth::default();
    t.hashes.push(twin.get_epoch_hash().await.unwrap().1);
    for b in &sc.base {
        let r = twin.publish(to_updates(b)).await.unwrap();
        if t.apply(b) {
            t.hashes.push(r.1);
        }
    }
    let before_ops = twin_db.op_count();
    let twin_res = twin.publish(to_updates(&sc.target)).await.unwrap();
    settle().await;
    let nops = twin_db.op_count() - before_ops;
    let mut t_after = t.clone();
    if t_after.apply(&sc.target) {
        t_after.hashes.push(twin_res.1);
    }
    let twin_final = canon_dump(twin_db.dump().await);
    let twin_kinds: Vec<char> = twin_db.kinds.lock().unwrap().iter().skip(before_ops as usize).cloned().collect();
    for k in 0..nops {
        if sc.writes_only && !matches!(twin_kinds.get(k as usize), Some('s') | Some('S')) {
            continue;
        }
        if std::env::var("VERIF_DEBUG").is_ok() { eprintln!("c10 cfg {} cached {} parallel {} k {} / {}", cfg, cached, parallel, k, nops); }
        let db = FaultDb::new();
        let dir = fdir::<TC>(&db, cached, parallel).await;
        for b in &sc.base {
            dir.publish(to_updates(b)).await.unwrap();
        }
        let before = canon_dump(db.dump().await);
        db.fail_at.store(k as i64, Ordering::SeqCst);
        let res = dir.publish(to_updates(&sc.target)).await;
        if std::env::var("VERIF_DEBUG").is_ok() { eprintln!("  publish returned {:?}", res.as_ref().map(|e| e.0).map_err(|e| format!("{:?}", e))); }
        db.fail_at.store(-1, Ordering::SeqCst);
        settle().await;
        if std::env::var("VERIF_DEBUG").is_ok() { eprintln!("  settled"); }
        let kinds: String = {
            let g = db.kinds.lock().unwrap();
            g.iter().skip(before_ops as usize).collect()
        };
        let what = format!("[cfg {} cached {} parallel {} fault at storage operation {} of {} (kinds {})]", cfg, cached, parallel, k, nops, kinds);
        cx.stat("c10_faults");
        cx.note(format!("C10 {}", what));
        match res {
            Ok(eh) => {
                // the fault did not hit (operation index beyond this run's operations) or was absorbed
                if eh.0 != t_after.epoch || eh.1 != t_after.hashes[t_after.epoch as usize] {
                    cx.fail(format!("C10 {}: publish returned Ok({}, {}) which is not the twin's result", what, eh.0, hx(&eh.1)));
                }
                cx.stat("c10_fault_absorbed");
            }
            Err(_) => {
                cx.stat("c10_publish_errors");
                let after = canon_dump(db.dump().await);
                if after != before {
                    let extra = after.iter().filter(|x| !before.contains(x)).count();
                    cx.fail(format!("C10 {}: a publish that returned an error changed the database ({} records before, {} after, {} new or changed)", what, before.len(), after.len(), extra));
                    continue;
                }
                serves::<TC, _>(cx, &dir, &t, &sc.labels, &what, "C10").await;
                // a fresh instance over the same storage agrees
                let fresh = fdir::<TC>(&db, false, 0).await;
                serves::<TC, _>(cx, &fresh, &t, &sc.labels, &format!("{} fresh instance", what), "C10").await;
                // the retry succeeds and ends in the twin's state
                match dir.publish(to_updates(&sc.target)).await {
                    Ok(eh) => {
                        settle().await;
                        if eh.0 != t_after.epoch || eh.1 != t_after.hashes[t_after.epoch as usize] {
                            cx.fail(format!("C10 {}: the retry returned ({}, {}) instead of the twin's ({}, {})", what, eh.0, hx(&eh.1), t_after.epoch, hx(&t_after.hashes[t_after.epoch as usize])));
                        } else if canon_dump(db.dump().await) != twin_final {
                            cx.fail(format!("C10 {}: after the retry the database differs from the fault-free twin's", what));
                        } else {
                            serves::<TC, _>(cx, &dir, &t_after, &sc.labels, &format!("{} after retry", what), "C10").await;
                        }
                    }
                    Err(e) => cx.fail(format!("C10 {}: the retry after a failed publish failed as well: {:?}", what, e)),
                }
            }
        }
    }
}

async fn c11_scenario<TC: Configuration>(cx: &mut Cx, r: &mut Rng, sc: &Scenario, thorough: bool, lite: bool) {
    let cfg = cfg_name::<TC>();
    let db = FaultDb::new();
    let dir = fdir::<TC>(&db, false, 0).await;
    let mut t = Truth::default();
    t.hashes.push(dir.get_epoch_hash().await.unwrap().1);
    for b in &sc.base {
        let res = dir.publish(to_updates(b)).await.unwrap();
        if t.apply(b) {
            t.hashes.push(res.1);
        }
    }
    let before: Vec<DbRecord> = db.dump().await;
    db.record_commits.store(true, Ordering::SeqCst);
    let res = dir.publish(to_updates(&sc.target)).await.unwrap();
    db.record_commits.store(false, Ordering::SeqCst);
    let mut t_after = t.clone();
    if t_after.apply(&sc.target) {
        t_after.hashes.push(res.1);
    }
    let batch = db.commits.lock().unwrap().last().cloned().unwrap();
    let n = batch.len();
    if !matches!(batch.last(), Some(DbRecord::Azks(_))) {
        cx.fail(format!("C11 [cfg {}]: the commit batch does not end with the epoch record", cfg));
        return;
    }
    let body = &batch[..n - 1];
    // store-level correspondence: the shape of the commit relative to the store before it, and the tree a
    // reader reconstructs as of the previous / the new epoch from raw records
    {
        use akd::tree_node::TreeNodeWithPreviousValue;
        let nodes = |v: &[DbRecord]| -> Vec<TreeNodeWithPreviousValue> { v.iter().filter_map(|r| if let DbRecord::TreeNode(x) = r { Some(x.clone()) } else { None }).collect() };
        let base_nodes = nodes(&before);
        let batch_nodes = nodes(body);
        let ser = |v: &[TreeNodeWithPreviousValue]| format!("{} {}", v.len(), v.iter().map(ser_rec).collect::<Vec<_>>().join(" "));
        cx.emit(format!("cshape {} {} {}", t.epoch, ser(&base_nodes), ser(&batch_nodes)), "1".into());
        let tree_of = |recs: &[TreeNodeWithPreviousValue], e: u64| {
            let m: std::collections::HashMap<akd::NodeLabel, TreeNodeWithPreviousValue> = recs.iter().map(|x| (x.label, x.clone())).collect();
            let mut s = String::new();
            ser_tree(&m, &akd::NodeLabel::root(), e, &mut s);
            if s.contains("ERR") { "ERR".to_string() } else { s.trim_end().to_string() }
        };
        // a few partial states as of the previous epoch, and the complete one as of both epochs
        for k in [0usize, batch_nodes.len() / 2, batch_nodes.len()] {
            let mut recs: Vec<TreeNodeWithPreviousValue> = batch_nodes[..k].to_vec();
            let written: std::collections::HashSet<akd::NodeLabel> = recs.iter().map(|x| x.label).collect();
            recs.extend(base_nodes.iter().filter(|x| !written.contains(&x.label)).cloned());
            cx.emit(format!("viewtree {} {}", t.epoch, ser(&recs)), tree_of(&recs, t.epoch));
            if k == batch_nodes.len() {
                cx.emit(format!("viewtree {} {}", t.epoch + 1, ser(&recs)), tree_of(&recs, t.epoch + 1));
                if t.epoch >= 1 {
                    // as of two epochs back: both retained versions may be newer (an error, never a wrong node)
                    cx.emit(format!("viewtree {} {}", t.epoch - 1, ser(&recs)), tree_of(&recs, t.epoch - 1));
                }
            }
        }
    }
    // subsets: every prefix of several orders, random subsets; each without and with the epoch record
    let mut subsets: Vec<Vec<usize>> = vec![];
    let orders = if lite { 1 } else if thorough { 12 } else { 3 };
    for o in 0..orders {
        let mut idx: Vec<usize> = (0..body.len()).collect();
        if o > 0 {
            r.shuffle(&mut idx);
        }
        for k in 0..=idx.len() {
            subsets.push(idx[..k].to_vec());
        }
    }
    for _ in 0..(if lite { 4 } else if thorough { 400 } else { 40 }) {
        subsets.push((0..body.len()).filter(|_| r.chance(1, 2)).collect());
    }
    for (si, sub) in subsets.iter().enumerate() {
        let ndb = AsyncInMemoryDatabase::new();
        ndb.batch_set(before.clone(), DbSetState::General).await.unwrap();
        let recs: Vec<DbRecord> = sub.iter().map(|i| body[*i].clone()).collect();
        ndb.batch_set(recs, DbSetState::General).await.unwrap();
        let st = StorageManager::new_no_cache(ndb.clone());
        let ro = ReadOnlyDirectory::<TC, _, _>::new(st, HardCodedAkdVRF {}, AzksParallelismConfig::disabled()).await.unwrap();
        // ReadOnlyDirectory exposes the same readers; reuse `serves` through a plain Directory over the same storage
        let _ = ro;
        let d2 = Directory::<TC, _, _>::new(StorageManager::new_no_cache(ndb.clone()), HardCodedAkdVRF {}, AzksParallelismConfig::disabled()).await.unwrap();
        serves::<TC, _>(cx, &d2, &t, &sc.labels, &format!("[cfg {} partial commit: {} of {} records written (subset #{})]", cfg, sub.len(), body.len(), si), "C11").await;
        cx.stat("c11_partial_states");
        cx.note(format!("C11 cfg {} subset {:?} of {} records", cfg, sub, body.len()));
        // values of the unfinished epoch must be invisible through the user-state API as well
        if sub.len() == body.len() || si % 7 == 0 {
            let ndb2 = AsyncInMemoryDatabase::new();
            ndb2.batch_set(before.clone(), DbSetState::General).await.unwrap();
            ndb2.batch_set(sub.iter().map(|i| body[*i].clone()).collect(), DbSetState::General).await.unwrap();
            ndb2.batch_set(vec![batch[n - 1].clone()], DbSetState::General).await.unwrap();
            if sub.len() == body.len() {
                let d3 = Directory::<TC, _, _>::new(StorageManager::new_no_cache(ndb2.clone()), HardCodedAkdVRF {}, AzksParallelismConfig::disabled()).await.unwrap();
                serves::<TC, _>(cx, &d3, &t_after, &sc.labels, &format!("[cfg {} complete commit incl. epoch record]", cfg), "C11").await;
                cx.stat("c11_complete_states");
            }
        }
    }
    // a crash in the middle of the commit, then the same publish again on a re-created directory
    let deads: Vec<Vec<DbRecord>> = vec![
        body[..body.len() / 2].to_vec(),
        body.to_vec(),
        body.iter().enumerate().filter(|(i, _)| i % 3 != 1).map(|(_, x)| x.clone()).collect(),
    ];
    for (di, dead) in deads.into_iter().enumerate() {
        if lite && di == 2 {
            continue;
        }
        let what = format!("[cfg {} crash after {} of {} records of the commit of epoch {} (variant {})]", cfg, dead.len(), body.len(), t.epoch + 1, di);
        c11_retry_after_crash::<TC>(cx, sc, &before, dead, &t, &t_after, &what).await;
    }
}

/// C11, after a crash: the commit of the target epoch died with the records `dead` written (no epoch record).  A
/// directory re-created over that storage publishes the same batch again.  The retry must take the epoch the dead
/// attempt was meant to take and end in the fault-free state; while ITS records reach storage one by one, a reader
/// must still be served the previous epoch intact; once its epoch record is there, the new epoch.
async fn c11_retry_after_crash<TC: Configuration>(cx: &mut Cx, sc: &Scenario, before: &[DbRecord], dead: Vec<DbRecord>, t: &Truth, t_after: &Truth, what: &str) {
    let ndb = AsyncInMemoryDatabase::new();
    ndb.batch_set(before.to_vec(), DbSetState::General).await.unwrap();
    ndb.batch_set(dead.clone(), DbSetState::General).await.unwrap();
    let crashed: Vec<DbRecord> = ndb.batch_get_all_direct().await.unwrap();
    let fdb = FaultDb::over(ndb.clone());
    fdb.record_commits.store(true, Ordering::SeqCst);
    let dir = Directory::<TC, _, _>::new(StorageManager::new_no_cache(fdb.clone()), HardCodedAkdVRF {}, AzksParallelismConfig::disabled()).await.unwrap();
    let res = dir.publish(to_updates(&sc.target)).await;
    cx.stat("c11_retries_after_crash");
    let eh = match res {
        Ok(eh) => eh,
        Err(_) => {
            // not a violation of C11 (which speaks about readers): with only part of the node records of the dead attempt in
            // storage the re-created directory may be unable to publish at all (a written parent names a child that was
            // not written).  Counted, and reported in DESIGN.md as an observation outside the listed properties.
            cx.stat("c11_retries_refused_on_partially_written_storage");
            return;
        }
    };
    if (eh.0, eh.1) != (t_after.epoch, t_after.hashes[t_after.epoch as usize]) {
        cx.fail(format!("C11 {}: the retry returned ({}, {}) but the publish of this batch on the state before the crash gives ({}, {})", what, eh.0, hx(&eh.1), t_after.epoch, hx(&t_after.hashes[t_after.epoch as usize])));
        return;
    }
    serves::<TC, _>(cx, &dir, t_after, &sc.labels, &format!("{} after the retry", what), "C11").await;
    if t_after.epoch == t.epoch {
        return;
    }
    let batch = match fdb.commits.lock().unwrap().last().cloned() {
        Some(b) => b,
        None => return,
    };
    let n = batch.len();
    // readers while the retry's records are being written (every prefix, without and - at the end - with the epoch record)
    let step = if n > 40 { n / 20 } else { 1 };
    let mut k = 0;
    while k < n {
        let mdb = AsyncInMemoryDatabase::new();
        mdb.batch_set(crashed.clone(), DbSetState::General).await.unwrap();
        mdb.batch_set(batch[..k].to_vec(), DbSetState::General).await.unwrap();
        let d2 = Directory::<TC, _, _>::new(StorageManager::new_no_cache(mdb.clone()), HardCodedAkdVRF {}, AzksParallelismConfig::disabled()).await.unwrap();
        serves::<TC, _>(cx, &d2, t, &sc.labels, &format!("{} while the retry is being written: {} of {} records", what, k, n - 1), "C11").await;
        cx.stat("c11_partial_states_of_retries");
        k += step;
    }
}

pub fn run(seed: u64, tier: u32, which: &str) -> Cx {
    let rt = tokio::runtime::Builder::new_current_thread().enable_all().build().unwrap();
    let mut cx = Cx::new();
    let mut r = Rng::new(seed ^ 0xFA17);
    rt.block_on(async {
        let mut shapes: Vec<u32> = if tier == 0 { vec![0, 2] } else { vec![0, 1, 2, 3, 3] };
        if which != "c10" {
            shapes.extend(std::iter::repeat(4).take(if tier == 0 { 12 } else { 60 }));
        }
        if which == "c10" {
            // one large publish, faults at its writes (uncached and cached manager)
            let sc = large_scenario();
            c10_scenario::<W>(&mut cx, &sc, false, 0).await;
            if tier != 0 {
                c10_scenario::<E>(&mut cx, &sc, true, 2).await;
            } else {
                c10_scenario::<E>(&mut cx, &sc, true, 0).await;
            }
        }
        for (i, sh) in shapes.iter().enumerate() {
            let sc = scenario(&mut r, *sh);
            if which == "c10" {
                for (cached, parallel) in [(false, 0u32), (true, 0), (false, 2), (true, 3)] {
                    if tier == 0 && (i + cached as usize + parallel as usize) % 2 == 1 {
                        // quick tier: half of the matrix per shape
                        if i % 2 == 0 { c10_scenario::<W>(&mut cx, &sc, cached, parallel).await } else { c10_scenario::<E>(&mut cx, &sc, cached, parallel).await }
                    } else if tier != 0 {
                        c10_scenario::<W>(&mut cx, &sc, cached, parallel).await;
                        c10_scenario::<E>(&mut cx, &sc, cached, parallel).await;
                    }
                }
            } else {
                let lite = *sh == 4;
                if i % 2 == 0 { c11_scenario::<W>(&mut cx, &mut r, &sc, tier != 0, lite).await } else { c11_scenario::<E>(&mut cx, &mut r, &sc, tier != 0, lite).await }
            }
        }
    });
    cx
}
