//! Directory-level runs (C01, C02, C03, C04 and the X-tree / X-proof / X-verify ties): random
//! publish histories on the real Directory, full database dump after every publish, every proof
//! the directory returns and every verifier verdict, with ground truth from an independent table.
use crate::rng::Rng;
use crate::treeutil::*;
use akd::append_only_zks::Azks;
use akd::auditor::audit_verify;
use akd::client::{key_history_verify, lookup_verify};
use akd::directory::Directory;
use akd::ecvrf::{HardCodedAkdVRF, VRFKeyStorage};
use akd::storage::manager::StorageManager;
use akd::storage::memory::AsyncInMemoryDatabase;
use akd::storage::types::{DbRecord, ValueState};
use akd::storage::StorageUtil;
use akd::tree_node::TreeNodeWithPreviousValue;
use akd::{AkdLabel, AkdValue, AppendOnlyProof, AzksParallelismConfig, EpochHash, HistoryParams, HistoryProof, HistoryVerificationParams, LookupProof, NodeLabel, UpdateProof, VersionFreshness};
use akd_core::configuration::Configuration;
use std::collections::{BTreeMap, HashMap};
use std::fmt::Write as _;

pub fn hb(b: &[u8]) -> String {
    if b.is_empty() { "-".to_string() } else { hex::encode(b) }
}
pub fn ser_lookup(p: &LookupProof) -> String {
    format!("{} {} {} {} {} {} {} {} {} {}", p.epoch, hb(&p.value.0), p.version, hb(&p.existence_vrf_proof), ser_mp(&p.existence_proof), hb(&p.marker_vrf_proof), ser_mp(&p.marker_proof), hb(&p.freshness_vrf_proof), ser_nmp(&p.freshness_proof), hb(&p.commitment_nonce))
}
pub fn ser_update(u: &UpdateProof) -> String {
    let prev = match (&u.previous_version_vrf_proof, &u.previous_version_proof) {
        (Some(v), Some(m)) => format!("P {} {}", hb(v), ser_mp(m)),
        (None, None) => "N".to_string(),
        (Some(v), None) => format!("V {}", hb(v)),
        (None, Some(m)) => format!("M {}", ser_mp(m)),
    };
    format!("{} {} {} {} {} {} {}", u.epoch, u.version, hb(&u.value.0), hb(&u.existence_vrf_proof), ser_mp(&u.existence_proof), prev, hb(&u.commitment_nonce))
}
pub fn ser_history(p: &HistoryProof) -> String {
    let mut s = format!("{}", p.update_proofs.len());
    for u in &p.update_proofs {
        write!(s, " {}", ser_update(u)).unwrap();
    }
    write!(s, " {}", p.past_marker_vrf_proofs.len()).unwrap();
    for v in &p.past_marker_vrf_proofs {
        write!(s, " {}", hb(v)).unwrap();
    }
    write!(s, " {}", p.existence_of_past_marker_proofs.len()).unwrap();
    for m in &p.existence_of_past_marker_proofs {
        write!(s, " {}", ser_mp(m)).unwrap();
    }
    write!(s, " {}", p.future_marker_vrf_proofs.len()).unwrap();
    for v in &p.future_marker_vrf_proofs {
        write!(s, " {}", hb(v)).unwrap();
    }
    write!(s, " {}", p.non_existence_of_future_marker_proofs.len()).unwrap();
    for m in &p.non_existence_of_future_marker_proofs {
        write!(s, " {}", ser_nmp(m)).unwrap();
    }
    s
}
fn sorted_elems(v: &[akd::AzksElement]) -> Vec<akd::AzksElement> {
    let mut v = v.to_vec();
    v.sort_by(|a, b| a.label.cmp(&b.label).then(a.value.0.cmp(&b.value.0)));
    v
}
/// audit proofs are compared with their element lists sorted (the walk order depends on parallelism)
pub fn ser_audit(p: &AppendOnlyProof) -> String {
    let mut s = format!("{}", p.proofs.len());
    for sp in &p.proofs {
        write!(s, " {} {}", ser_elems(&sorted_elems(&sp.inserted)), ser_elems(&sorted_elems(&sp.unchanged_nodes))).unwrap();
    }
    write!(s, " {}", p.epochs.len()).unwrap();
    for e in &p.epochs {
        write!(s, " {}", e).unwrap();
    }
    s
}
pub fn ser_audit_raw(p: &AppendOnlyProof) -> String {
    let mut s = format!("{}", p.proofs.len());
    for sp in &p.proofs {
        write!(s, " {} {}", ser_elems(&sp.inserted), ser_elems(&sp.unchanged_nodes)).unwrap();
    }
    write!(s, " {}", p.epochs.len()).unwrap();
    for e in &p.epochs {
        write!(s, " {}", e).unwrap();
    }
    s
}

pub struct Cx {
    pub out: String,
    pub fails: Vec<String>,
    pub cases: usize,
    pub stats: BTreeMap<String, u64>,
    pub seen: std::collections::HashSet<String>,
}
impl Cx {
    pub fn new() -> Self {
        Cx { out: String::new(), fails: vec![], cases: 0, stats: BTreeMap::new(), seen: std::collections::HashSet::new() }
    }
    /// records one implementation-side evaluation (a fault point, a schedule, a configuration ...) that has
    /// no model line of its own; the first few are written out as samples
    pub fn note(&mut self, what: String) {
        *self.stats.entry("evaluations".to_string()).or_insert(0) += 1;
        if self.seen.insert(what.clone()) {
            *self.stats.entry("distinct".to_string()).or_insert(0) += 1;
            if self.seen.len() <= 6 {
                writeln!(self.out, "INFO sample {}", what).unwrap();
            }
        }
    }
    pub fn emit(&mut self, q: String, a: String) {
        writeln!(self.out, "{} = {}", q, a).unwrap();
        self.cases += 1;
    }
    pub fn stat(&mut self, k: &str) {
        *self.stats.entry(k.to_string()).or_insert(0) += 1;
    }
    pub fn fail(&mut self, s: String) {
        if self.fails.len() < 100 {
            self.fails.push(s);
        }
    }
}

pub type Db = AsyncInMemoryDatabase;
pub type Dir<TC> = Directory<TC, Db, HardCodedAkdVRF>;

/// the independent record of what was published: per label the list of (version, value, epoch)
#[derive(Default, Clone)]
pub struct Truth {
    pub versions: BTreeMap<Vec<u8>, Vec<(u64, Vec<u8>, u64)>>,
    pub epoch: u64,
    pub hashes: Vec<[u8; 32]>, // hashes[e] = root hash of epoch e
}
impl Truth {
    /// applies a batch; returns whether it changes anything
    pub fn apply(&mut self, batch: &[(Vec<u8>, Vec<u8>)]) -> bool {
        let mut changed = vec![];
        for (l, v) in batch {
            match self.versions.get(l).and_then(|x| x.last()) {
                Some((_, cur, _)) if cur == v => {}
                _ => changed.push((l.clone(), v.clone())),
            }
        }
        if changed.is_empty() {
            return false;
        }
        self.epoch += 1;
        for (l, v) in changed {
            let e = self.versions.entry(l).or_default();
            let ver = e.len() as u64 + 1;
            e.push((ver, v, self.epoch));
        }
        true
    }
}

pub async fn dump_state<TC: Configuration>(db: &Db) -> String {
    let recs = db.batch_get_all_direct().await.unwrap();
    let mut nodes: HashMap<NodeLabel, TreeNodeWithPreviousValue> = HashMap::new();
    let mut azks: Option<Azks> = None;
    let mut states: Vec<ValueState> = vec![];
    for r in recs {
        match r {
            DbRecord::TreeNode(n) => {
                nodes.insert(n.label, n);
            }
            DbRecord::Azks(a) => azks = Some(a),
            DbRecord::ValueState(s) => states.push(s),
        }
    }
    let a = azks.unwrap();
    let mut ts = String::new();
    ser_tree(&nodes, &NodeLabel::root(), a.latest_epoch, &mut ts);
    states.sort_by(|x, y| x.username.0.cmp(&y.username.0).then(x.epoch.cmp(&y.epoch)));
    let mut ss = String::new();
    for s in &states {
        write!(ss, " {}:{}:{}:{}:{}", hb(&s.username.0), s.epoch, s.version, hb(&s.value.0), fmt_nl(&s.label).replace(' ', "/")).unwrap();
    }
    format!("{} {} {}|{}", a.latest_epoch, a.num_nodes, ts.trim_end(), ss)
}

/// the row <-> record path of column-oriented data layers (the MySQL example): every stored record, taken apart into
/// the columns such a layer keeps and rebuilt with the crate's `DbRecord::build_*` helpers, must be the record itself
pub async fn rowstore_roundtrip(db: &Db) -> Vec<String> {
    let mut fails = vec![];
    for r in db.batch_get_all_direct().await.unwrap() {
        match &r {
            DbRecord::TreeNode(n) => {
                let l = &n.latest_node;
                let p = n.previous_node.as_ref();
                let back = DbRecord::build_tree_node_with_previous_value(
                    n.label.label_val, n.label.label_len, l.last_epoch, l.min_descendant_epoch, l.parent.label_val, l.parent.label_len,
                    l.node_type as u8, l.left_child, l.right_child, l.hash.0,
                    p.map(|x| x.last_epoch), p.map(|x| x.min_descendant_epoch), p.map(|x| x.parent.label_val), p.map(|x| x.parent.label_len),
                    p.map(|x| x.node_type as u8), p.and_then(|x| x.left_child), p.and_then(|x| x.right_child), p.map(|x| x.hash.0));
                if back != *n {
                    fails.push(format!("C04 a tree-node record rebuilt from its columns differs from the stored one (node {}): audits served by a column-oriented data layer would walk other epochs", fmt_nl(&n.label)));
                    break;
                }
            }
            DbRecord::Azks(a) => {
                if DbRecord::build_azks(a.latest_epoch, a.num_nodes) != *a {
                    fails.push("C04 the epoch record rebuilt from its columns differs from the stored one".to_string());
                }
            }
            DbRecord::ValueState(v) => {
                if DbRecord::build_user_state(v.username.0.clone(), v.value.0.clone(), v.version, v.label.label_len, v.label.label_val, v.epoch) != *v {
                    fails.push("C04 a value state rebuilt from its columns differs from the stored one".to_string());
                    break;
                }
            }
        }
    }
    fails
}

pub fn label_universe(r: &mut Rng, n: usize) -> Vec<Vec<u8>> {
    let mut v: Vec<Vec<u8>> = vec![vec![], vec![0], vec![1], b"a".to_vec(), b"ab".to_vec(), b"abc".to_vec(), vec![0xFF; 330], b"user".to_vec()];
    while v.len() < n {
        let k = 1 + r.below(12) as usize;
        v.push(r.bytes(k));
    }
    v.truncate(n);
    v
}
pub fn gen_value(r: &mut Rng) -> Vec<u8> {
    match r.below(10) {
        0 => vec![],
        1 => vec![0],
        2 => vec![7; 1500],
        _ => {
            let k = 1 + r.below(6) as usize;
            r.bytes(k)
        }
    }
}

pub struct VrfTable {
    pub pk: Vec<u8>,
    pub ck: Vec<u8>,
}
/// emits the VRF table lines (label, freshness, version) -> (node label, proof) for versions 1..=maxv
pub async fn emit_vrf_table<TC: Configuration>(cx: &mut Cx, vrf: &HardCodedAkdVRF, labels: &[Vec<u8>], maxv: u64) -> VrfTable {
    for l in labels {
        for f in [VersionFreshness::Stale, VersionFreshness::Fresh] {
            for v in 1..=maxv {
                let nl = vrf.get_node_label::<TC>(&AkdLabel(l.clone()), f, v).await.unwrap();
                let p = vrf.get_label_proof::<TC>(&AkdLabel(l.clone()), f, v).await.unwrap();
                writeln!(cx.out, "vrf {} {} {} = {} {}", hb(l), f as u8, v, hex::encode(nl.label_val), hex::encode(p.to_bytes())).unwrap();
                cx.cases += 1;
            }
        }
    }
    let pk = vrf.get_vrf_public_key().await.unwrap().as_bytes().to_vec();
    let ck = TC::hash(&vrf.retrieve().await.unwrap()).to_vec();
    VrfTable { pk, ck }
}

pub struct RunOpts {
    pub epochs: usize,
    pub nlabels: usize,
    pub query_every: usize,
    pub audits: bool,
    pub cached: bool,
    pub parallel: bool,
}

pub async fn new_dir<TC: Configuration>(db: &Db, cached: bool, parallel: bool) -> Dir<TC> {
    let st = if cached { StorageManager::new(db.clone(), None, None, None) } else { StorageManager::new_no_cache(db.clone()) };
    let par = if parallel { AzksParallelismConfig::default() } else { AzksParallelismConfig::disabled() };
    Directory::<TC, _, _>::new(st, HardCodedAkdVRF {}, par).await.unwrap()
}

fn res_str(r: &akd::VerifyResult) -> String {
    format!("{} {} {}", r.epoch, r.version, hb(&r.value.0))
}

pub async fn queries<TC: Configuration>(cx: &mut Cx, dir: &Dir<TC>, t: &Truth, tab: &VrfTable, labels: &[Vec<u8>], r: &mut Rng, audits: bool) {
    let cfg = cfg_name::<TC>();
    let pk = hex::encode(&tab.pk);
    let eh = dir.get_epoch_hash().await.unwrap();
    if eh.0 != t.epoch || eh.1 != t.hashes[t.epoch as usize] {
        cx.fail(format!("C01 get_epoch_hash returned ({}, {}) expected ({}, {})", eh.0, hx(&eh.1), t.epoch, hx(&t.hashes[t.epoch as usize])));
    }
    for l in labels {
        let al = AkdLabel(l.clone());
        let truth = t.versions.get(l);
        // ---- lookup
        match dir.lookup(al.clone()).await {
            Ok((p, e)) => {
                cx.emit(format!("lookup {}", hb(l)), format!("ok {} {} {}", e.0, hx(&e.1), ser_lookup(&p)));
                let v = lookup_verify::<TC>(&tab.pk, e.1, e.0, al.clone(), p.clone());
                cx.emit(format!("vlookup {} {} {} {} {} {}", cfg, pk, hx(&e.1), e.0, hb(l), ser_lookup(&p)), match &v { Ok(r) => format!("ok {}", res_str(r)), Err(_) => "err".into() });
                cx.stat("lookups");
                match (truth, &v) {
                    (Some(tv), Ok(rv)) => {
                        let (ver, val, ep) = tv.last().unwrap();
                        if !(rv.version == *ver && rv.value.0 == *val && rv.epoch == *ep && e.0 == t.epoch && e.1 == t.hashes[t.epoch as usize]) {
                            cx.fail(format!("C02 lookup of {} at epoch {} verified to ({}) but the latest update is version {} epoch {} value {}", hb(l), t.epoch, res_str(rv), ver, ep, hb(val)));
                        }
                    }
                    (Some(_), Err(e2)) => cx.fail(format!("C02 lookup proof of published label {} at epoch {} does not verify: {:?}", hb(l), t.epoch, e2)),
                    (None, _) => cx.fail(format!("C02 lookup of never-published label {} produced a proof", hb(l))),
                }
            }
            Err(_) => {
                cx.emit(format!("lookup {}", hb(l)), "err".into());
                if truth.is_some() {
                    cx.fail(format!("C02 lookup of published label {} failed at epoch {}", hb(l), t.epoch));
                }
            }
        }
        // ---- history
        let nver = truth.map(|x| x.len()).unwrap_or(0);
        let mut params = vec![HistoryParams::Complete, HistoryParams::MostRecent(1)];
        if nver > 0 {
            params.push(HistoryParams::MostRecent(nver));
            params.push(HistoryParams::MostRecent(nver + 3));
            if nver > 2 {
                params.push(HistoryParams::MostRecent(1 + r.below(nver as u64 - 1) as usize));
            }
        }
        for hp in params {
            let ps = match hp { HistoryParams::Complete => "c".to_string(), HistoryParams::MostRecent(n) => format!("m{}", n) };
            match dir.key_history(&al, hp).await {
                Ok((p, e)) => {
                    cx.emit(format!("hist {} {}", hb(l), ps), format!("ok {} {} {}", e.0, hx(&e.1), ser_history(&p)));
                    let v = key_history_verify::<TC>(&tab.pk, e.1, e.0, al.clone(), p.clone(), HistoryVerificationParams::Default { history_params: hp });
                    cx.emit(format!("vhist {} {} {} {} {} {} 0 {}", cfg, pk, hx(&e.1), e.0, hb(l), ps, ser_history(&p)), match &v { Ok(rs) => format!("ok {} {}", rs.len(), rs.iter().map(res_str).collect::<Vec<_>>().join(" ")), Err(_) => "err".into() });
                    cx.stat("histories");
                    match (truth, &v) {
                        (Some(tv), Ok(rs)) => {
                            let bound = match hp { HistoryParams::Complete => tv.len(), HistoryParams::MostRecent(n) => n.min(tv.len()) };
                            let want: Vec<String> = tv.iter().rev().take(bound).map(|(ver, val, ep)| format!("{} {} {}", ep, ver, hb(val))).collect();
                            let got: Vec<String> = rs.iter().map(res_str).collect();
                            if want != got || e.0 != t.epoch || e.1 != t.hashes[t.epoch as usize] {
                                cx.fail(format!("C03 key_history({}) of {} at epoch {} verified to [{}] expected [{}]", ps, hb(l), t.epoch, got.join("; "), want.join("; ")));
                            }
                        }
                        (Some(_), Err(e2)) => cx.fail(format!("C03 key_history({}) of {} at epoch {} does not verify: {:?}", ps, hb(l), t.epoch, e2)),
                        (None, _) => cx.fail(format!("C03 key_history of never-published label {} produced a proof", hb(l))),
                    }
                }
                Err(_) => {
                    cx.emit(format!("hist {} {}", hb(l), ps), "err".into());
                    if truth.is_some() {
                        cx.fail(format!("C03 key_history({}) of published label {} failed at epoch {}", ps, hb(l), t.epoch));
                    }
                }
            }
        }
    }
    // ---- batch lookup
    let pubd: Vec<AkdLabel> = labels.iter().filter(|l| t.versions.contains_key(*l)).map(|l| AkdLabel(l.clone())).collect();
    if !pubd.is_empty() {
        match dir.batch_lookup(&pubd).await {
            Ok((ps, e)) => {
                for (l, p) in pubd.iter().zip(ps.iter()) {
                    let single = dir.lookup(l.clone()).await.unwrap();
                    if single.0 != *p || single.1 != e {
                        cx.fail(format!("C02 batch_lookup differs from lookup for {}", hb(&l.0)));
                    }
                }
                cx.stat("batch_lookups");
            }
            Err(e) => cx.fail(format!("C02 batch_lookup failed: {:?}", e)),
        }
    }
    // ---- audits
    if audits && t.epoch >= 1 {
        let mut pairs: Vec<(u64, u64)> = vec![];
        for s in 0..t.epoch {
            for e in (s + 1)..=t.epoch {
                pairs.push((s, e));
            }
        }
        if pairs.len() > 14 {
            r.shuffle(&mut pairs);
            pairs.truncate(12);
            pairs.push((0, t.epoch));
            pairs.push((t.epoch - 1, t.epoch));
        }
        for (s, e) in pairs {
            match dir.audit(s, e).await {
                Ok(p) => {
                    cx.emit(format!("audit {} {}", s, e), format!("ok {}", ser_audit(&p)));
                    let hashes: Vec<[u8; 32]> = (s..=e).map(|i| t.hashes[i as usize]).collect();
                    let v = audit_verify::<TC>(hashes.clone(), p.clone()).await;
                    cx.emit(format!("vaudit {} {} {} {}", cfg, hashes.len(), hashes.iter().map(|h| hx(h)).collect::<Vec<_>>().join(" "), ser_audit_raw(&p)), format!("{}", v.is_ok() as u8));
                    cx.stat("audits");
                    if v.is_err() {
                        cx.fail(format!("C04 audit proof for ({}, {}) at epoch {} does not verify against the published hashes: {:?}", s, e, t.epoch, v.err()));
                    }
                }
                Err(er) => {
                    cx.emit(format!("audit {} {}", s, e), "err".into());
                    cx.fail(format!("C04 audit({}, {}) failed at epoch {}: {:?}", s, e, t.epoch, er));
                }
            }
        }
        // refused ranges
        for (s, e) in [(t.epoch, t.epoch), (t.epoch, t.epoch + 1), (0, t.epoch + 1), (t.epoch + 2, t.epoch + 1), (1, 0)] {
            let ok = dir.audit(s, e).await.is_ok();
            cx.emit(format!("audit {} {}", s, e), if ok { "ok ?".into() } else { "err".into() });
            if ok {
                cx.fail(format!("C04 audit({}, {}) was not refused at epoch {}", s, e, t.epoch));
            }
        }
    }
}

/// the leaves the specification prescribes for the history so far (C01), computed from the truth table and
/// the configuration's formulas only
pub async fn spec_leaves<TC: Configuration>(t: &Truth, vrf: &HardCodedAkdVRF, ck: &[u8]) -> Vec<(NodeLabel, [u8; 32], u64)> {
    let mut out = vec![];
    for (l, vs) in &t.versions {
        let al = AkdLabel(l.clone());
        for (i, (ver, val, ep)) in vs.iter().enumerate() {
            let nl = vrf.get_node_label::<TC>(&al, VersionFreshness::Fresh, *ver).await.unwrap();
            out.push((nl, TC::compute_fresh_azks_value(ck, &nl, *ver, &AkdValue(val.clone())).0, *ep));
            if i + 1 < vs.len() {
                let sl = vrf.get_node_label::<TC>(&al, VersionFreshness::Stale, *ver).await.unwrap();
                out.push((sl, TC::stale_azks_value().0, vs[i + 1].2));
            }
        }
    }
    out
}

pub async fn one_history<TC: Configuration>(cx: &mut Cx, r: &mut Rng, o: &RunOpts) {
    let cfg = cfg_name::<TC>();
    let db = Db::new();
    let dir = new_dir::<TC>(&db, o.cached, o.parallel).await;
    let vrf = HardCodedAkdVRF {};
    let labels = label_universe(r, o.nlabels);
    // header + VRF table
    let ckb = TC::hash(&vrf.retrieve().await.unwrap()).to_vec();
    let pkb = vrf.get_vrf_public_key().await.unwrap().as_bytes().to_vec();
    cx.emit(format!("dir {} {} {}", cfg, hex::encode(&ckb), hex::encode(&pkb)), "ok".into());
    let maxv = (o.epochs as u64 + 2).next_power_of_two().max(4);
    let tab = emit_vrf_table::<TC>(cx, &vrf, &labels, maxv).await;
    let mut t = Truth::default();
    t.hashes.push(dir.get_epoch_hash().await.unwrap().1);
    cx.emit("state".into(), dump_state::<TC>(&db).await);
    for ep in 0..o.epochs {
        // batch generation
        let mut batch: Vec<(Vec<u8>, Vec<u8>)> = vec![];
        let kind = r.below(12);
        let size = match r.below(4) { 0 => 1, 1 => 2, _ => 1 + r.below(o.nlabels as u64) as usize };
        let mut pool = labels.clone();
        r.shuffle(&mut pool);
        for l in pool.into_iter().take(size) {
            let cur = t.versions.get(&l).and_then(|x| x.last()).map(|x| x.1.clone());
            let v = match (cur, r.below(5)) {
                (Some(c), 0) => c,              // re-submission of the current value
                _ => gen_value(r),
            };
            batch.push((l, v));
        }
        if kind == 0 && !batch.is_empty() {
            // a batch that repeats a label
            let d = batch[0].clone();
            batch.push((d.0, gen_value(r)));
        }
        if kind == 1 {
            // only re-submissions
            batch = t.versions.iter().take(3).map(|(l, vs)| (l.clone(), vs.last().unwrap().1.clone())).collect();
        }
        let dup = {
            let mut s: Vec<&Vec<u8>> = batch.iter().map(|x| &x.0).collect();
            s.sort();
            s.windows(2).any(|w| w[0] == w[1])
        };
        let before_dump = if dup || kind == 1 { Some(dump_state::<TC>(&db).await) } else { None };
        let res = dir.publish(batch.iter().map(|(l, v)| (AkdLabel(l.clone()), AkdValue(v.clone()))).collect()).await;
        let q = format!("pub {} {}", batch.len(), batch.iter().map(|(l, v)| format!("{} {}", hb(l), hb(v))).collect::<Vec<_>>().join(" "));
        match &res {
            Ok(EpochHash(e, h)) => cx.emit(q.clone(), format!("ok {} {}", e, hx(h))),
            Err(akd::errors::AkdError::Directory(akd::errors::DirectoryError::Publish(_))) => cx.emit(q.clone(), "err D".into()),
            Err(_) => cx.emit(q.clone(), "err O".into()),
        }
        cx.stat("publishes");
        if dup {
            cx.stat("duplicate_batches");
            if res.is_ok() {
                cx.fail(format!("C01 a batch that repeats a label was accepted: {}", q));
            }
            if Some(dump_state::<TC>(&db).await) != before_dump {
                cx.fail(format!("C01 a rejected batch changed the database: {}", q));
            }
        } else {
            let changed = t.apply(&batch);
            if !changed {
                cx.stat("noop_batches");
            }
            match &res {
                Ok(EpochHash(e, h)) => {
                    if changed {
                        t.hashes.push(*h);
                    }
                    if *e != t.epoch || *h != t.hashes[t.epoch as usize] {
                        cx.fail(format!("C01 publish returned epoch {} hash {} but the history has {} changing publishes (hash {})", e, hx(h), t.epoch, hx(&t.hashes[t.epoch as usize])));
                    }
                    if !changed && before_dump.is_some() && Some(dump_state::<TC>(&db).await) != before_dump {
                        cx.fail(format!("C01 a publish that only re-submits current values changed the database: {}", q));
                    }
                }
                Err(e) => cx.fail(format!("C01 publish failed: {:?} for {}", e, q)),
            }
        }
        cx.emit("state".into(), dump_state::<TC>(&db).await);
        // the specification's root hash from the history alone (evaluated by the model's canonical trie)
        let leaves = spec_leaves::<TC>(&t, &vrf, &tab.ck).await;
        let mut q = format!("specroot {} {}", cfg, leaves.len());
        for (l, v, e) in &leaves {
            write!(q, " {} {} {}", hex::encode(l.label_val), hx(v), e).unwrap();
        }
        cx.emit(q, hx(&t.hashes[t.epoch as usize]));
        if (ep + 1) % o.query_every == 0 || ep + 1 == o.epochs {
            queries::<TC>(cx, &dir, &t, &tab, &labels, r, o.audits).await;
        }
    }
    // tombstoning through the storage manager (C20): the model's d_tombstone must give the same state, the same
    // history proofs and the same verdicts in both verification modes; a further publish must still correspond
    if let Some((tl, tv)) = t.versions.iter().find(|(_, v)| v.len() >= 2).map(|(l, v)| (l.clone(), v.clone())) {
        let cut = tv[tv.len() - 2].2;
        let st2 = StorageManager::new_no_cache(db.clone());
        st2.tombstone_value_states(&AkdLabel(tl.clone()), cut).await.unwrap();
        cx.emit(format!("dtomb {} {}", hb(&tl), cut), "ok".into());
        cx.emit("state".into(), dump_state::<TC>(&db).await);
        cx.stat("tombstones");
        let pk = hex::encode(&tab.pk);
        let d2 = new_dir::<TC>(&db, false, false).await;
        for hp in [HistoryParams::Complete, HistoryParams::MostRecent(1)] {
            let ps = match hp { HistoryParams::Complete => "c".to_string(), HistoryParams::MostRecent(n) => format!("m{}", n) };
            if let Ok((p, e)) = d2.key_history(&AkdLabel(tl.clone()), hp).await {
                cx.emit(format!("hist {} {}", hb(&tl), ps), format!("ok {} {} {}", e.0, hx(&e.1), ser_history(&p)));
                for allow in [false, true] {
                    let vp = if allow { HistoryVerificationParams::AllowMissingValues { history_params: hp } } else { HistoryVerificationParams::Default { history_params: hp } };
                    let v = key_history_verify::<TC>(&tab.pk, e.1, e.0, AkdLabel(tl.clone()), p.clone(), vp);
                    cx.emit(format!("vhist {} {} {} {} {} {} {} {}", cfg, pk, hx(&e.1), e.0, hb(&tl), ps, allow as u8, ser_history(&p)), match &v { Ok(rs) => format!("ok {} {}", rs.len(), rs.iter().map(res_str).collect::<Vec<_>>().join(" ")), Err(_) => "err".into() });
                }
            }
        }
        if let Ok((p, e)) = d2.lookup(AkdLabel(tl.clone())).await {
            cx.emit(format!("lookup {}", hb(&tl)), format!("ok {} {} {}", e.0, hx(&e.1), ser_lookup(&p)));
        }
        let b = vec![(tl.clone(), vec![0x7A, 1]), (labels[labels.len() - 1].clone(), vec![0x7A, 2])];
        let res = d2.publish(b.iter().map(|(l, v)| (AkdLabel(l.clone()), AkdValue(v.clone()))).collect()).await;
        cx.emit(format!("pub {} {}", b.len(), b.iter().map(|(l, v)| format!("{} {}", hb(l), hb(v))).collect::<Vec<_>>().join(" ")), match &res { Ok(EpochHash(e, h)) => format!("ok {} {}", e, hx(h)), Err(_) => "err O".into() });
        cx.emit("state".into(), dump_state::<TC>(&db).await);
    }
    for f in rowstore_roundtrip(&db).await {
        cx.fail(f);
    }
    cx.stat("rowstore_roundtrips");
    let _ = dir;
}

pub fn run(seed: u64, tier: u32) -> Cx {
    let rt = tokio::runtime::Builder::new_current_thread().enable_all().build().unwrap();
    let mut cx = Cx::new();
    let mut r = Rng::new(seed ^ 0xD1D1);
    let nh = if tier == 0 { 6 } else { 60 };
    // every third history is driven from a multi-threaded runtime: the tasks which publish spawns (VRF batch,
    // parallel insertion, preloading) then complete in any order, as they do under a real server's #[tokio::main]
    let rt_mt = tokio::runtime::Builder::new_multi_thread().worker_threads(4).enable_all().build().unwrap();
    for i in 0..nh {
        let mt = i % 3 == 2;
        let o = RunOpts { epochs: if tier == 0 { 5 + (i % 3) * 2 } else { 6 + (i % 5) * 4 }, nlabels: if mt { 9 } else { 3 + (i % 4) * 2 }, query_every: if tier == 0 { 3 } else { 4 }, audits: true, cached: i % 2 == 1, parallel: i % 4 >= 2 };
        let fut = async {
            if i % 2 == 0 {
                one_history::<W>(&mut cx, &mut r, &o).await;
            } else {
                one_history::<E>(&mut cx, &mut r, &o).await;
            }
        };
        if mt { rt_mt.block_on(fut) } else { rt.block_on(fut) }
    }
    cx
}
