//! Shared helpers: building real Azks trees, dumping them from storage, canonical serialisation of
//! trees and proofs for the trace.
use akd::append_only_zks::{Azks, InsertMode};
use akd::storage::manager::StorageManager;
use akd::storage::memory::AsyncInMemoryDatabase;
use akd::storage::types::DbRecord;
use akd::storage::StorageUtil;
use akd::tree_node::{TreeNode, TreeNodeType, TreeNodeWithPreviousValue};
use akd::{AzksElement, AzksParallelismConfig, AzksValue, Direction, MembershipProof, NodeLabel, NonMembershipProof, SiblingProof};
use akd_core::configuration::Configuration;
use std::collections::HashMap;
use std::fmt::Write as _;

pub type W = akd::WhatsAppV1Configuration;
pub type E = akd::ExperimentalConfiguration<akd::ExampleLabel>;

pub fn hx(b: &[u8]) -> String {
    hex::encode(b)
}
pub fn fmt_nl(l: &NodeLabel) -> String {
    format!("{} {}", hex::encode(l.label_val), l.label_len)
}
pub fn from_bits(bits: &[bool]) -> NodeLabel {
    let mut v = [0u8; 32];
    for (i, b) in bits.iter().enumerate() {
        if *b {
            v[i / 8] |= 1 << (7 - (i % 8));
        }
    }
    NodeLabel::new(v, bits.len() as u32)
}
pub fn bits_of(l: &NodeLabel) -> Vec<bool> {
    (0..l.label_len.min(256)).map(|i| (l.label_val[(i / 8) as usize] >> (7 - (i % 8))) & 1 == 1).collect()
}
pub fn is_prefix_bits(a: &[bool], b: &[bool]) -> bool {
    a.len() <= b.len() && a.iter().zip(b.iter()).all(|(x, y)| x == y)
}

pub struct RealAzks {
    pub db: AsyncInMemoryDatabase,
    pub st: StorageManager<AsyncInMemoryDatabase>,
    pub azks: Azks,
}

impl RealAzks {
    pub async fn new<TC: Configuration>() -> Self {
        let db = AsyncInMemoryDatabase::new();
        let st = StorageManager::new_no_cache(db.clone());
        let azks = Azks::new::<TC, _>(&st).await.unwrap();
        RealAzks { db, st, azks }
    }
    pub async fn insert<TC: Configuration>(&mut self, elems: Vec<AzksElement>, mode: InsertMode) -> Result<(), String> {
        self.azks
            .batch_insert_nodes::<TC, _>(&self.st, elems, mode, AzksParallelismConfig::disabled())
            .await
            .map_err(|e| format!("{:?}", e))
    }
    pub async fn root_hash<TC: Configuration>(&self) -> [u8; 32] {
        self.azks.get_root_hash::<TC, _>(&self.st).await.unwrap()
    }
    /// all tree-node records of the database, latest version of each
    pub async fn dump(&self) -> HashMap<NodeLabel, TreeNodeWithPreviousValue> {
        let mut m = HashMap::new();
        for r in self.db.batch_get_all_direct().await.unwrap() {
            if let DbRecord::TreeNode(n) = r {
                m.insert(n.label, n);
            }
        }
        m
    }
}

/// the implementation's own version selection (hook H2)
pub fn node_as_of(rec: &TreeNodeWithPreviousValue, epoch: u64) -> Option<TreeNode> {
    rec.verif_determine_node_to_get(epoch).ok()
}
/// Ok(None) = not found (a reader treats the child as absent), Err = any other storage error
pub fn node_as_of_res(rec: &TreeNodeWithPreviousValue, epoch: u64) -> Result<Option<TreeNode>, ()> {
    match rec.verif_determine_node_to_get(epoch) {
        Ok(n) => Ok(Some(n)),
        Err(akd::errors::StorageError::NotFound(_)) => Ok(None),
        Err(_) => Err(()),
    }
}

/// one node record with both versions, for the store-level correspondence
pub fn ser_rec(r: &TreeNodeWithPreviousValue) -> String {
    let n = |x: &TreeNode| format!("{} {} {} {} {} {}", x.last_epoch, x.min_descendant_epoch, if x.node_type == TreeNodeType::Leaf { "L" } else { "N" },
        x.left_child.map(|l| fmt_nl(&l).replace(' ', "/")).unwrap_or("-".into()), x.right_child.map(|l| fmt_nl(&l).replace(' ', "/")).unwrap_or("-".into()), hx(&x.hash.0));
    format!("{} {} {}", fmt_nl(&r.label), n(&r.latest_node), match &r.previous_node { Some(p) => format!("P {}", n(p)), None => "-".into() })
}

/// preorder serialisation of the tree stored in `m` as of `epoch`:
/// L <label> <hash> <last_epoch> | (R|I) <label> <last_epoch> <min_desc> <hash> <left|-> <right|->
pub fn ser_tree(m: &HashMap<NodeLabel, TreeNodeWithPreviousValue>, label: &NodeLabel, epoch: u64, out: &mut String) {
    let n = match m.get(label).map(|r| node_as_of_res(r, epoch)).unwrap_or(Ok(None)) {
        Ok(Some(n)) => n,
        Ok(None) => {
            out.push_str("- ");
            return;
        }
        Err(()) => {
            out.push_str("ERR ");
            return;
        }
    };
    match n.node_type {
        TreeNodeType::Leaf => {
            write!(out, "L {} {} {} ", fmt_nl(&n.label), hx(&n.hash.0), n.last_epoch).unwrap();
            if n.left_child.is_some() || n.right_child.is_some() {
                out.push_str("LEAF-WITH-CHILDREN ");
            }
        }
        t => {
            write!(out, "{} {} {} {} {} ", if t == TreeNodeType::Root { "R" } else { "I" }, fmt_nl(&n.label), n.last_epoch, n.min_descendant_epoch, hx(&n.hash.0)).unwrap();
            for c in [n.left_child, n.right_child] {
                match c {
                    Some(cl) => ser_tree(m, &cl, epoch, out),
                    None => out.push_str("- "),
                }
            }
        }
    }
}

pub fn ser_elems(v: &[AzksElement]) -> String {
    let mut s = format!("{}", v.len());
    for e in v {
        write!(s, " {} {}", fmt_nl(&e.label), hx(&e.value.0)).unwrap();
    }
    s
}
pub fn ser_mp(p: &MembershipProof) -> String {
    let mut s = format!("{} {} {}", fmt_nl(&p.label), hx(&p.hash_val.0), p.sibling_proofs.len());
    for sp in &p.sibling_proofs {
        write!(s, " {} {} {} {}", fmt_nl(&sp.label), fmt_nl(&sp.siblings[0].label), hx(&sp.siblings[0].value.0), match sp.direction { Direction::Left => 0, Direction::Right => 1 }).unwrap();
    }
    s
}
pub fn ser_nmp(p: &NonMembershipProof) -> String {
    format!(
        "{} {} {} {} {} {} {}",
        fmt_nl(&p.label),
        fmt_nl(&p.longest_prefix),
        fmt_nl(&p.longest_prefix_children[0].label),
        hx(&p.longest_prefix_children[0].value.0),
        fmt_nl(&p.longest_prefix_children[1].label),
        hx(&p.longest_prefix_children[1].value.0),
        ser_mp(&p.longest_prefix_membership_proof)
    )
}
pub fn elem(l: NodeLabel, v: [u8; 32]) -> AzksElement {
    AzksElement { label: l, value: AzksValue(v) }
}
pub fn sib(label: NodeLabel, sl: NodeLabel, sv: [u8; 32], right: bool) -> SiblingProof {
    SiblingProof { label, siblings: [elem(sl, sv)], direction: if right { Direction::Right } else { Direction::Left } }
}
pub fn cfg_name<TC: Configuration>() -> &'static str {
    if TC::empty_label().label_val[1] == 1 { "w" } else { "e" }
}
