//! C09: adversarial append-only proofs against the real auditor. The server chooses the end hash
//! freely (it is the root of whatever the auditor's own rebuild yields), so an accepted proof is a
//! violation exactly when the rebuilt end tree no longer commits something the start tree committed.
use crate::rng::Rng;
use crate::treeutil::*;
use akd::append_only_zks::InsertMode;
use akd::auditor::{audit_verify, verify_consecutive_append_only};
use akd::tree_node::{TreeNodeType, TreeNodeWithPreviousValue};
use akd::{AppendOnlyProof, AzksElement, AzksValue, NodeLabel, SingleAppendOnlyProof};
use akd_core::configuration::Configuration;
use std::collections::HashMap;
use std::fmt::Write as _;

pub struct Cx {
    pub out: String,
    pub fails: Vec<String>,
    pub cases: usize,
    pub stats: HashMap<&'static str, u64>,
}
impl Cx {
    fn emit(&mut self, q: String, a: String) {
        writeln!(self.out, "{} = {}", q, a).unwrap();
        self.cases += 1;
    }
    fn stat(&mut self, k: &'static str) {
        *self.stats.entry(k).or_insert(0) += 1;
    }
}

/// the auditor's rebuild: (root hash, node map) or None on error
async fn rebuild<TC: Configuration>(nodes: Vec<AzksElement>, latest_epoch: u64) -> Option<([u8; 32], HashMap<NodeLabel, TreeNodeWithPreviousValue>)> {
    let mut az = RealAzks::new::<TC>().await;
    az.azks.latest_epoch = latest_epoch;
    az.insert::<TC>(nodes, InsertMode::Auditor).await.ok()?;
    let h = az.root_hash::<TC>().await;
    Some((h, az.dump().await))
}
fn node_value<TC: Configuration>(n: &akd::tree_node::TreeNode) -> AzksValue {
    if n.node_type == TreeNodeType::Leaf { AzksValue(TC::hash_leaf_with_commitment(n.hash, n.last_epoch).0) } else { n.hash }
}
fn ser_single(p: &SingleAppendOnlyProof) -> String {
    format!("{} {}", ser_elems(&p.inserted), ser_elems(&p.unchanged_nodes))
}

/// no label equal to or a prefix of another (the rebuild is only specified, and after fix F2 only reached, for such sets)
fn prefix_free(v: &[AzksElement]) -> bool {
    for (i, a) in v.iter().enumerate() {
        for (j, b) in v.iter().enumerate() {
            if i != j && is_prefix_bits(&bits_of(&a.label), &bits_of(&b.label)) {
                return false;
            }
        }
    }
    true
}

/// as try_proof, for proofs that must not be accepted whatever the end hash is
async fn try_proof_expect<TC: Configuration>(cx: &mut Cx, what: &str, h1: [u8; 32], end_epoch: u64, unchanged: Vec<AzksElement>, inserted: Vec<AzksElement>, may_accept: bool) {
    let a0 = *cx.stats.get("accepted").unwrap_or(&0);
    try_proof::<TC>(cx, what, h1, end_epoch, unchanged, inserted).await;
    let a1 = *cx.stats.get("accepted").unwrap_or(&0);
    if a1 > a0 && !may_accept {
        cx.fails.push(format!("accepted append-only proof ({}) although its start tree cannot be the committed one [cfg {}]", what, cfg_name::<TC>()));
    }
}
async fn try_proof<TC: Configuration>(cx: &mut Cx, what: &str, h1: [u8; 32], end_epoch: u64, unchanged: Vec<AzksElement>, inserted: Vec<AzksElement>) {
    let cfg = cfg_name::<TC>();
    // the end hash the server would publish: the root of the auditor's own rebuild
    let mut all = unchanged.clone();
    all.extend(inserted.iter().map(|x| AzksElement { label: x.label, value: AzksValue(TC::hash_leaf_with_commitment(x.value, end_epoch).0) }));
    if prefix_free(&unchanged) {
        cx.emit(format!("rebuild {} {} {}", cfg, 0, ser_elems(&unchanged)), match rebuild::<TC>(unchanged.clone(), 0).await { Some((h, _)) => hx(&h), None => "ERR".into() });
    }
    let (h2, end_nodes) = match rebuild::<TC>(all.clone(), end_epoch - 1).await {
        Some(x) => x,
        None => return,
    };
    if prefix_free(&all) {
        cx.emit(format!("rebuild {} {} {}", cfg, end_epoch - 1, ser_elems(&all)), hx(&h2));
    }
    let proof = SingleAppendOnlyProof { inserted: inserted.clone(), unchanged_nodes: unchanged.clone() };
    let ok = verify_consecutive_append_only::<TC>(&proof, h1, h2, end_epoch).await.is_ok();
    cx.emit(format!("vaudit1 {} {} {} {} {}", cfg, hx(&h1), hx(&h2), end_epoch, ser_single(&proof)), format!("{}", ok as u8));
    cx.stat("candidates");
    if ok {
        cx.stat("accepted");
        // ground truth: everything the proof claims unchanged (hence everything below it in the start tree)
        // and every inserted leaf must be a node of the end tree with the same value
        for e in &all {
            let present = end_nodes.get(&e.label).map(|r| {
                let n = &r.latest_node;
                // Auditor mode stores element values as given
                n.hash == e.value
            }).unwrap_or(false);
            if !present {
                cx.fails.push(format!("accepted append-only proof ({}) whose end tree no longer commits the element {} {}: start {} end {} cfg {} proof {}", what, fmt_nl(&e.label), hx(&e.value.0), hx(&h1), hx(&h2), cfg, ser_single(&proof)));
                break;
            }
        }
    }
}

fn rand_label(r: &mut Rng, prefix: &[bool]) -> NodeLabel {
    let mut b = prefix.to_vec();
    while b.len() < 256 {
        b.push(r.chance(1, 2));
    }
    from_bits(&b)
}

async fn one<TC: Configuration>(cx: &mut Cx, r: &mut Rng) {
    // start tree: random leaves with some shared prefixes, inserted at epoch 1
    let k = 3 + r.below(8) as usize;
    let mut leaves: Vec<AzksElement> = vec![];
    for i in 0..k {
        let pre: Vec<bool> = if i > 0 && r.chance(1, 2) { bits_of(&leaves[r.below(i as u64) as usize].label)[..(1 + r.below(12) as usize)].to_vec() } else { vec![] };
        let l = rand_label(r, &pre);
        if leaves.iter().all(|e| e.label != l) {
            leaves.push(elem(l, [i as u8 + 1; 32]));
        }
    }
    let mut az = RealAzks::new::<TC>().await;
    az.insert::<TC>(leaves.clone(), InsertMode::Directory).await.unwrap();
    let h1 = az.root_hash::<TC>().await;
    let m = az.dump().await;
    // frontiers of the start tree: cut at a random depth
    let mut frontier: Vec<NodeLabel> = vec![];
    let mut stack = vec![(NodeLabel::root(), 0u32)];
    let maxd = 1 + r.below(4) as u32;
    while let Some((l, d)) = stack.pop() {
        let n = &m[&l].latest_node;
        let is_leaf = n.node_type == TreeNodeType::Leaf;
        if (d >= maxd || is_leaf) && l.label_len > 0 {
            frontier.push(l);
        } else {
            for c in [n.left_child, n.right_child].into_iter().flatten() {
                stack.push((c, d + 1));
            }
        }
    }
    let unchanged: Vec<AzksElement> = frontier.iter().map(|l| AzksElement { label: *l, value: node_value::<TC>(&m[l].latest_node) }).collect();
    if unchanged.is_empty() {
        return;
    }
    let fresh = |r: &mut Rng, pre: &[bool], v: u8| elem(rand_label(r, pre), [v; 32]);
    // (a) honest-like: fresh leaves anywhere (may fall below an unchanged node by chance: then it IS an attack)
    let ins_a = vec![fresh(r, &[], 0xA1), fresh(r, &[], 0xA2)];
    try_proof::<TC>(cx, "fresh leaves", h1, 2, unchanged.clone(), ins_a).await;
    // (b) D2: fresh leaves strictly below an unchanged interior node
    let interior: Vec<&AzksElement> = unchanged.iter().filter(|e| e.label.label_len < 256).collect();
    if let Some(u) = interior.first() {
        let pre = bits_of(&u.label);
        let mut p0 = pre.clone();
        p0.push(false);
        let mut p1 = pre.clone();
        p1.push(true);
        try_proof::<TC>(cx, "leaves below an unchanged node", h1, 2, unchanged.clone(), vec![fresh(r, &p0, 0xB1), fresh(r, &p1, 0xB2)]).await;
        try_proof::<TC>(cx, "one leaf below an unchanged node", h1, 2, unchanged.clone(), vec![fresh(r, &p0, 0xB3)]).await;
    }
    // (c) an inserted element with the label of an unchanged node / leaf (duplicate label, other value)
    let u = *r.pick(&unchanged);
    try_proof::<TC>(cx, "inserted label equals an unchanged label", h1, 2, unchanged.clone(), vec![elem(u.label, [0xC1; 32])]).await;
    // (d) unchanged contains a node and one of its descendants (shadowing)
    for l in &frontier {
        let n = &m[l].latest_node;
        if let Some(c) = n.left_child {
            let mut un2 = unchanged.clone();
            un2.push(AzksElement { label: c, value: node_value::<TC>(&m[&c].latest_node) });
            try_proof::<TC>(cx, "unchanged contains a node and its child", h1, 2, un2, vec![fresh(r, &[], 0xD1)]).await;
            break;
        }
    }
    // (e) duplicated unchanged element
    let mut un3 = unchanged.clone();
    un3.push(unchanged[0]);
    try_proof::<TC>(cx, "duplicated unchanged element", h1, 2, un3, vec![fresh(r, &[], 0xE1)]).await;
    // (g) an unchanged interior node whose label carries stray bits beyond its length: the auditor's
    //     prefix-free check canonicalises, the rebuild does not; the start tree cannot hash to h1
    if let Some(pos) = unchanged.iter().position(|e| e.label.label_len < 250 && e.label.label_len > 0) {
        for bit in [unchanged[pos].label.label_len as usize, 255usize] {
            let mut un5 = unchanged.clone();
            un5[pos].label.label_val[bit / 8] |= 0x80u8 >> (bit % 8);
            try_proof_expect::<TC>(cx, "unchanged label with a stray bit", h1, 2, un5, vec![fresh(r, &[], 0xE7)], false).await;
        }
    }
    // (h) leaves sharing only a short prefix with an unchanged node listed first, followed by a run of
    //     zero bits up to the first word boundary (word-at-a-time label arithmetic)
    if let Some(pos) = unchanged.iter().position(|e| e.label.label_len >= 2 && e.label.label_len < 256) {
        let ub = bits_of(&unchanged[pos].label);
        if let Some(k) = (1..ub.len().min(63)).find(|k| ub[*k]) {
            let mut un6 = unchanged.clone();
            un6.swap(0, pos);
            let mut pre = ub[..k].to_vec();
            while pre.len() < 64 {
                pre.push(false);
            }
            let mut pa = pre.clone();
            pa.push(false);
            let mut pb = pre.clone();
            pb.push(true);
            try_proof::<TC>(cx, "zero-run leaves beside an unchanged node", h1, 2, un6.clone(), vec![fresh(r, &pa, 0xE8), fresh(r, &pb, 0xE9)]).await;
            try_proof::<TC>(cx, "zero-run leaves beside an unchanged node", h1, 2, un6, vec![fresh(r, &pre, 0xEA), fresh(r, &pre, 0xEB), fresh(r, &[], 0xEC)]).await;
        }
    }
    // (f) an old leaf replaced: unchanged without one leaf-frontier element, inserted re-adds its label with another value
    if let Some(pos) = unchanged.iter().position(|e| e.label.label_len == 256) {
        let mut un4 = unchanged.clone();
        let old = un4.remove(pos);
        try_proof::<TC>(cx, "old leaf re-inserted with another value", h1, 2, un4, vec![elem(old.label, [0xF1; 32])]).await;
    }
}

/// honest multi-epoch proofs with inconsistent lists / replaced hashes must be rejected
async fn list_checks<TC: Configuration>(cx: &mut Cx, r: &mut Rng) {
    let cfg = cfg_name::<TC>();
    let mut az = RealAzks::new::<TC>().await;
    // a shadow directory with the same history except that one leaf of epoch 1 was never inserted
    let mut shadow = RealAzks::new::<TC>().await;
    let mut hashes = vec![az.root_hash::<TC>().await];
    let mut shadow_hashes = hashes.clone();
    for e in 1..=4u8 {
        let els: Vec<AzksElement> = (0..(2 + r.below(4))).map(|i| elem(rand_label(r, &[]), [e * 16 + i as u8; 32])).collect();
        az.insert::<TC>(els.clone(), InsertMode::Directory).await.unwrap();
        hashes.push(az.root_hash::<TC>().await);
        let els2 = if e == 1 { els[1..].to_vec() } else { els };
        shadow.insert::<TC>(els2, InsertMode::Directory).await.unwrap();
        shadow_hashes.push(shadow.root_hash::<TC>().await);
    }
    let p = az.azks.get_append_only_proof::<TC, _>(&az.st, 0, 4, akd::AzksParallelismConfig::disabled()).await.unwrap();
    let ps = shadow.azks.get_append_only_proof::<TC, _>(&shadow.st, 0, 4, akd::AzksParallelismConfig::disabled()).await.unwrap();
    let mut variants: Vec<(&str, Vec<[u8; 32]>, AppendOnlyProof, bool)> = vec![("honest", hashes.clone(), p.clone(), true)];
    // the chain switches to the shadow directory (which lacks an earlier leaf) after k honest transitions
    for k in 1..4usize {
        let mut hs = hashes[..=k].to_vec();
        hs.extend_from_slice(&shadow_hashes[k + 1..]);
        let mut pr = p.clone();
        for i in k..4 {
            pr.proofs[i] = ps.proofs[i].clone();
        }
        variants.push(("later transitions taken from a directory lacking an earlier leaf", hs, pr, false));
    }
    variants.push(("honest (shadow directory)", shadow_hashes.clone(), ps.clone(), true));
    let mut h2 = hashes.clone();
    h2.pop();
    variants.push(("one hash missing", h2, p.clone(), false));
    let mut h3 = hashes.clone();
    h3.push([1u8; 32]);
    variants.push(("one hash too many", h3, p.clone(), false));
    let mut p2 = p.clone();
    p2.epochs.pop();
    variants.push(("epoch list shorter", hashes.clone(), p2, false));
    let mut p3 = p.clone();
    p3.proofs.pop();
    variants.push(("proof list shorter", hashes.clone(), p3, false));
    for i in 0..hashes.len() {
        let mut h = hashes.clone();
        h[i][r.below(32) as usize] ^= 1 << r.below(8);
        variants.push(("a root hash replaced", h, p.clone(), false));
    }
    let mut p4 = p.clone();
    p4.epochs[1] += 1;
    variants.push(("an epoch altered", hashes.clone(), p4, false));
    let mut p5 = p.clone();
    p5.proofs.swap(0, 1);
    variants.push(("two single proofs swapped", hashes.clone(), p5, false));
    for (what, hs, pr, want) in variants {
        let ok = audit_verify::<TC>(hs.clone(), pr.clone()).await.is_ok();
        cx.emit(format!("vaudit {} {} {} {}", cfg, hs.len(), hs.iter().map(|h| hx(h)).collect::<Vec<_>>().join(" "), crate::dirs::ser_audit_raw(&pr)), format!("{}", ok as u8));
        cx.stat("list_variants");
        if ok != want {
            cx.fails.push(format!("audit_verify {} a proof with {}", if ok { "accepted" } else { "rejected" }, what));
        }
    }
}

pub fn run(seed: u64, tier: u32) -> Cx {
    let rt = tokio::runtime::Builder::new_current_thread().enable_all().build().unwrap();
    let mut cx = Cx { out: String::new(), fails: vec![], cases: 0, stats: HashMap::new() };
    let mut r = Rng::new(seed ^ 0xA0D1);
    let n = if tier == 0 { 20 } else { 300 };
    rt.block_on(async {
        for i in 0..n {
            if i % 2 == 0 { one::<W>(&mut cx, &mut r).await } else { one::<E>(&mut cx, &mut r).await }
        }
        list_checks::<W>(&mut cx, &mut r).await;
        list_checks::<E>(&mut cx, &mut r).await;
    });
    cx
}
